"""Shared engine of the C10 (DNS relay) and C11 (UDP relay) checks.

It drives the REAL code of the working tree:
  client:  MultiListener.add_handler -> ondns / onaccept_udp, dns_done, udp_done,
           expire_connections, the dnsreqs / udp_by_src globals, a real ssnet.Mux
           (next_channel, send, handle, got_packet), the real methods' recv_udp / send_udp
           (BaseMethod through methods.nat, methods.tproxy);
  server:  the real server.main() loop with its closures dns_req / udp_open / udp_req and
           both end-of-round sweeps, the real DnsProxy / UdpProxy, the real ssnet.runonce.
server.main is entered once per scenario; ssnet.runonce is replaced by a function that hands
control to the scenario interpreter, which executes client steps itself and, for a server step,
prepares the fake descriptors and calls the real runonce.  Fakes exist only at the OS boundary:
datagram sockets, the tunnel files, select, the clock (ticks of 1/1024 s so that the Python float
arithmetic `time.time() + 30` is exact), resolv.conf.

A scenario is a cfg line plus step lines (same syntax as the Lean driver's input).  `run_case`
returns the model input lines, the canonical output lines of the real code, and the violations
found by the implementation-level oracle (ground truth kept by the engine, no model involved).
"""
import errno
import io
import os
import random
import socket
import struct
import sys
import weakref

import common
from common import hexb, unhex

TICKS = 1024
AF = {2: socket.AF_INET, 10: socket.AF_INET6}


# ------------------------------------------------------------------ text helpers

def show_addr(a):
    ip = a[0]
    if isinstance(ip, (bytes, bytearray)):
        ip = bytes(ip).decode('latin-1')
    return '|'.join([ip] + [str(x) for x in a[1:]])


def parse_addr(t):
    p = t.split('|')
    return tuple([p[0]] + [int(x) for x in p[1:]])


def show_oaddr(a):
    return '-' if a is None else show_addr(a)


def show_frames(fs):
    return ';'.join('%d.%d.%s' % (c, m, hexb(d)) for c, m, d in fs) if fs else '-'


def parse_frame(t):
    c, m, h = t.split('.')
    return int(c), int(m), unhex(h)


def join_or(sep, items):
    items = list(items)
    return sep.join(items) if items else '-'


def enc_frame(f):
    c, m, d = f
    return struct.pack('!ccHHH', b'S', b'S', c, m, len(d)) + d


def dec_frame(b):
    _s1, _s2, c, m, n = struct.unpack('!ccHHH', b[:8])
    assert len(b) == 8 + n, 'outbuf element is not exactly one frame'
    return c, m, bytes(b[8:])


def exc_tag(e):
    if isinstance(e, struct.error):
        return 'structError'
    if isinstance(e, UnboundLocalError):
        return 'unboundLocal'
    if isinstance(e, SystemExit):
        return 'fatal'
    if type(e).__name__ == 'Fatal':
        return 'fatal'
    if isinstance(e, OSError):
        return 'osError.%d' % (e.errno or 0)
    if isinstance(e, KeyError):
        return 'keyError'
    if isinstance(e, ValueError):
        return 'valueError'
    if isinstance(e, TypeError):
        return 'typeError'
    if isinstance(e, AssertionError):
        return 'assertion'
    return 'other.' + type(e).__name__


def kv(words, key, default=None):
    for w in words:
        if w.startswith(key + '='):
            return w[len(key) + 1:]
    return default


# ------------------------------------------------------------------ fakes at the OS boundary

class ScriptedR:
    def __init__(self):
        self.next = b''

    def fileno(self):
        return 1000

    def read(self, n):
        d, self.next = self.next, b''
        assert len(d) <= n, 'read larger than the mux asks for'
        return d


class ScriptedW:
    def fileno(self):
        return 1001

    def write(self, b):
        raise BlockingIOError(errno.EAGAIN, 'would block')


class FakeClock:
    """Stands in for the `time` module inside client.py / server.py."""

    def __init__(self, world):
        self.w = world

    def time(self):
        return self.w.now / float(TICKS)

    def __getattr__(self, name):
        import time as _t
        return getattr(_t, name)


class ModShim:
    """A module with a few attributes replaced."""

    def __init__(self, real, **over):
        self.__dict__['_real'] = real
        self.__dict__.update(over)

    def __getattr__(self, name):
        return getattr(self._real, name)


def origdst_cmsg(fam, dst):
    """The control message Linux attaches for IP_RECVORIGDSTADDR / IPV6_RECVORIGDSTADDR: the whole
    sockaddr_in (16 bytes) / sockaddr_in6 (28 bytes) of the original destination."""
    if fam == 2:
        return (socket.SOL_IP, 20, struct.pack('=HH', socket.AF_INET, socket.htons(dst[1])) +
                socket.inet_pton(socket.AF_INET, dst[0]) + bytes(8))
    flow = dst[2] if len(dst) > 2 else 0
    scope = dst[3] if len(dst) > 3 else 0
    return (41, 74, struct.pack('=HH', socket.AF_INET6, socket.htons(dst[1])) + struct.pack('!I', flow) +
            socket.inet_pton(socket.AF_INET6, dst[0]) + struct.pack('=I', scope))


def kernel_ancillary(cmsgs, ancsize):
    """What Linux put_cmsg() leaves in a control buffer of `ancsize` bytes: items in order; one that
    does not fit is cut to the room left and MSG_CTRUNC is set; one for which not even a header fits
    is lost (MSG_CTRUNC).  Compared with real loopback sockets by validate_recvmsg_fake()."""
    out, flags, room = [], 0, ancsize
    hdr = socket.CMSG_LEN(0)
    for (lvl, typ, data) in cmsgs:
        if room < hdr:
            flags |= socket.MSG_CTRUNC
            break
        if room < socket.CMSG_LEN(len(data)):
            flags |= socket.MSG_CTRUNC
            data = data[:room - hdr]
        out.append((lvl, typ, bytes(data)))
        room -= min(room, socket.CMSG_SPACE(len(data)))
    return out, flags


def validate_recvmsg_fake(ctx):
    """The recvmsg() fake against the real kernel: real loopback UDP sockets with
    IP(V6)_RECVORIGDSTADDR, several control-buffer sizes (incl. the CMSG_SPACE(24) the code offers)
    and a payload longer than the buffer.  A difference is a correspondence break of the harness;
    where the sandbox has no such sockets the validation is recorded as skipped."""
    for fam, lvl, opt, host in ((socket.AF_INET, socket.SOL_IP, 20, '127.0.0.1'), (socket.AF_INET6, 41, 74, '::1')):
        tag = 'v4' if fam == socket.AF_INET else 'v6'
        try:
            r = socket.socket(fam, socket.SOCK_DGRAM)
            s = socket.socket(fam, socket.SOCK_DGRAM)
        except OSError:
            ctx.hist('recvmsg-fake-validation-skipped:' + tag)
            continue
        try:
            r.setsockopt(lvl, opt, 1)
            r.bind((host, 0))
            r.settimeout(2)
            dst = r.getsockname()
            mine = origdst_cmsg(2 if fam == socket.AF_INET else 10, dst)
            for n in (0, 8, 16, 17, 24, 27, 28, 40):
                s.sendto(b'x' * 32, dst[:2])
                _d, full, _f, _s = r.recvmsg(64, 256)
                s.sendto(b'x' * 32, dst[:2])
                d, anc, fl, _s = r.recvmsg(16, socket.CMSG_SPACE(n))
                fake, ffl = kernel_ancillary([mine], socket.CMSG_SPACE(n))
                real = [(int(a), int(b), bytes(c)) for a, b, c in anc]
                whole = [(int(a), int(b), bytes(c)) for a, b, c in full]
                if whole != [mine] or real != fake or bool(fl & socket.MSG_CTRUNC) != bool(ffl & socket.MSG_CTRUNC) \
                        or not (fl & socket.MSG_TRUNC) or d != b'x' * 16:
                    ctx.corr_break('recvmsg-fake', case=dict(family=tag, ancsize=socket.CMSG_SPACE(n)),
                                   impl=repr((whole, real, fl)), model=repr(([mine], fake, ffl | socket.MSG_TRUNC)),
                                   note='the harness fake of recvmsg() differs from the kernel')
            ctx.hist('recvmsg-fake-validated:' + tag)
        except OSError as e:
            ctx.hist('recvmsg-fake-validation-skipped:%s:%s' % (tag, errno.errorcode.get(e.errno, e.errno)))
        finally:
            r.close()
            s.close()


import enum as _enum


class AddressFamily(_enum.IntEnum):
    """socket.AddressFamily as it prints before Python 3.11: str() gives 'AddressFamily.AF_INET',
    int(), '%d' and comparisons are the usual ones."""
    AF_INET = 2
    AF_INET6 = 10

    def __str__(self):
        return 'AddressFamily.' + self.name

    def __repr__(self):
        return '<AddressFamily.%s: %d>' % (self.name, int(self))

    def __format__(self, spec):
        return int.__format__(int(self), spec)


def listener_family(kind, family):
    """What `listener.family` looks like on the platform: a plain int, today's socket constant,
    or the pre-3.11 enum."""
    if kind == 'int':
        return int(family)
    if kind == 'old':
        return AddressFamily(family)
    return AF[family]


FAMILY_ROTATION = ['enum', 'old', 'int']


class FakeListener:
    """One listening datagram socket of a MultiListener."""

    def __init__(self, world, kind, family):
        self.w = world
        self.kind = kind
        self.family = listener_family(world.famkind, family)
        self.fam = family
        self.pending = None   # (src tuple, dst tuple|None, data)

    def fileno(self):
        return 1100 + self.fam

    def recvfrom(self, n):
        src, _dst, data = self.pending
        return data[:n], src

    def recvmsg(self, n, ancsize=0, flags=0):
        """Like the kernel: the whole control message the kernel has for the datagram (a 16-byte
        sockaddr_in / 28-byte sockaddr_in6 for IP(V6)_ORIGDSTADDR) is cut to the control buffer the
        caller offers (MSG_CTRUNC), the payload to `n` (MSG_TRUNC)."""
        src, dst, data = self.pending
        full = []
        if dst is not None:
            full.append(origdst_cmsg(self.fam, dst))
        anc, fl = kernel_ancillary(full, ancsize)
        if len(data) > n:
            fl |= socket.MSG_TRUNC
        self.w.h('recvmsg:v%d:%s' % (4 if self.fam == 2 else 6,
                                     '+'.join(x for x, b in (('ctrunc', socket.MSG_CTRUNC), ('trunc', socket.MSG_TRUNC))
                                              if fl & b) or 'whole'))
        return data[:n], anc, fl, src

    def sendto(self, data, addr):
        self.w.emits.append(dict(via=self, fam=self.fam, bound=None, to=tuple(addr), data=bytes(data)))


class FakeSender:
    """The transparent socket tproxy's send_udp creates."""

    def __init__(self, world, family, _type):
        self.w = world
        self.family = family
        self.bound = None

    def setsockopt(self, *a):
        pass

    def bind(self, addr):
        self.bound = tuple(addr)

    def sendto(self, data, addr):
        self.w.emits.append(dict(via=None, fam=(10 if self.family == socket.AF_INET6 else 2), bound=self.bound,
                                 to=tuple(addr), data=bytes(data)))

    def close(self):
        pass


class SockHandle:
    """The object the real code holds for a server socket.  The engine never keeps a strong
    reference to it: when the real code drops its last reference (CPython closes the descriptor
    then) or calls close(), the engine-side record `FakeSock` is marked released.  This is how the
    resource oracle sees whether per-query state is let go."""

    def __init__(self, rec):
        self.__dict__['rec'] = rec
        weakref.finalize(self, rec.mark_released)

    def __getattr__(self, name):
        return getattr(self.rec, name)

    def __repr__(self):
        return '<sock %d>' % self.rec.sid

    def close(self):
        self.rec.mark_released()


class FakeSock:
    """Engine-side record of a datagram socket created by the server (resolver socket or
    UdpProxy socket); the real code gets a `SockHandle` to it."""

    def __init__(self, world, family, _type):
        open_now = sum(1 for r in world.socks.values() if not r.released)
        if world.fd_budget is not None and open_now >= world.fd_budget:
            world.h('fd-budget-exhausted')
            raise OSError(errno.EMFILE, os.strerror(errno.EMFILE))
        self.w = world
        self.family = family
        self.sid = world.next_sock
        world.next_sock += 1
        world.socks[self.sid] = self
        own = world.cur_owner             # ground truth: which query / association it serves
        self.owner_ref = weakref.ref(own) if own is not None else (lambda: None)
        self.kind = 'dns' if isinstance(own, world.RecDnsProxy) else 'udp' if isinstance(own, world.RecUdpProxy) else None
        self.owner_meta = getattr(own, 'meta', None)
        self.owner_hid = getattr(own, 'hid', None)
        self.released = False
        self.handle_ref = lambda: None
        self.peer = None
        self.pending = None
        self.log = []                     # (op, errno|0)
        world.new_socks.append(self)

    def __repr__(self):
        return '<sock %d>' % self.sid

    @property
    def owner(self):
        return self.owner_ref()

    def mark_released(self):
        self.released = True

    def fileno(self):
        return 2000 + self.sid

    def _result(self, op):
        r = self.w.pop_result()
        self.log.append((op, r))
        if r:
            raise OSError(r, os.strerror(r))

    def connect(self, addr):
        self.peer = tuple(addr)
        self._result('connect')

    def send(self, data):
        self._result('send')
        self.w.rsends.append((self, bytes(data)))
        return len(data)

    def sendto(self, data, addr):
        rec = dict(sock=self, addr=tuple(addr), data=bytes(data), failed=0)
        self.w.usends.append(rec)
        try:
            self._result('sendto')
        except OSError as e:
            rec['failed'] = e.errno
            raise
        return len(data)

    def _recv(self, n):
        p, self.pending = self.pending, None
        assert p is not None, 'socket read without a scripted event'
        if p[0] == 'e':
            self.log.append(('recv', p[1]))
            raise OSError(p[1], os.strerror(p[1]))
        self.log.append(('recv', 0))
        return p[2][:n], p[1]

    def recv(self, n):
        return self._recv(n)[0]

    def recvfrom(self, n):
        return self._recv(n)

    def setsockopt(self, *a):
        pass

    def close(self):
        pass


class Violation(Exception):
    pass


class DevNull:
    """stderr of the code under test: accepts everything (the diagnostics are formatted and written)."""

    def write(self, b):
        return len(b)

    def flush(self):
        pass


class BrokenStderr:
    """stderr whose terminal has gone: every write fails with EIO."""

    def write(self, b):
        raise OSError(errno.EIO, os.strerror(errno.EIO))

    def flush(self):
        raise OSError(errno.EIO, os.strerror(errno.EIO))


# the verbosity each case runs at: position in the run + the check's seed, so that over seeds 0..7
# every directed case has run at every level
VERBOSITY_ROTATION = [0, 0, 3, 0, 2, 0, 13, 1]


def at_level(cfg, i, seed):
    cfg = ' '.join(w for w in cfg.split() if not w.startswith(('v=', 'fam=')))
    return '%s v=%d fam=%s' % (cfg, VERBOSITY_ROTATION[(i + seed) % len(VERBOSITY_ROTATION)],
                               FAMILY_ROTATION[(i + seed) % len(FAMILY_ROTATION)])


# ------------------------------------------------------------------ the world

class World:
    def __init__(self, cfg_line, steps, shuffle_seed=0, max_channel=None):
        self.cfg_line = cfg_line
        w = cfg_line.split()
        self.method_name = kv(w, 'method', 'tproxy')
        self.max_ch = int(kv(w, 'max', '65535'))
        self.probes = int(kv(w, 'probes', '1024'))
        ns = kv(w, 'ns', '-')
        self.nslist = [] if ns == '-' else ns.split(',')
        # the remote host's /etc/resolv.conf: given as rc=<hex>, else plain lines for the ns= list.
        # The REAL helpers.resolvconf_nameservers parses it; `nslist` (what the oracle expects the
        # system name servers to be) is read off the text by resolv_conf_spec, per resolv.conf(5).
        rc = kv(w, 'rc')
        if rc is not None:
            self.rc_text = unhex(rc)
            self.nslist = resolv_conf_spec(self.rc_text)
        else:
            self.rc_text = ''.join('nameserver %s\n' % ip for ip in self.nslist).encode('ascii')
        tons = kv(w, 'tons', '-')
        self.to_ns = None if tons == '-' else tons
        # verbosity of the real code in this scenario: 0..3 = sshuttle.helpers.verbose, 13 = level 3 with a
        # stderr whose write() fails with EIO (a vanished terminal).  Behaviour must not depend on it.
        self.vlevel = int(kv(w, 'v', '0'))
        self.famkind = kv(w, 'fam', 'enum')   # how listener.family looks: enum | old | int
        fds = kv(w, 'fds')              # descriptor budget of the server process (EMFILE beyond it)
        self.fd_budget = int(fds) if fds else None
        self.gen = None
        if callable(steps):
            self.gen, steps = steps, []
        self.steps = list(steps)
        self.shuffle_seed = shuffle_seed
        self.now = 0
        self.ins = []
        self.outs = []
        self.violations = []
        self.hist = {}
        self.pc = 0
        # tunnel
        self.c2s = []     # (frame, meta)
        self.s2c = []
        # client ground truth
        self.emits = []
        self.cur_listener = None
        self.client_dead = None
        self.nq = 0
        self.queries = {}        # qid -> dict
        self.cb_qid = {}         # id(callback) -> qid
        self.cb_keep = []        # keep callbacks alive so id() stays unique
        self.assocs = {}         # src tuple -> live association dict
        self.all_assocs = []
        self.srvq = {}           # ground truth per query on the server: born, socket in flight, answered, expired
        self.alloc_count = {}    # id -> how many flows it has been given to (id reuse = count > 1)
        self.occupied_total = 0  # ids taken by other flows (occupy steps)
        # server ground truth
        self.server_dead = None
        self.server_entered = False
        self.smux = None
        self.shandlers = None
        self.next_sock = 0
        self.next_hid = 0
        self.socks = {}
        self.new_socks = []
        self.rsends = []
        self.usends = []
        self.results = []
        self.picks = []
        self.cur_owner = None
        self.called_back = []
        self.ready = set()
        self.pending_dns_meta = []
        self.pending_udp_meta = []
        self.srv_pending = None
        self.server_injected = 0
        self.server_dead_at = None

    # ---- bookkeeping helpers
    def h(self, key, n=1):
        self.hist[key] = self.hist.get(key, 0) + n

    def violate(self, key, expected, observed):
        if self.server_injected:
            # frames were forged into the server: only the model correspondence is meaningful from there on
            self.h('muted-after-forged-server-frame')
            return
        self.violations.append(dict(key=key, step=self.pc - 1, line=self.steps[self.pc - 1] if self.pc else '',
                                    expected=expected, observed=observed))

    def new_server_socket(self, fam, typ):
        rec = FakeSock(self, fam, typ)
        h = SockHandle(rec)
        rec.handle_ref = weakref.ref(h)
        return h

    def pop_result(self):
        if self.results:
            return self.results.pop(0)
        return 0

    # ---- set-up / tear-down
    def run(self):
        import sshuttle.ssnet as ssnet
        import sshuttle.client as client
        import sshuttle.server as server
        import sshuttle.helpers as helpers
        import sshuttle.methods.tproxy as tproxy
        import sshuttle.methods.nat as nat
        self.ssnet, self.client, self.server, self.helpers = ssnet, client, server, helpers
        saved = dict(
            snb=ssnet.set_non_blocking_io, runonce=ssnet.runonce, select=ssnet.select,
            maxch=ssnet.MAX_CHANNEL, ctime=client.time, stime=server.time, sio=server.io,
            ssocket=server.socket, tsocket=tproxy.socket, dnsproxy=server.DnsProxy,
            udpproxy=server.UdpProxy, grn=server.get_random_nameserver,
            verbose=helpers.verbose, logprefix=helpers.logprefix,
            stdout=sys.stdout, stderr=sys.stderr, rstate=random.getstate(),
            dnsreqs=dict(client.dnsreqs), udp=dict(client.udp_by_src))
        self.real_runonce = ssnet.runonce
        world = self
        try:
            helpers.verbose = 3 if self.vlevel == 13 else min(self.vlevel, 3)
            sys.stderr = BrokenStderr() if self.vlevel == 13 else DevNull()
            random.seed(self.shuffle_seed)
            ssnet.set_non_blocking_io = lambda fd: None
            ssnet.MAX_CHANNEL = self.max_ch
            clock = FakeClock(self)
            client.time = clock
            server.time = clock
            client.dnsreqs.clear()
            client.udp_by_src.clear()
            tproxy.socket = ModShim(socket, socket=lambda fam, typ=0, *a: FakeSender(world, fam, typ))
            server.socket = ModShim(
                socket, socket=lambda fam, typ=0, *a: world.new_server_socket(fam, typ),
                getaddrinfo=lambda peer, port, *a, **k: [
                    (socket.AF_INET6 if ':' in peer else socket.AF_INET, socket.SOCK_DGRAM, 17, '',
                     (peer, int(port)))])
            server.io = ModShim(io, FileIO=lambda fd, mode='r': (self.s_r if fd == 0 else self.s_w))
            self.s_r, self.s_w = ScriptedR(), ScriptedW()

            def fake_select(r, w, x, timeout=None):
                return [o for o in r if o in world.ready], [], []
            ssnet.select = ModShim(ssnet.select, select=fake_select)
            def fake_open(path, *a, **k):
                # helpers.resolvconf_nameservers does `open('/etc/resolv.conf')` (text mode)
                if path == '/etc/resolv.conf':
                    return io.TextIOWrapper(io.BytesIO(world.rc_text), encoding='latin-1')
                raise FileNotFoundError(errno.ENOENT, os.strerror(errno.ENOENT), path)
            helpers.open = fake_open          # module global shadows the builtin inside helpers only
            real_grn = helpers.get_random_nameserver

            def rec_grn():
                r = real_grn()
                world.picks.append(r[1])
                return r
            server.get_random_nameserver = rec_grn

            class RecDnsProxy(saved['dnsproxy']):
                def __init__(s, mux, chan, request, to_ns):
                    s.hid = world.next_hid
                    world.next_hid += 1
                    s.meta = world.pending_dns_meta.pop(0) if world.pending_dns_meta else None
                    world.cur_owner = s
                    for g in world.srvq.values():
                        if g['chan'] == chan and not g['answered'] and not g['expired']:
                            g['overwritten'] = True      # id reuse: dnshandlers[chan] now names the new handler
                    world.srvq[s.hid] = dict(hid=s.hid, chan=chan, qid=(s.meta[1] if s.meta else None), born=world.now,
                                             inflight=None, answered=False, expired=False, overwritten=False)
                    saved['dnsproxy'].__init__(s, mux, chan, request, to_ns)

                def callback(s, sock):
                    world.cur_owner = s           # sockets created by a retry belong to this query
                    world.called_back.append((s, getattr(sock, 'rec', None)))
                    return saved['dnsproxy'].callback(s, sock)

            class RecUdpProxy(saved['udpproxy']):
                def __init__(s, mux, chan, family):
                    s.hid = world.next_hid
                    world.next_hid += 1
                    s.meta = world.pending_udp_meta.pop(0) if world.pending_udp_meta else None
                    world.cur_owner = s
                    saved['udpproxy'].__init__(s, mux, chan, family)
            server.DnsProxy = RecDnsProxy
            server.UdpProxy = RecUdpProxy
            self.RecDnsProxy, self.RecUdpProxy = RecDnsProxy, RecUdpProxy

            # client end
            self.cmux = ssnet.Mux(ScriptedR(), ScriptedW())
            self.cmux.outbuf[:] = []     # the initial PING is C09's business
            self.cmux.fullness = 0
            self.method = (tproxy.Method('tproxy') if self.method_name == 'tproxy' else nat.Method('nat'))
            self.chandlers = []
            self.listeners = {}
            for kind, cb in (('dns', client.ondns), ('udp', client.onaccept_udp)):
                ml = client.MultiListener(socket.SOCK_DGRAM)
                ml.v4 = FakeListener(self, kind, 2)
                ml.v6 = FakeListener(self, kind, 10)
                ml.bind_called = True
                ml.add_handler(self.chandlers, cb, self.method, self.cmux)
                self.listeners[kind] = (ml, self.chandlers[-1])
            self.ins.append(self.cfg_line)
            self.outs.append('ok')

            ssnet.runonce = self.fake_runonce
            sys.stdout = io.StringIO()
            try:
                server.main(False, ssnet.LATENCY_BUFFER_SIZE, False, self.to_ns, False)
            except SystemExit as e:
                self.server_exit(e)
            except BaseException as e:   # noqa
                self.server_exit(e)
            finally:
                sys.stdout = saved['stdout']
            ended_normally = self.server_dead is None
            if self.server_dead is None:
                self.server_dead = 'ended'
            # the rest of the scenario without a server
            self.interpret(server_alive=False)
            if ended_normally or self.server_dead in ('fatal',):
                self.shandlers = []
                self.smux = None
                self.dnshandlers = {}
                self.udphandlers = {}
                self.srv_pending = None
                self.resource_oracle(final=True)
        finally:
            ssnet.set_non_blocking_io = saved['snb']
            ssnet.runonce = saved['runonce']
            ssnet.select = saved['select']
            ssnet.MAX_CHANNEL = saved['maxch']
            client.time = saved['ctime']
            server.time = saved['stime']
            server.io = saved['sio']
            server.socket = saved['ssocket']
            tproxy.socket = saved['tsocket']
            server.DnsProxy = saved['dnsproxy']
            server.UdpProxy = saved['udpproxy']
            server.get_random_nameserver = saved['grn']
            helpers.__dict__.pop('open', None)
            helpers.verbose = saved['verbose']
            helpers.logprefix = saved['logprefix']
            sys.stdout = saved['stdout']
            sys.stderr = saved['stderr']
            random.setstate(saved['rstate'])
            client.dnsreqs.clear()
            client.dnsreqs.update(saved['dnsreqs'])
            client.udp_by_src.clear()
            client.udp_by_src.update(saved['udp'])
        return self

    def server_exit(self, e):
        if os.environ.get('DGRAM_DEBUG'):
            import traceback
            traceback.print_exception(e, file=sys.__stderr__)
        if self.server_dead is None:
            self.server_dead = exc_tag(e)
            self.server_dead_at = self.pc - 1
        if self.srv_pending is not None:
            self.finish_server_step(raised=exc_tag(e))

    # ---- the scenario interpreter
    def fake_runonce(self, handlers, mux):
        if not self.server_entered:
            self.server_entered = True
            self.smux, self.shandlers = mux, handlers
            mux.outbuf[:] = []          # initial PING and ROUTES: not this property's business
            mux.fullness = 0
            cells = dict(zip(mux.got_dns_req.__code__.co_freevars,
                             [c.cell_contents for c in mux.got_dns_req.__closure__]))
            self.dnshandlers = cells['dnshandlers']
            cells = dict(zip(mux.got_udp_open.__code__.co_freevars,
                             [c.cell_contents for c in mux.got_udp_open.__closure__]))
            self.udphandlers = cells['udphandlers']
        if self.srv_pending is not None:
            self.finish_server_step()       # the sweeps of the previous round have run by now
        self.interpret(server_alive=True)

    def interpret(self, server_alive):
        while True:
            if self.pc >= len(self.steps):
                nxt = self.gen(self) if self.gen else None
                if nxt is None:
                    break
                self.steps.append(nxt)
            line = self.steps[self.pc]
            self.pc += 1
            w = line.split()
            op = w[0]
            if op in ('sround', 'sinject', 'ssock', 'smulti'):
                if not server_alive:
                    self.dead_server_step(w, line)
                    continue
                self.server_step(w, line)    # calls the real runonce; returns to server.main
                return
            self.client_step(w, line)
        if server_alive:
            self.smux.ok = False             # scenario over: leave `while mux.ok`

    # ---- client steps
    def client_state(self):
        m = self.cmux
        chans = []
        for k in sorted(k for k in m.channels if k is not None):
            v = m.channels[k]
            if not v:
                continue
            if id(v) in self.cb_qid:
                chans.append('%d:d%d' % (k, self.cb_qid[id(v)]))
            elif getattr(v, '_other', False):
                chans.append('%d:o' % k)
            else:
                chans.append('%d:u' % k)
        c = self.client
        live = [k for k in m.channels if k is not None and m.channels[k]]
        if len(live) > 48:
            # hundreds of outstanding queries / associations: counts and sums (same rule in the Lean driver)
            return 'chani=%d big nch=%d sch=%d ndns=%d sdns=%d ddns=%d nudp=%d sudp=%d dudp=%d' % (
                getattr(m, 'chani', -1), len(live), sum(live),
                len(c.dnsreqs), sum(c.dnsreqs), sum(round(v * TICKS) for v in c.dnsreqs.values()),
                len(c.udp_by_src), sum(v[0] for v in c.udp_by_src.values()),
                sum(round(v[1] * TICKS) for v in c.udp_by_src.values()))
        return 'chani=%d chans=%s dns=%s udp=%s' % (
            getattr(m, 'chani', -1), join_or(',', chans),
            join_or(',', ('%d@%d' % (k, round(v * TICKS)) for k, v in c.dnsreqs.items())),
            join_or(',', ('%s>%d@%d' % (show_addr(k), v[0], round(v[1] * TICKS)) for k, v in c.udp_by_src.items())))

    def show_emit(self, e):
        return '%d>%s>%s:%s' % (e['fam'], show_oaddr(e['bound']), show_addr(e['to']), hexb(e['data']))

    def drain_client(self):
        fs = [dec_frame(b) for b in self.cmux.outbuf]
        self.cmux.outbuf[:] = []
        return fs

    def client_step(self, w, line):
        op = w[0]
        self.ins.append(line)
        if op == 'tick':
            self.now += int(w[1])
            self.outs.append('ok now=%d' % self.now)
            return
        frame_meta = None
        if op == 'cdeliver' and self.s2c:
            frame_meta = self.s2c.pop(0)
        if self.client_dead:
            self.outs.append('dead')
            return
        if op == 'cdeliver' and frame_meta is None:
            self.outs.append('ok frames=- emits=- ' + self.client_state())
            return
        self.emits = []
        pre = None
        try:
            if op in ('cdns', 'cudp'):
                fam = int(w[1])
                src = parse_addr(w[2])
                dst = None if w[3] == '-' else parse_addr(w[3])
                data = unhex(w[4])
                kind = 'dns' if op == 'cdns' else 'udp'
                ml, handler = self.listeners[kind]
                sock = ml.v4 if fam == 2 else ml.v6
                sock.pending = (src, dst, data)
                self.cur_listener = sock
                pre = dict(kind=kind, sock=sock, src=src, dst=dst, data=data,
                           chans=dict(self.cmux.channels))
                handler.callback(sock)
            elif op == 'caccept':
                # the part of any other accept event that matters here (client.py:531)
                self.client.expire_connections(self.client.time.time(), self.cmux)
            elif op == 'occupy':
                def other(cmd, data):
                    return None
                other._other = True
                if not self.cmux.channels.get(int(w[1])):     # another flow only ever gets a free id
                    self.cmux.channels[int(w[1])] = other
                    self.occupied_total += 1
            elif op == 'release':
                if getattr(self.cmux.channels.get(int(w[1])), '_other', False):
                    self.cmux.channels[int(w[1])] = None    # what MuxWrapper.maybe_close does
            elif op in ('cdeliver', 'cinject'):
                if op == 'cinject':
                    frame_meta = (parse_frame(w[1]), None)
                f, meta = frame_meta
                cb = self.cmux.channels.get(f[0])
                pre = dict(kind='frame', frame=f, meta=meta, cb=cb)
                self.cmux.rfile.next = enc_frame(f)
                self.cmux.handle()
            else:
                raise AssertionError('unknown step ' + line)
        except BaseException as e:   # noqa
            tag = exc_tag(e)
            self.client_dead = tag
            self.outs.append('raised ' + tag)
            self.oracle_client_raised(op, pre, e)
            return
        frames = self.drain_client()
        emits = self.emits
        try:
            self.oracle_client(op, pre, frames, emits)
        except Violation:
            pass
        self.outs.append('ok frames=%s emits=%s %s' % (
            show_frames(frames), join_or(';', (self.show_emit(e) for e in emits)), self.client_state()))

    # ---- server steps
    def dead_server_step(self, w, line):
        n = int(w[1]) if w[0] == 'sround' else 0
        lost, self.c2s = self.c2s[:n], self.c2s[n:]
        self.ins.append(line + ' picks=-')
        self.outs.append('dead')
        cause = self.server_dead
        if cause not in ('ended', 'fatal', 'assertion') and self.server_injected == 0:
            for f, meta in lost:
                if meta and meta[0] == 'dns':
                    self.violate('C10:captured-query-never-forwarded:server-died:' + cause.split('.')[0],
                                 'query %d is forwarded to the resolver' % meta[1],
                                 'the server had stopped with %s at step %d' % (cause, self.server_dead_at))
                elif meta and meta[0] == 'udp-data':
                    self.violate('C11:captured-datagram-never-re-emitted:server-died:' + cause.split('.')[0],
                                 'the datagram is re-emitted once by the server',
                                 'the server had stopped with %s at step %d' % (cause, self.server_dead_at))

    def server_state(self):
        dns, udp = [], []
        dh = [h for h in self.shandlers if isinstance(h, self.RecDnsProxy)]
        uh = [h for h in self.shandlers if isinstance(h, self.RecUdpProxy)]
        if len(dh) + len(uh) > 48:
            chs = [k for k, v in self.smux.channels.items() if v]
            return 'big ndns=%d sdns=%d tries=%d okdns=%d ndmap=%d nudp=%d sudp=%d okudp=%d numap=%d nch=%d sch=%d' % (
                len(dh), sum(h.chan for h in dh), sum(h.tries for h in dh), sum(1 for h in dh if h.ok),
                len(self.dnshandlers), len(uh), sum(h.chan for h in uh), sum(1 for h in uh if h.ok),
                len(self.udphandlers), len(chs), sum(chs))
        for h in self.shandlers:
            if isinstance(h, self.RecDnsProxy):
                dns.append('%d:%d:%d:%s:%d@%d' % (h.hid, h.chan, h.tries, join_or(',', (str(s.sid) for s in h.socks)),
                                                   1 if h.ok else 0, round(h.timeout * TICKS)))
            elif isinstance(h, self.RecUdpProxy):
                udp.append('%d:%d:%d:%d:%d' % (h.hid, h.chan, h.sock.sid, int(h.sock.family), 1 if h.ok else 0))
        return 'dns=%s dmap=%s udp=%s umap=%s ch=%s' % (
            join_or(';', dns), join_or(',', ('%d>%d' % (c, h.hid) for c, h in self.dnshandlers.items())),
            join_or(';', udp), join_or(',', ('%d>%d' % (c, h.hid) for c, h in self.udphandlers.items())),
            join_or(',', (str(k) for k, v in self.smux.channels.items() if v)))

    def server_step(self, w, line):
        op = w[0]
        res = kv(w, 'res', '-')
        self.results = [] if res == '-' else [int(x) for x in res.split(',')]
        self.picks = []
        self.rsends, self.usends, self.new_socks = [], [], []
        self.called_back = []
        self.ready = set()
        self.cur_owner = None
        info = dict(op=op, line=line, frames=[], sock=None, event=None)
        if op in ('sround', 'sinject'):
            if op == 'sround':
                n = int(w[1])
                taken, self.c2s = self.c2s[:n], self.c2s[n:]
            else:
                taken = [(parse_frame(t), None) for t in w[1].split(';')] if w[1] != '-' else []
                self.server_injected += 1
            info['frames'] = taken
            self.pending_dns_meta = [m for f, m in taken if f[1] == self.ssnet.CMD_DNS_REQ]
            self.pending_udp_meta = [m for f, m in taken if f[1] == self.ssnet.CMD_UDP_OPEN]
            self.s_r.next = b''.join(enc_frame(f) for f, _m in taken)
            if taken:
                self.ready = {self.s_r}
        elif op == 'smulti':
            # several resolver sockets have a datagram (or an error) waiting in the same runonce pass
            info['events'] = []
            for t in w[1].split(';'):
                k, kind, val = t.split('.')
                sock = self.socks.get(int(k))
                ev = ('d', None, unhex(val)) if kind == 'd' else ('e', int(val))
                listed = [h for h in self.shandlers
                          if sock is not None and any(getattr(x, 'rec', None) is sock for x in h.socks)]
                live = [h for h in listed if h.ok]
                info['events'].append(dict(sock=sock, ev=ev, handler=live[0] if live else None))
                if listed:
                    if ev[0] == 'd':
                        ev = ('d', sock.peer or ('0.0.0.0', 0), ev[2])
                    sock.pending = ev
                    self.ready |= {x for h in listed for x in h.socks if getattr(x, 'rec', None) is sock}
        else:
            k = int(w[1])
            sock = self.socks.get(k)
            info['sock'] = sock
            if w[2] == 'd':
                info['event'] = ('d', parse_addr(w[3]), unhex(w[4]))
            else:
                info['event'] = ('e', int(w[3]))
            if sock is not None:
                listed = [h for h in self.shandlers if any(getattr(x, 'rec', None) is sock for x in h.socks)]
                live = [h for h in listed if h.ok]
                info['handler'] = live[0] if live else None
                if listed:
                    # a datagram is waiting on the socket; whether anybody still select()s it is the
                    # real runonce's decision (a retired handler must have been dropped by now)
                    sock.pending = info['event']
                    self.ready = {x for h in listed for x in h.socks if getattr(x, 'rec', None) is sock}
                    self.cur_owner = listed[0]
        info['pre_alive'] = [h for h in self.shandlers if h.ok]
        self.srv_pending = info
        try:
            self.real_runonce(self.shandlers, self.smux)
        except BaseException as e:   # noqa
            self.server_exit(e)
            raise
        # control goes back to server.main: sweeps, then fake_runonce again (or the loop ends)

    def finish_server_step(self, raised=None):
        info, self.srv_pending = self.srv_pending, None
        for r in self.socks.values():
            r.pending = None                      # nobody read it in this pass: the script moves on
        frames = [dec_frame(b) for b in self.smux.outbuf]
        self.smux.outbuf[:] = []
        self.ins.append(info['line'] + ' picks=' + join_or(',', self.picks))
        body = 'frames=%s rsends=%s usends=%s socks=%d' % (
            show_frames(frames),
            join_or(';', ('%d>%s:%s' % (s.sid, show_addr(s.peer), hexb(d)) for s, d in self.rsends)),
            join_or(';', ('%d>%s:%s:%d' % (u['sock'].sid, show_addr(u['addr']), hexb(u['data']), u['failed'])
                          for u in self.usends)),
            self.next_sock)
        if raised:
            self.outs.append('raised %s %s' % (raised, body))
        else:
            self.outs.append('ok %s %s' % (body, self.server_state()))
        try:
            self.oracle_server(info, frames, raised)
        except Violation:
            pass
        info.clear()
        if not raised:
            self.resource_oracle(final=False)

    # ================================================================ oracles (ground truth only)

    def lingering_resolver_sockets(self):
        """Resolver sockets still open although the query they were created for has been retired
        (its DnsProxy is neither in `handlers` nor in `dnshandlers` any more)."""
        live = {id(h) for h in (self.shandlers or [])} | {id(h) for h in self.dnshandlers.values()} \
            if self.server_entered else set()
        out = []
        for r in self.socks.values():
            if r.kind == 'dns' and not r.released:
                own = r.owner_ref()
                if own is None or id(own) not in live:
                    out.append(r)
        return out

    def resource_oracle(self, final):
        """C10 'state for a query is released when it is answered ... forgotten 30 seconds later':
        once a query's handler is retired, the sockets created for it must be closed.  server.main's
        loop variable `h` may keep the one handler it looked at last, so the sockets of ONE retired
        handler are tolerated while the server runs; none once server.main has returned."""
        if getattr(self, 'resource_flagged', False):
            return
        self.cur_owner = None
        self.ready = set()                # (holds the handle of the socket that was made ready)
        self.called_back = []
        def too_many(ling):
            return len({r.owner_hid for r in ling}) > (0 if final else 1)
        ling = self.lingering_resolver_sockets()
        if too_many(ling):
            import gc
            gc.collect()
            ling = self.lingering_resolver_sockets()
        open_dns = sum(1 for r in self.socks.values() if r.kind == 'dns' and not r.released)
        self.hist['max-open-resolver-sockets'] = max(self.hist.get('max-open-resolver-sockets', 0), open_dns)
        if too_many(ling):
            qids = sorted({r.owner_meta[1] for r in ling if r.owner_meta})
            self.resource_flagged = True
            self.violate('C10:resolver-socket-not-released-after-query-retired',
                         'every socket created for a retired (answered or expired) query is closed',
                         '%d sockets still open: %s (queries %s); %d resolver sockets open in all'
                         % (len(ling), [r.sid for r in ling][:12], qids[:12], open_dns))

    def allowed_resolvers(self):
        if self.to_ns is not None:
            host, port = self.to_ns.split('@')
            return {(host, int(port) or 53)}
        if self.nslist:
            return {(ip, 53) for ip in self.nslist}
        return {('127.0.0.1', 53)}

    def oracle_client_raised(self, op, pre, e):
        tag = exc_tag(e)
        if op == 'cinject':
            self.h('client-raised-on-injected-frame:' + tag)
            return
        prop = 'C11' if (pre and pre.get('kind') == 'udp') else 'C10'
        if pre and pre.get('kind') == 'frame' and pre['meta'] and self.alloc_count.get(pre['frame'][0], 0) > 1:
            # a reply for a previous owner of the id was handed to the flow that has it now
            if pre['meta'][0] == 'dns-reply':
                self.violate('C10:' + self.reuse(pre['frame'][0]) + 'reply-delivered-to-another-requester',
                             'the reply reaches its own asker or nobody', 'handed to another flow, which raised %r' % (e,))
            else:
                self.violate('C11:' + self.reuse(pre['frame'][0]) + 'reply-delivered-to-another-source',
                             'the reply reaches its own source or nobody', 'handed to another flow, which raised %r' % (e,))
            return
        if op == 'cudp' and self.method_name == 'base':
            self.h('udp-under-non-udp-method:' + tag)
            return
        if pre and pre.get('kind') == 'frame' and pre['meta'] and pre['meta'][0] in ('udp-reply',):
            prop = 'C11'
        self.violate('%s:client-raised:%s:%s' % (prop, op, tag),
                     'the client handles the event', 'raised %r' % (e,))

    def oracle_client(self, op, pre, frames, emits):
        C = self.ssnet
        now = self.now
        if op in ('cdns', 'cudp'):
            kind, src, dst, data = pre['kind'], pre['src'], pre['dst'], pre['data']
            ignored = self.method_name == 'tproxy' and dst is None
            data4k = data[:4096]
            closes = [f for f in frames if f[1] == C.CMD_UDP_CLOSE]
            rest = [f for f in frames if f[1] != C.CMD_UDP_CLOSE]
            if emits:
                self.violate('%s:capture-emitted-datagram' % ('C10' if kind == 'dns' else 'C11'),
                             'no local datagram on capture', [self.show_emit(e) for e in emits])
            if ignored:
                self.h('capture-ignored-no-destination')
                if frames:
                    self.violate('C10:ignored-capture-sent-frames', 'nothing', show_frames(frames))
                return
            if kind == 'dns':
                if not rest and self.no_free_id(pre['chans']):
                    self.h('dns-query-dropped-no-free-id')     # this accept event returns before the sweep
                    return
                if len(rest) != 1 or rest[0][1] != C.CMD_DNS_REQ or rest[0][2] != data4k:
                    self.violate('C10:query-not-relayed-verbatim',
                                 'exactly one DNS_REQ frame with payload %s' % hexb(data4k)[:80],
                                 show_frames(frames)[:300])
                    raise Violation()
                chan = rest[0][0]
                cb = self.cmux.channels.get(chan)
                if chan in pre['chans'] and pre['chans'][chan]:
                    self.violate('C10:id-in-use-reassigned', 'a free id', 'id %d was occupied' % chan)
                qid = self.nq
                self.nq += 1
                self.alloc_count[chan] = self.alloc_count.get(chan, 0) + 1
                self.cb_qid[id(cb)] = qid
                self.cb_keep.append(cb)
                self.queries[qid] = dict(qid=qid, asker=src, orig=dst if self.method_name == 'tproxy' else None,
                                         sock=pre['sock'], data=data4k, chan=chan, cb=cb,
                                         deadline=now + 30 * TICKS, state='pending', emitted=0, attempts=[])
                self.c2s.append((rest[0], ('dns', qid)))
                self.h('dns-query')
            else:
                a = self.assocs.get(src)
                if a is None and not rest and self.no_free_id(pre['chans']):
                    self.h('udp-datagram-dropped-no-free-id')
                    return
                want_open = a is None
                ok = True
                if want_open:
                    ok = len(rest) == 2 and rest[0][1] == C.CMD_UDP_OPEN and rest[1][1] == C.CMD_UDP_DATA \
                        and rest[0][0] == rest[1][0] and rest[0][2] == b'%d' % int(pre['sock'].family)
                else:
                    ok = len(rest) == 1 and rest[0][1] == C.CMD_UDP_DATA and rest[0][0] == a['chan']
                if not ok:
                    self.violate('C11:capture-not-one-data-frame' if not want_open else 'C11:fresh-association-not-opened-first',
                                 ('UDP_OPEN then one UDP_DATA on a fresh id' if want_open else
                                  'exactly one UDP_DATA on id %d' % a['chan']), show_frames(frames)[:300])
                    raise Violation()
                chan = rest[-1][0]
                if want_open:
                    if chan in pre['chans'] and pre['chans'][chan]:
                        self.violate('C11:id-in-use-reassigned', 'a free id', 'id %d was occupied' % chan)
                    self.alloc_count[chan] = self.alloc_count.get(chan, 0) + 1
                    a = dict(aid=len(self.all_assocs), src=src, chan=chan, lsock=pre['sock'], deadline=0,
                             ssock=None, state='open', cb=self.cmux.channels.get(chan))
                    self.all_assocs.append(a)
                    self.assocs[src] = a
                    for other in self.assocs.values():
                        if other is not a and other['chan'] == chan:
                            self.violate('C11:two-sources-share-an-id', 'distinct ids for distinct sources',
                                         '%s and %s on id %d' % (show_addr(other['src']), show_addr(src), chan))
                    self.c2s.append((rest[0], ('udp-open', a['aid'])))
                    self.h('udp-association-opened')
                else:
                    self.h('udp-association-reused')
                a['deadline'] = now + 30 * TICKS          # refreshed by its own traffic
                did = dict(aid=a['aid'], dst=dst, data=data4k)
                self.c2s.append((rest[-1], ('udp-data', did)))
                self.h('udp-datagram')
            self.sweep_oracle(now, closes)
        elif op == 'caccept':
            closes = [f for f in frames if f[1] == C.CMD_UDP_CLOSE]
            if len(closes) != len(frames) or emits:
                self.violate('C10:accept-sent-unexpected-frames', 'only UDP_CLOSE frames', show_frames(frames))
            self.sweep_oracle(now, closes)
        elif op in ('cdeliver', 'cinject'):
            self.oracle_client_frame(pre, frames, emits)
        elif frames or emits:
            self.violate('C10:context-step-had-effects', 'nothing', show_frames(frames))

    def no_free_id(self, chans):
        m = self.cmux
        # cursor has already moved; a full probe window without a free id means every probed id was busy
        busy = sum(1 for v in chans.values() if v)
        return busy >= min(self.probes, self.max_ch)

    def sweep_oracle(self, now, closes):
        """After an accept event at `now`: what must be forgotten, what must not."""
        C = self.client
        for q in self.queries.values():
            if q['state'] != 'pending':
                continue
            present = q['chan'] in C.dnsreqs and self.cmux.channels.get(q['chan']) is q['cb']
            if q['deadline'] < now:
                q['state'] = 'expired'
                self.h('dns-query-expired')
                if present or q['chan'] in C.dnsreqs or self.cmux.channels.get(q['chan']) is q['cb']:
                    self.violate('C10:expired-query-not-forgotten',
                                 'query %d (deadline %d < now %d) absent from dnsreqs and mux.channels' % (q['qid'], q['deadline'], now),
                                 'still present')
            elif q['deadline'] > now and not present:
                self.violate('C10:expiry-disturbed-newer-query',
                             'query %d (deadline %d > now %d) still outstanding' % (q['qid'], q['deadline'], now),
                             'gone')
        closed = [f[0] for f in closes]
        for src, a in list(self.assocs.items()):
            present = src in C.udp_by_src and C.udp_by_src[src][0] == a['chan'] and \
                self.cmux.channels.get(a['chan']) is a['cb']
            if a['deadline'] < now:
                self.h('udp-association-expired')
                del self.assocs[src]
                a['state'] = 'closed'
                if src in C.udp_by_src or self.cmux.channels.get(a['chan']) is a['cb'] or closed.count(a['chan']) != 1:
                    self.violate('C11:idle-association-not-closed',
                                 'association of %s (deadline %d < now %d) removed and exactly one UDP_CLOSE on id %d'
                                 % (show_addr(src), a['deadline'], now, a['chan']),
                                 'closes=%r present=%r' % (closed, src in C.udp_by_src))
                else:
                    closed.remove(a['chan'])
                    self.c2s.append(((a['chan'], self.ssnet.CMD_UDP_CLOSE, b''), ('udp-close', a['aid'])))
            elif a['deadline'] > now and not present:
                self.violate('C11:live-association-closed',
                             'association of %s (deadline %d > now %d) kept' % (show_addr(src), a['deadline'], now), 'gone')
        # boundary case deadline == now: either outcome is accepted by the oracle; follow the code
        for src, a in list(self.assocs.items()):
            if a['deadline'] == now and src not in C.udp_by_src:
                del self.assocs[src]
                a['state'] = 'closed'
                if a['chan'] in closed:
                    closed.remove(a['chan'])
                    self.c2s.append(((a['chan'], self.ssnet.CMD_UDP_CLOSE, b''), ('udp-close', a['aid'])))
        for q in self.queries.values():
            if q['state'] == 'pending' and q['deadline'] == now and q['chan'] not in C.dnsreqs:
                q['state'] = 'expired'
        if closed:
            self.violate('C11:unexpected-close', 'UDP_CLOSE only for idle associations', 'extra closes on %r' % closed)

    def oracle_client_frame(self, pre, frames, emits):
        f, meta, cb = pre['frame'], pre['meta'], pre['cb']
        if frames:
            self.violate('C10:reply-caused-frames', 'no frame queued by a tunnel read', show_frames(frames))
        target_q = self.queries.get(self.cb_qid.get(id(cb))) if cb is not None and id(cb) in self.cb_qid else None
        target_a = None
        for a in self.all_assocs:
            if cb is not None and a['cb'] is cb and a['state'] == 'open':
                target_a = a
        if meta is None:
            # injected frame: only the at-most-once / addressing rules apply
            self.h('client-injected-frame')
            if target_q is not None:
                self.check_dns_emit(target_q, f[2], emits, injected=True)
            return
        if meta[0] == 'dns-reply':
            q = self.queries[meta[1]]
            self.h('dns-reply-reached-client')
            if target_q is not None and target_q is not q:
                if emits:
                    self.violate('C10:' + self.reuse(f[0]) + 'reply-delivered-to-another-requester',
                                 'reply to query %d (asker %s) goes to its asker or nowhere' % (q['qid'], show_addr(q['asker'])),
                                 'delivered to the asker of query %d: %s' % (target_q['qid'], [self.show_emit(e) for e in emits]))
                    target_q['state'] = 'answered'
                    target_q['emitted'] += 1
                return
            if target_q is None:
                if target_a is not None and emits:
                    self.violate('C10:' + self.reuse(f[0]) + 'reply-delivered-to-another-requester',
                                 'DNS reply of query %d goes to its asker or nowhere' % q['qid'],
                                 'handed to the UDP association of %s' % show_addr(target_a['src']))
                elif emits:
                    self.violate('C10:reply-delivered-after-release', 'no datagram', [self.show_emit(e) for e in emits])
                elif q['state'] == 'pending':
                    self.violate('C10:reply-not-delivered',
                                 'the reply to query %d (still outstanding: not answered, not past its deadline at any '
                                 'accept) is delivered to %s' % (q['qid'], show_addr(q['asker'])),
                                 'dropped: its id %d has no callback any more' % q['chan'])
                else:
                    self.h('dns-late-reply-dropped')
                return
            self.check_dns_emit(q, meta[2], emits, injected=False)
        elif meta[0] == 'udp-reply':
            a = self.all_assocs[meta[1]]
            host, data = meta[2], meta[3]
            self.h('udp-reply-reached-client')
            if target_a is not a:
                if emits:
                    self.violate('C11:' + self.reuse(f[0]) + 'reply-delivered-to-another-source',
                                 'reply for %s goes to it or nowhere' % show_addr(a['src']),
                                 [self.show_emit(e) for e in emits])
                    if target_q is not None and target_q['state'] == 'pending':
                        target_q['state'] = 'answered'
                        target_q['emitted'] += 1
                        self.violate('C10:' + self.reuse(f[0]) + 'reply-delivered-to-another-requester',
                                     'only the reply to query %d reaches its asker' % target_q['qid'],
                                     'a UDP reply for %s was handed to it' % show_addr(a['src']))
                else:
                    self.h('udp-reply-to-closed-association-dropped')
                return
            good = len(emits) == 1 and emits[0]['to'] == a['src'] and emits[0]['data'] == data and \
                emits[0]['bound'] is not None and show_addr(emits[0]['bound']) == show_addr(host[:2]) and \
                emits[0]['fam'] == a['lsock'].fam
            if not good:
                self.violate('C11:reply-not-delivered-as-one-datagram-from-replying-host',
                             'one datagram %s from %s to %s' % (hexb(data)[:60], show_addr(host[:2]), show_addr(a['src'])),
                             [self.show_emit(e)[:200] for e in emits])

    def full_cycle(self):
        """Ids are handed out round-robin: an id can only come back after the cursor has been round all
        MAX_CHANNEL ids, each of which was then given out or held by a flow.  So a legitimate reuse
        (the known finding F19) needs at least MAX_CHANNEL allocations/occupations in the history."""
        return sum(self.alloc_count.values()) + self.occupied_total >= self.max_ch

    def reuse(self, chan):
        """'id-reuse:' marks the F19 class (reuse after a full cursor cycle); an id that comes back
        earlier than that is NOT that class and gets the plain key."""
        return 'id-reuse:' if (self.alloc_count.get(chan, 0) > 1 and self.full_cycle()) else ''

    def check_dns_emit(self, q, data, emits, injected):
        C = self.client
        if q['state'] != 'pending':
            if emits:
                self.violate('C10:reply-delivered-more-than-once' if q['emitted'] else 'C10:reply-delivered-after-release',
                             'no datagram for query %d (%s)' % (q['qid'], q['state']),
                             [self.show_emit(e) for e in emits])
            return
        good = len(emits) == 1 and emits[0]['to'] == q['asker'] and emits[0]['data'] == data and \
            emits[0]['fam'] == q['sock'].fam and (emits[0]['via'] is None or emits[0]['via'] is q['sock']) and \
            ((q['orig'] is None and emits[0]['bound'] is None) or
             (q['orig'] is not None and emits[0]['bound'] == q['orig']))
        q['emitted'] += len(emits)
        q['state'] = 'answered'
        if not good:
            self.violate('C10:reply-not-returned-verbatim-to-asker',
                         'one datagram %s to %s from %s' % (hexb(data)[:60], show_addr(q['asker']), show_oaddr(q['orig'])),
                         [self.show_emit(e)[:200] for e in emits])
        else:
            self.h('dns-answer-delivered')
        if q['chan'] in C.dnsreqs or self.cmux.channels.get(q['chan']) is q['cb']:
            self.violate('C10:not-released-after-answer', 'id %d free and absent from dnsreqs' % q['chan'], 'still present')

    # ---- server oracle
    def oracle_server(self, info, frames, raised):
        C = self.ssnet
        net_errs = set(C.NET_ERRS)
        allowed = self.allowed_resolvers()
        # 1. sockets created in this round
        for s in self.new_socks:
            own = s.owner
            if isinstance(own, self.RecDnsProxy):
                q = self.queries.get(own.meta[1]) if own.meta else None
                if s.peer is not None and (s.peer[0], s.peer[1]) not in allowed:
                    self.violate('C10:wrong-resolver', 'one of %r' % sorted(allowed), repr(s.peer))
                own.__dict__.setdefault('attempt_log', []).append(s)
        for s, d in self.rsends:
            q = self.queries.get(s.owner_meta[1]) if (s.kind == 'dns' and s.owner_meta) else None
            if q is not None and d != q['data']:
                self.violate('C10:query-changed-on-the-way-to-resolver', hexb(q['data'])[:80], hexb(d)[:80])
            if q is not None:
                self.h('dns-sent-to-resolver')
        # 2. retry discipline per DnsProxy touched in this round
        touched = {s.owner for s in self.new_socks if isinstance(s.owner, self.RecDnsProxy)}
        if info.get('handler') is not None and isinstance(info['handler'], self.RecDnsProxy):
            touched.add(info['handler'])
        for h in touched:
            log = getattr(h, 'attempt_log', [])
            if len(log) > 3:
                self.violate('C10:more-than-three-attempts', '<= 3 sockets per query', '%d' % len(log))
            for i, s in enumerate(log):
                errs = [e for _op, e in s.log if e]
                last = errs[-1] if errs else 0
                nxt = i + 1 < len(log)
                if nxt and last not in net_errs:
                    self.violate('C10:retry-without-network-error',
                                 'a further attempt only after an errno in NET_ERRS', 'attempt %d ended with %r' % (i + 1, s.log))
                if last in net_errs and not nxt and len(log) < 3 and s.log[-1][1] == last:
                    self.h('c10-network-error-not-retried')
                    self.violate('C10:resolver-network-error:not-retried' + (':server-died' if raised else ''),
                                 'a network error (errno %d, in NET_ERRS) on attempt %d of 3 is followed by another attempt and the server keeps running' % (last, i + 1),
                                 'calls on that socket: %r; server %s' % (s.log, ('raised ' + raised) if raised else 'alive'))
                if last and last not in net_errs:
                    self.h('dns-non-network-error-gave-up')
                if last in net_errs:
                    self.h('dns-network-error')
        # 2b. ground truth of each query on the server (independent of the handler's own `ok` flag)
        evs = []
        if info['op'] == 'ssock' and info.get('sock') is not None:
            evs = [(info['sock'], info['event'])]
        elif info['op'] == 'smulti':
            evs = [(e['sock'], e['ev']) for e in info['events'] if e['sock'] is not None]
        got = list(frames)
        for sk, e in evs:
            if sk.kind != 'dns':
                continue
            g = next((x for x in self.srvq.values() if x['inflight'] == sk.sid), None)
            if g is None:
                continue
            if e[0] == 'e':
                g['inflight'] = None                      # the error consumed that socket
                continue
            f = (g['chan'], C.CMD_DNS_RESPONSE, e[2][:4096])
            live = not g['answered'] and not g['expired']
            if f in got:
                got.remove(f)
                if g['expired'] and not g['answered']:
                    self.violate('C10:reply-relayed-after-server-expiry',
                                 'query %s reached the server at %d and was unanswered for more than 30 s when a server round '
                                 'ended: it is forgotten, a later reply is not relayed' % (g['qid'], g['born']),
                                 'relayed at %d: %s' % (self.now, show_frames([f])[:120]))
                g['answered'] = True
            elif live and not raised:
                self.violate('C10:reply-not-relayed:request-was-in-flight',
                             'query %s was sent to the resolver on socket %d (attempt succeeded), is unanswered and not 30 s '
                             'old: the reply arriving on that socket is relayed as %s' % (g['qid'], sk.sid, show_frames([f])[:120]),
                             'nothing relayed; ' + self.server_state()[:200])
        for rec, _d in self.rsends:                       # successful sends of this round: now in flight
            g = self.srvq.get(rec.owner_hid)
            if g is not None:
                g['inflight'] = rec.sid
        if not raised:
            # the sweep at the end of this round forgets what is older than 30 s
            for g in self.srvq.values():
                if not g['expired'] and not g['answered'] and not g['overwritten'] and g['born'] + 30 * TICKS < self.now:
                    g['expired'] = True
                    self.h('dns-query-expired-on-server')
            for h in self.shandlers:
                if isinstance(h, self.RecDnsProxy) and h.ok:
                    g = self.srvq.get(h.hid)
                    if g is not None and g['expired']:
                        self.violate('C10:server-handler-not-retired-after-expiry',
                                     'query %s (on the server since %d, now %d) is forgotten: its handler is retired and '
                                     'dropped from the handler list' % (g['qid'], g['born'], self.now),
                                     'handler %d still listed and ok; dnshandlers=%s' % (h.hid, sorted(self.dnshandlers)))
        # 3. what the event must produce
        ev = info['event']
        if info['op'] == 'ssock' and info.get('handler') is not None:
            h = info['handler']
            if isinstance(h, self.RecDnsProxy):
                q = self.queries.get(h.meta[1]) if h.meta else None
                if ev[0] == 'd':
                    data = ev[2][:4096]
                    good = len(frames) == 1 and frames[0] == (h.chan, C.CMD_DNS_RESPONSE, data)
                    if not good:
                        self.violate('C10:reply-not-relayed-verbatim', '%d.DNS_RESPONSE.%s' % (h.chan, hexb(data)[:60]),
                                     show_frames(frames)[:200])
                    else:
                        self.s2c.append((frames[0], ('dns-reply', q['qid'], data) if q else None))
                        self.h('dns-reply-relayed')
                    if h.ok:
                        self.violate('C10:handler-not-retired-after-first-reply', 'handler retired', 'still ok')
                elif frames:
                    self.violate('C10:frames-on-recv-error', 'none', show_frames(frames))
            elif isinstance(h, self.RecUdpProxy):
                a = self.all_assocs[h.meta[1]] if h.meta else None
                if ev[0] == 'd':
                    host, data = ev[1], ev[2][:4096]
                    want = (h.chan, C.CMD_UDP_DATA)
                    good = len(frames) == 1 and frames[0][:2] == want
                    if not good:
                        self.violate('C11:reply-not-one-frame', 'exactly one UDP_DATA on id %d' % h.chan, show_frames(frames)[:200])
                    else:
                        self.s2c.append((frames[0], ('udp-reply', a['aid'], host, data) if a else None))
                        self.h('udp-reply-relayed')
                else:
                    if raised:
                        # F3 (C08's wording): recvfrom error kills the server.  C11 says nothing about errors.
                        self.h('c08-class:F3:udp-recv-error-server-died:' + raised)
                    else:
                        self.h('udp-recv-error-survived')
                    if frames:
                        self.violate('C11:frames-on-recv-error', 'none', show_frames(frames))
        elif info['op'] == 'ssock':
            self.h('server-late-or-unknown-socket-event')
            sk = info.get('sock')
            if sk is not None and sk.kind == 'udp' and sk.owner_meta and ev[0] == 'd' and not raised:
                a = self.all_assocs[sk.owner_meta[1]]
                if a['state'] == 'open' and a.get('ssock') is sk:
                    self.violate('C11:reply-lost:server-dropped-a-live-association',
                                 'a datagram arriving on the remote socket of the association of %s (not idle, not closed) '
                                 'is relayed as one UDP_DATA frame' % show_addr(a['src']),
                                 'nobody reads socket %d any more: %s' % (sk.sid, self.server_state()[:200]))
            if frames or self.rsends or self.usends:
                self.violate('C10:reply-on-retired-socket-relayed', 'nothing', show_frames(frames))
        elif info['op'] == 'smulti':
            # several sockets in one pass: one DNS_RESPONSE per live handler that got a datagram, nothing else
            want = []
            for evd in info['events']:
                h, e = evd['handler'], evd['ev']
                if h is not None and isinstance(h, self.RecDnsProxy) and e[0] == 'd':
                    q = self.queries.get(h.meta[1]) if h.meta else None
                    want.append(((h.chan, C.CMD_DNS_RESPONSE, e[2][:4096]), q, h))
                elif h is None:
                    self.h('server-late-or-unknown-socket-event')
            self.h('dns-replies-in-one-pass:%d' % len(want))
            for f in frames:
                hit = next((x for x in want if x[0] == f), None)
                if hit is None:
                    self.violate('C10:reply-on-retired-socket-relayed',
                                 'one DNS_RESPONSE per live query that received a reply in this pass: %s'
                                 % show_frames([x[0] for x in want])[:200], show_frames(frames)[:300])
                    continue
                want.remove(hit)
                _f, q, h = hit
                self.s2c.append((f, ('dns-reply', q['qid'], f[2]) if q else None))
                self.h('dns-reply-relayed')
                if h.ok:
                    self.violate('C10:handler-not-retired-after-first-reply', 'handler retired', 'still ok')
            if want and not raised:
                self.violate('C10:reply-not-relayed-verbatim', show_frames([x[0] for x in want])[:200],
                             show_frames(frames)[:200])
        else:
            # tunnel read: each UDP_DATA must be re-emitted once, unchanged, on its association's socket
            sends = list(self.usends)
            for f, meta in info['frames']:
                if meta is None:
                    continue
                if meta[0] == 'udp-open':
                    a = self.all_assocs[meta[1]]
                    hs = [h for h in self.shandlers if isinstance(h, self.RecUdpProxy) and h.meta == meta]
                    if raised:
                        continue
                    if len(hs) != 1:
                        self.violate('C11:server-association-not-opened', 'one UdpProxy for association %d' % a['aid'], '%d' % len(hs))
                    else:
                        a['ssock'] = hs[0].sock.rec            # records only: the engine must not keep
                        a['sh'] = weakref.ref(hs[0])           # server objects alive
                        for b in self.all_assocs:
                            if b is not a and b.get('ssock') is a['ssock']:
                                self.violate('C11:two-sources-share-a-socket', 'distinct sockets', 'socket %d' % a['ssock'].sid)
                elif meta[0] == 'udp-data':
                    did = meta[1]
                    a = self.all_assocs[did['aid']]
                    if raised:
                        continue
                    mine = [u for u in sends if u['data'] == did['data'] and
                            show_addr(u['addr']) == show_addr(did['dst'][:2])]
                    if not mine:
                        self.violate('C11:datagram-not-re-emitted-unchanged',
                                     'one sendto(%s, %s)' % (hexb(did['data'])[:60], show_addr(did['dst'][:2])),
                                     ['%s:%s' % (show_addr(u['addr']), hexb(u['data'])[:60]) for u in self.usends][:6])
                        continue
                    u = mine[0]
                    sends.remove(u)
                    self.h('udp-datagram-re-emitted')
                    if u['failed']:
                        self.h('udp-sendto-error-logged')
                    if a.get('ssock') is not None and u['sock'] is not a['ssock']:
                        self.violate('C11:source-not-on-one-socket',
                                     'socket %d of the association of %s' % (a['ssock'].sid, show_addr(a['src'])),
                                     'socket %d' % u['sock'].sid)
                elif meta[0] == 'udp-close':
                    a = self.all_assocs[meta[1]]
                    if raised:
                        continue
                    h = a['sh']() if a.get('sh') is not None else None
                    if h is not None and (h.ok or self.udphandlers.get(f[0]) is h or self.smux.channels.get(f[0])):
                        self.violate('C11:server-association-not-closed',
                                     'handler retired, id %d free on the server' % f[0], 'still open')
                    elif h is not None:
                        self.h('udp-server-association-closed')
            if sends and not raised and all(m is not None for _f, m in info['frames']):
                self.violate('C11:extra-datagram-emitted', 'one sendto per captured datagram',
                             ['%s:%s' % (show_addr(u['addr']), hexb(u['data'])[:60]) for u in sends][:6])
            if raised:
                dns_fr = [m for f, m in info['frames'] if f[1] == C.CMD_DNS_REQ]
                self.h('server-raised-in-tunnel-read:' + raised)
                if raised == 'fatal' and any(m and m[0] == 'udp-open' for _f, m in info['frames']):
                    self.violate('C11:' + ('id-reuse:' if self.full_cycle() else '') + 'reopen-before-sweep-kills-server',
                                 'a fresh association opens after the old one was closed',
                                 'server Fatal (UDP connection channel already open)')
                elif raised == 'osError.%d' % errno.EMFILE and self.fd_budget is not None:
                    open_dns = sum(1 for r in self.socks.values() if r.kind == 'dns' and not r.released)
                    live_q = sum(1 for h in self.shandlers if isinstance(h, self.RecDnsProxy))
                    self.violate('C10:descriptor-leak:socket-creation-failed-EMFILE',
                                 'the number of open resolver sockets stays bounded by the live queries (x3 attempts); '
                                 'budget %d is never reached in this history' % self.fd_budget,
                                 '%d resolver sockets open for %d live queries; socket() raised EMFILE and the server died'
                                 % (open_dns, live_q))
                elif not raised.startswith('osError'):
                    if all(m is not None for _f, m in info['frames']) and self.server_injected == 0:
                        kinds = {m[0] for _f, m in info['frames']}
                        if kinds & {'udp-open', 'udp-data', 'udp-close'}:
                            self.violate('C11:server-raised:' + raised, 'the server handles the frames the client sent', raised)
                        if 'dns' in kinds:
                            self.violate('C10:server-raised:' + raised, 'the server handles the frames the client sent', raised)


def run_case(cfg_line, steps, shuffle_seed=0):
    w = World(cfg_line, steps, shuffle_seed)
    return w.run()


# ================================================================== scenario generation

V4_SRC = [('10.0.0.5', 4000), ('10.0.0.5', 4001), ('10.0.0.6', 4000), ('192.168.1.77', 53124), ('10.0.0.5', 65535)]
V6_SRC = [('fe80::1', 4000, 0, 3), ('fe80::1', 4001, 0, 3), ('2001:db8::5', 4000, 0, 0), ('fe80::1', 4000, 0, 4)]
V4_DST = [('9.9.9.9', 53), ('5.6.7.8', 99), ('203.0.113.200', 65535), ('5.6.7.8', 1)]
V6_DST = [('2001:db8::2', 53), ('2001:db8::ff', 4433), ('::1', 1)]
NSLISTS = [['1.1.1.1', '8.8.8.8'], ['2001:4860:4860::8888', '9.9.9.9', '10.1.1.1'], ['10.1.1.1'], []]
TONS = ['-', '-', '-', '10.9.8.7@5353', '10.9.8.7@0', 'fd00::53@53']
NET_ERRNOS = [111, 110, 113, 101, 112, 100, 103, 104]
OTHER_ERRNOS = [1, 13, 22, 90, 105]


def rand_payload(rng):
    r = rng.random()
    if r < 0.08:
        return b''
    if r < 0.16:
        return bytes([rng.getrandbits(8)])
    if r < 0.22:
        return bytes(rng.getrandbits(8) for _ in range(512))
    if r < 0.26:
        return bytes(rng.getrandbits(8) for _ in range(4096))
    if r < 0.30:
        return bytes(rng.getrandbits(8) for _ in range(4097))     # cut at the receive size
    if r < 0.40:
        return b',' * rng.choice([1, 2, 3, 7])
    if r < 0.50:
        return rng.choice([b'1.2.3.4,53,', b'::1,53,', b',53,', b'9,9,']) + bytes(rng.getrandbits(8) for _ in range(rng.randrange(0, 6)))
    if r < 0.55:
        return bytes(rng.randrange(0, 4))
    return bytes(rng.getrandbits(8) for _ in range(rng.randrange(1, 40)))


class ScenarioGen:
    """Online generator: chooses the next step from what the scenario has produced so far."""

    def __init__(self, rng, focus, length, small_ids=False, faults=True, recv_faults=None):
        self.rng = rng
        self.focus = focus
        self.left = length
        self.small = small_ids
        self.faults = faults
        self.last_frames = []

    def script(self, n):
        rng = self.rng
        if not self.faults or rng.random() < 0.55:
            return ''
        out = []
        for _ in range(n):
            r = rng.random()
            out.append(0 if r < 0.6 else rng.choice(NET_ERRNOS) if r < 0.9 else rng.choice(OTHER_ERRNOS))
        if self.focus == 'udp':
            # outcomes of the server's sendto() calls (and of the few resolver calls of interleaved DNS
            # queries): errnos inside and outside NET_ERRS
            out = [0 if rng.random() < 0.55 else rng.choice(NET_ERRNOS + OTHER_ERRNOS + OTHER_ERRNOS) for _ in range(n)]
        return ' res=' + ','.join(str(x) for x in out)

    def capture(self, w, kind):
        rng = self.rng
        v6 = rng.random() < 0.3
        src = rng.choice(V6_SRC if v6 else V4_SRC)
        if w.method_name == 'tproxy':
            dst = rng.choice(V6_DST if v6 else V4_DST) if rng.random() < 0.95 else None
        else:
            dst = rng.choice([None, None, ('9.9.9.9', 53)])
        return '%s %d %s %s %s' % ('cdns' if kind == 'dns' else 'cudp', 10 if v6 else 2, show_addr(src),
                                   show_oaddr(dst), hexb(rand_payload(rng)))

    def sock_of_query(self, w, qid):
        recs = [r for r in w.socks.values() if r.kind == 'dns' and r.owner_meta == ('dns', qid)]
        return recs[-1].sid if recs else None

    def plan_reply_after_server_expiry(self, w):
        """A query stays unanswered for more than 30 s of server time, the server loop goes round at least
        once more, then the resolver's reply arrives on the query's socket."""
        rng = self.rng
        T = 30 * TICKS
        st = {}

        def cap(w):
            st['q'] = w.nq
            return 'cdns 2 10.0.0.7|%d 9.9.9.9|53 %s' % (4200 + rng.randrange(3), hexb(rand_payload(rng)[:32]))

        def deliver(w):
            return 'sround %d' % max(1, min(len(w.c2s), 6)) if (w.c2s and not w.server_dead) else 'sround 0'

        def reply(w):
            k = self.sock_of_query(w, st.get('q', -1))
            return 'caccept' if (k is None or w.server_dead) else 'ssock %d d 1.1.1.1|53 %s' % (k, hexb(rand_payload(rng)[:32]))
        plan = [cap, deliver, lambda w: 'tick %d' % (T + rng.choice([1, 2, 700, T]))]
        plan += [lambda w: ('sround 0' if not w.server_dead else 'caccept')] * rng.choice([1, 2])
        plan += [reply, lambda w: 'cdeliver']
        if rng.random() < 0.5:
            plan += [reply, lambda w: 'cdeliver']
        return plan

    def plan_attempt_fails_then_succeeds(self, w):
        """An attempt fails with a network error at connect or at send, a later one of the three succeeds;
        the reply to it must be relayed."""
        rng = self.rng
        st = {}

        def cap(w):
            st['q'] = w.nq
            return 'cdns 2 10.0.0.8|%d 9.9.9.9|53 %s' % (4300 + rng.randrange(3), hexb(rand_payload(rng)[:32]))

        def deliver(w):
            if w.server_dead:
                return 'caccept'
            n = max(1, min(len(w.c2s), 6))
            res = []
            for _ in range(n):          # every DNS_REQ of the batch: one or two failing attempts, then success
                for _k in range(rng.choice([1, 1, 2])):
                    e = rng.choice([101, 113, 111, 110, 104])
                    res += [e] if rng.random() < 0.5 else [0, e]
                res += [0, 0]
            return 'sround %d res=%s' % (n, ','.join(str(x) for x in res))

        def reply(w):
            k = self.sock_of_query(w, st.get('q', -1))
            return 'caccept' if (k is None or w.server_dead) else 'ssock %d d 1.1.1.1|53 %s' % (k, hexb(rand_payload(rng)[:32]))
        return [cap, deliver, lambda w: 'tick %d' % rng.choice([0, 64, 5 * TICKS]),
                lambda w: ('sround 0' if not w.server_dead else 'caccept'), reply, lambda w: 'cdeliver']

    def plan_late_reply_family(self, w):
        """Query A is not answered in time and forgotten at an accept; query B comes from another source;
        then A's late reply arrives, then B's own."""
        rng = self.rng
        T = 30 * TICKS
        st = {}

        def cap_a(w):
            st['qa'] = w.nq
            return 'cdns 2 10.0.0.5|%d 9.9.9.9|53 %s' % (4000 + rng.randrange(3), hexb(rand_payload(rng)[:32]))

        def cap_b(w):
            st['qb'] = w.nq
            return 'cdns 2 10.0.0.6|%d 9.9.9.9|53 %s' % (4100 + rng.randrange(3), hexb(rand_payload(rng)[:32]))

        def deliver_all(w):
            return 'sround %d' % max(1, min(len(w.c2s), 6)) if (w.c2s and not w.server_dead) else 'tick 1'

        def reply(which):
            def f(w):
                k = self.sock_of_query(w, st.get(which, -1))
                if k is None or w.server_dead:
                    return 'caccept'
                return 'ssock %d d 1.1.1.1|53 %s' % (k, hexb(rand_payload(rng)[:32]))
            return f
        early = rng.random() < 0.5
        plan = [cap_a]
        if early:
            plan += [deliver_all, lambda w: 'tick %d' % (T + 1 + rng.choice([0, 1, 700]))]
        else:
            d = rng.choice([1024, 5 * TICKS, 20 * TICKS])
            plan += [lambda w: 'tick %d' % d, deliver_all, lambda w: 'tick %d' % (T - d + 1)]
        if rng.random() < 0.6:
            plan.append(lambda w: 'caccept')
        plan += [cap_b, deliver_all, reply('qa'), reply('qb')]
        if rng.random() < 0.5:
            plan[-2], plan[-1] = plan[-1], plan[-2]
        plan += [lambda w: 'cdeliver', lambda w: 'cdeliver']
        return plan

    def __call__(self, w):
        if self.left <= 0 and not getattr(self, 'plan', None):
            return None
        self.left -= 1
        rng = self.rng
        if getattr(self, 'plan', None):
            return self.plan.pop(0)(w)
        if self.focus == 'dns' and not w.server_dead and rng.random() < 0.04:
            self.plan = rng.choice([self.plan_late_reply_family, self.plan_reply_after_server_expiry,
                                    self.plan_attempt_fails_then_succeeds])(w)
            return self.plan.pop(0)(w)
        udp_ok = w.method_name == 'tproxy'
        opts = []
        dnsw, udpw = (5, 2) if self.focus == 'dns' else (1, 6)
        if not udp_ok:
            udpw = 0.1
        opts += [('cdns', dnsw), ('cudp', udpw), ('tick', 3), ('caccept', 1.5)]
        if w.c2s and not w.server_dead:
            opts.append(('sround', 7))
        if w.s2c:
            opts.append(('cdeliver', 7))
        if w.socks and not w.server_dead:
            opts.append(('ssock', 6))
            live_dns = [s for s in w.socks.values() if s.kind == 'dns' and not s.released and
                        any(h.ok and any(getattr(x, 'rec', None) is s for x in h.socks) for h in w.shandlers)]
            if len(live_dns) >= 2 and self.focus == 'dns':
                opts.append(('smulti', 4))
        opts.append(('cinject', 0.5))
        if not w.server_dead:
            opts.append(('sinject', 0.15))
        opts.append(('occupy', 1.5 if self.small else 0.2))
        opts.append(('release', 1.0 if self.small else 0.2))
        total = sum(x for _n, x in opts)
        r = rng.random() * total
        for name, x in opts:
            r -= x
            if r <= 0:
                break
        C = w.ssnet
        if name == 'cdns':
            return self.capture(w, 'dns')
        if name == 'cudp':
            return self.capture(w, 'udp')
        if name == 'tick':
            return 'tick %d' % rng.choice([0, 1, 1024, 29 * 1024 + 1023, 30 * 1024, 30 * 1024 + 1, 60 * 1024,
                                           rng.randrange(0, 5000), 15 * 1024])
        if name == 'caccept':
            return 'caccept'
        if name == 'sround':
            n = rng.choice([1, 1, 1, 2, 3, len(w.c2s)])
            n = max(1, min(n, len(w.c2s), 6))
            return 'sround %d%s' % (n, self.script(3 * n + 1))
        if name == 'cdeliver':
            return 'cdeliver'
        if name == 'ssock':
            live = [s for s in w.socks.values()
                    if any(h.ok and any(getattr(x, 'rec', None) is s for x in h.socks) for h in w.shandlers)]
            pool = live if (live and rng.random() < 0.85) else list(w.socks.values())
            s = rng.choice(pool)
            recent = [w.socks[k] for k in getattr(self, 'recent_socks', []) if k in w.socks]
            if recent and rng.random() < 0.6:
                s = recent.pop()                  # a duplicate / late datagram on a just-answered socket
                self.recent_socks = [r.sid for r in recent]
            is_udp = s.kind == 'udp'
            err_ok = self.faults and ((is_udp and self.focus == 'udp') or (not is_udp and self.focus == 'dns'))
            if err_ok and rng.random() < (0.12 if is_udp else 0.3):
                e = rng.choice(NET_ERRNOS) if rng.random() < 0.8 else rng.choice(OTHER_ERRNOS)
                return 'ssock %d e %d%s' % (s.sid, e, self.script(4))
            if is_udp:
                host = rng.choice(V6_DST if s.family == socket.AF_INET6 else V4_DST)
                if s.family == socket.AF_INET6:
                    host = host + (0, rng.choice([0, 2]))
            else:
                host = s.peer or ('1.1.1.1', 53)
            return 'ssock %d d %s %s' % (s.sid, show_addr(host), hexb(rand_payload(rng)))
        if name == 'smulti':
            live_dns = [s for s in w.socks.values() if s.kind == 'dns' and not s.released and
                        any(h.ok and any(getattr(x, 'rec', None) is s for x in h.socks) for h in w.shandlers)]
            picked = rng.sample(live_dns, rng.randrange(2, min(len(live_dns), 4) + 1))
            evs = []
            for s in sorted(picked, key=lambda r: r.sid):
                if self.faults and rng.random() < 0.15:
                    evs.append('%d.e.%d' % (s.sid, rng.choice(NET_ERRNOS + OTHER_ERRNOS)))
                else:
                    evs.append('%d.d.%s' % (s.sid, hexb(rand_payload(rng)[:64])))
            self.recent_socks = [s.sid for s in picked]
            return 'smulti %s%s' % (';'.join(evs), self.script(4))
        if name == 'cinject':
            chans = [k for k, v in w.cmux.channels.items() if v] or [1]
            chan = rng.choice(chans + [rng.randrange(1, 8)])
            cmd = rng.choice([C.CMD_DNS_RESPONSE, C.CMD_DNS_RESPONSE, C.CMD_UDP_DATA, C.CMD_TCP_DATA, C.CMD_TCP_EOF])
            data = rng.choice([b'1.2.3.4,53,', b'', b'5.5.5.5,7,']) + rand_payload(rng)[:20]
            return 'cinject %d.%d.%s' % (chan, cmd, hexb(data))
        if name == 'sinject':
            chan = rng.randrange(1, 6)
            cmd = rng.choice([C.CMD_UDP_OPEN, C.CMD_UDP_DATA, C.CMD_UDP_CLOSE, C.CMD_DNS_REQ, C.CMD_TCP_DATA])
            data = rng.choice([b'2', b'10', b'1.2.3.4,5,xy', b'nocomma', b'1.2.3.4,x,y', b''])
            return 'sinject %d.%d.%s' % (chan, cmd, hexb(data))
        if name == 'occupy':
            return 'occupy %d' % rng.randrange(1, (w.max_ch if self.small else 12) + 1)
        if name == 'release':
            return 'release %d' % rng.randrange(1, (w.max_ch if self.small else 12) + 1)
        return 'caccept'


def resolv_conf_spec(text):
    """The system name servers named by a resolv.conf, per resolv.conf(5) / the libc parser: a line
    that begins with the keyword `nameserver` followed by blanks names the address that follows;
    anything after the address is ignored; `#`/`;` lines and other keywords name nothing."""
    out = []
    for line in text.decode('latin-1').replace('\r\n', '\n').replace('\r', '\n').split('\n'):
        if line.startswith('nameserver') and line[10:11] in (' ', '\t'):
            rest = line[10:].split()
            if rest:
                out.append(rest[0])
    return out


NS_FILLER = ['search corp.example', 'options edns0 ndots:2', '# nameserver 192.0.2.1', '#nameserver 192.0.2.2',
             '; nameserver 192.0.2.3', 'nameserver', 'nameserverx 192.0.2.4', 'domain example.org', '',
             'sortlist 130.155.160.0/255.255.240.0', '# Generated by NetworkManager']


def render_resolv_conf(rng, nslist, fancy=True):
    """resolv.conf text for the given servers: separators, trailing tokens/comments, CRLF, filler lines."""
    lines = []
    for ip in nslist:
        if fancy and rng.random() < 0.5:
            lines.append(rng.choice(NS_FILLER))
        sep = rng.choice([' ', ' ', '\t', '   ', ' \t ', '\t\t']) if fancy else ' '
        tail = rng.choice(['', '', ' # site resolver', '\t# added by dhclient', ' ;x', '   ', '\t', ' extra tokens here',
                           ' #']) if fancy else ''
        lines.append('nameserver' + sep + ip + tail)
    if fancy and rng.random() < 0.6:
        lines.insert(rng.randrange(0, len(lines) + 1), rng.choice(NS_FILLER))
    if fancy and rng.random() < 0.4:
        lines.append(rng.choice(NS_FILLER))
    eol = '\r\n' if (fancy and rng.random() < 0.15) else '\n'
    text = eol.join(lines) + (eol if (lines and rng.random() < 0.85) else '')
    return text.encode('ascii')


def rand_cfg(rng, focus, small=False):
    method = 'tproxy' if (focus == 'udp' or rng.random() < 0.6) else 'base'
    mx = rng.choice([2, 3, 4, 6]) if small else 65535
    ns = rng.choice(NSLISTS)
    if focus == 'dns':
        rc = render_resolv_conf(rng, ns, fancy=rng.random() < 0.75)
        return 'cfg method=%s max=%d probes=1024 rc=%s tons=%s' % (method, mx, hexb(rc), rng.choice(TONS))
    return 'cfg method=%s max=%d probes=1024 ns=%s tons=%s' % (method, mx, join_or(',', ns), rng.choice(TONS))


# hand-written scenarios: boundaries of the 30 s horizon, retries, the known defects
def corpus(focus):
    T = 30 * TICKS
    cases = []
    if focus == 'dns':
        q = 'cdns 2 10.0.0.5|4000 9.9.9.9|53 %s'
        cases.append(('dns-answer', 'cfg method=tproxy max=65535 probes=1024 ns=1.1.1.1,8.8.8.8 tons=-',
                      [q % 'abcd', 'sround 1', 'ssock 0 d 1.1.1.1|53 beef', 'ssock 0 d 1.1.1.1|53 beef', 'cdeliver',
                       'cinject 1.%d.beef' % 16907, 'cdeliver']))
        cases.append(('dns-base-method', 'cfg method=base max=65535 probes=1024 ns=- tons=10.9.8.7@0',
                      ['cdns 10 fe80::1|4000|0|3 - 00', 'sround 1', 'ssock 0 d 10.9.8.7|53 0102', 'cdeliver']))
        # the remote resolv.conf in the spellings the libc resolver accepts (resolv.conf(5))
        for name, text in [
                ('plain', 'search corp.example\nnameserver 10.11.12.13\noptions edns0\n'),
                ('tab', '# generated\nnameserver\t10.11.12.13\n'),
                ('spaces', 'nameserver    10.11.12.13   \n'),
                ('trailing-comment', '# Generated by provisioning\nnameserver 10.11.12.13   # site resolver\n'),
                ('trailing-tokens', 'nameserver 10.11.12.13 extra tokens\nnameserver 2001:db8::53\t; second\n'),
                ('crlf', 'nameserver 10.11.12.13 #x\r\nnameserver 10.11.12.14\r\n'),
                ('no-final-newline', 'nameserver\t \t10.11.12.13 # c'),
                ('not-servers', '#nameserver 192.0.2.1\n# nameserver 192.0.2.2\nnameserver\nnameserverx 192.0.2.3\n'
                                '; nameserver 192.0.2.4\n')]:
            cases.append(('resolv-conf-' + name,
                          'cfg method=tproxy max=65535 probes=1024 rc=%s tons=-' % hexb(text.encode('ascii')),
                          [q % '01', q % '02', 'sround 2', 'ssock 0 d 10.11.12.13|53 aa', 'cdeliver']))
        # 0- and 1-byte datagrams in both directions (legal UDP), eight variants in a row
        tiny = [('-', '-'), ('07', '5a'), ('-', '5a'), ('07', '-'), ('2c', '2c'), ('-', '00'), ('00', '-'), ('ff', 'ff')]
        for i, (qq, rr) in enumerate(tiny):
            v6 = i % 2 == 1
            cap = ('cdns 10 fe80::1|4000|0|3 2001:db8::2|53 %s' if v6 else 'cdns 2 10.0.0.5|4000 9.9.9.9|53 %s')
            cases.append(('dns-tiny-datagrams-%d' % i, 'cfg method=tproxy max=65535 probes=1024 ns=1.1.1.1 tons=-',
                          [cap % qq, cap % rr, 'sround 2', 'ssock 0 d 1.1.1.1|53 %s' % rr, 'ssock 1 d 1.1.1.1|53 %s' % qq,
                           'cdeliver', 'cdeliver', 'tick %d' % (T + 1), 'caccept']))
        # a query nobody answered in time is forgotten; the next query comes from another source; then the
        # old query's late reply arrives, then the new one's own reply (cursor position / occupancy varied)
        qb = 'cdns 2 10.0.0.6|4000 9.9.9.9|53 %s'
        for i, (pre_steps, late_server) in enumerate([([], True), ([], False), (['occupy 1'], True), (['occupy 2', 'occupy 3'], True),
                                                      ([q % 'e0', 'sround 1', 'ssock 0 d 1.1.1.1|53 e1', 'cdeliver'], True),
                                                      (['occupy 1', 'release 1'], False),
                                                      ([q % 'e0', q % 'e1', 'sround 2', 'smulti 0.d.f0;1.d.f1', 'cdeliver', 'cdeliver'], True),
                                                      (['cudp 2 10.0.0.9|4009 5.6.7.8|99 00'], True)]):
            n0 = sum(1 for x in pre_steps if x.startswith('cdns'))       # sockets already created on the server
            st = list(pre_steps) + [q % 'a0']
            st += (['tick %d' % (5 * TICKS), 'sround 9', 'tick %d' % (T - 5 * TICKS + 1)] if late_server
                   else ['sround 9', 'tick %d' % (T + 1)])
            st += [['caccept'], [], ['caccept', 'caccept']][i % 3]        # any accept forgets A (B's own capture does too)
            st += [qb % 'b0', 'sround 9', 'ssock %d d 1.1.1.1|53 a1' % n0, 'ssock %d d 1.1.1.1|53 b1' % (n0 + 1),
                   'cdeliver', 'cdeliver', 'cdeliver']
            cases.append(('dns-late-reply-after-expiry-%d' % i, 'cfg method=tproxy max=65535 probes=1024 ns=1.1.1.1 tons=-', st))
        # the resolver answers after the server forgot the query: more than 30 s of server time, one more
        # server round (the sweep), then the reply on the same socket (several delays / kinds of round)
        for i, (delay, extra) in enumerate([(T + 1, ['sround 0']), (T + 700, ['sround 0', 'sround 0']), (2 * T, [qb % 'b0', 'sround 1']),
                                            (T + 1, [qb % 'b0', 'sround 1', 'ssock 1 d 1.1.1.1|53 b1']), (T, ['sround 0', 'tick 1', 'sround 0']),
                                            (T - 1, ['sround 0'])]):
            cases.append(('dns-reply-after-server-expiry-%d' % i, 'cfg method=tproxy max=65535 probes=1024 ns=1.1.1.1 tons=-',
                          [q % 'a0', 'sround 1', 'tick %d' % delay] + extra +
                          ['ssock 0 d 1.1.1.1|53 a1', 'cdeliver', 'cdeliver', 'sround 0', 'ssock 0 d 1.1.1.1|53 a2', 'cdeliver']))
        # attempt k fails with a network error at connect or send, a later attempt succeeds, then the reply
        # must be relayed and delivered (which attempt, where, which errno)
        n = 0
        for errno_ in (101, 113, 111):
            for pat, last in (([errno_, 0, 0], 1), ([0, errno_, 0, 0], 1), ([errno_, errno_, 0, 0], 2),
                              ([0, errno_, errno_, 0, 0], 2), ([errno_, 0, errno_, 0, 0], 2)):
                cases.append(('dns-attempt-fails-then-succeeds-%d' % n, 'cfg method=tproxy max=65535 probes=1024 ns=1.1.1.1,8.8.8.8 tons=-',
                              [q % 'a0', 'sround 1 res=%s' % ','.join(str(x) for x in pat), 'tick 64', 'sround 0',
                               'ssock %d d 1.1.1.1|53 a1' % last, 'cdeliver', qb % 'b0', 'sround 1']))
                n += 1
            # ... or the first attempt's socket reports the error through recv, and the retry needs two tries
            cases.append(('dns-attempt-fails-then-succeeds-%d' % n, 'cfg method=tproxy max=65535 probes=1024 ns=1.1.1.1 tons=-',
                          [q % 'a0', 'sround 1', 'ssock 0 e %d res=%d,0,0' % (errno_, errno_), 'sround 0',
                           'ssock 2 d 1.1.1.1|53 a1', 'cdeliver']))
            n += 1
        # several queries answered in the same runonce pass, then duplicates / late datagrams on their sockets
        for nq in (2, 3):
            st = [q % ('%02x' % i) for i in range(nq)] + ['sround %d' % nq,
                  'smulti ' + ';'.join('%d.d.a%d' % (i, i) for i in range(nq))]
            st += ['ssock %d d 1.1.1.1|53 d%d' % (i, i) for i in reversed(range(nq))]
            st += ['cdeliver'] * (nq + 1)
            st += ['ssock %d d 1.1.1.1|53 e%d' % (i, i) for i in range(nq)] + ['cdeliver', q % 'ff', 'sround 1']
            cases.append(('dns-%d-answers-one-pass' % nq, 'cfg method=tproxy max=65535 probes=1024 ns=1.1.1.1 tons=-', st))
        cases.append(('dns-one-pass-mixed', 'cfg method=tproxy max=65535 probes=1024 ns=1.1.1.1,8.8.8.8 tons=-',
                      [q % '01', q % '02', q % '03', 'sround 3', 'smulti 0.e.111;1.d.b1;2.e.13 res=0,0',
                       'smulti 3.d.c3;1.d.b2', 'ssock 3 d 1.1.1.1|53 c4', 'ssock 2 d 1.1.1.1|53 c5', 'cdeliver', 'cdeliver',
                       'cdeliver']))
        # a long sequential history: every query answered (or expired) before the next; 16 descriptors
        long_steps = []
        for i in range(40):
            long_steps += [q % ('%02x' % i), 'sround 1']
            if i % 5 == 4:
                long_steps += ['tick %d' % (T + 1), 'caccept']          # this one is never answered
            else:
                long_steps += ['ssock %d d 1.1.1.1|53 %02xff' % (i, i), 'cdeliver', 'tick 64']
        long_steps += ['sround 0']
        cases.append(('dns-long-history', 'cfg method=tproxy max=65535 probes=1024 ns=1.1.1.1 tons=- fds=16', long_steps))
        for d in (T - 1, T, T + 1):
            cases.append(('dns-expiry-%d' % d, 'cfg method=tproxy max=65535 probes=1024 ns=1.1.1.1 tons=-',
                          [q % '01', 'tick 5', q % '02', 'tick %d' % (d - 5), 'caccept', 'tick 5', 'caccept',
                           'sround 2', 'ssock 0 d 1.1.1.1|53 aa', 'ssock 1 d 1.1.1.1|53 bb', 'cdeliver', 'cdeliver']))
        cases.append(('dns-send-retries', 'cfg method=tproxy max=65535 probes=1024 ns=1.1.1.1,8.8.8.8 tons=-',
                      [q % '01', 'sround 1 res=0,111,0,101,0,0', 'ssock 2 e 104', 'ssock 2 d 1.1.1.1|53 aa',
                       q % '02', 'sround 1 res=0,111,0,111,0,111', q % '03', 'sround 1 res=0,1',
                       q % '04', 'sround 1', 'ssock 7 e 111 res=0,0', 'ssock 8 e 13', 'cdeliver']))
        cases.append(('dns-connect-error', 'cfg method=tproxy max=65535 probes=1024 ns=2001:4860:4860::8888,9.9.9.9 tons=-',
                      [q % '01', q % '02', 'sround 1 res=101,0,0', 'sround 1', 'ssock 1 d 9.9.9.9|53 aa', 'cdeliver']))
        cases.append(('dns-server-expiry', 'cfg method=tproxy max=65535 probes=1024 ns=1.1.1.1 tons=-',
                      [q % '01', 'sround 1', 'tick %d' % (T + 1), q % '02', 'sround 1', 'ssock 0 d 1.1.1.1|53 aa',
                       'ssock 1 d 1.1.1.1|53 bb', 'cdeliver', 'cdeliver']))
        cases.append(('dns-no-free-id', 'cfg method=tproxy max=2 probes=1024 ns=1.1.1.1 tons=-',
                      ['occupy 1', 'occupy 2', q % '01', 'release 2', q % '02', 'sround 1']))
    else:
        u = 'cudp 2 10.0.0.5|4001 5.6.7.8|99 %s'
        cases.append(('udp-echo', 'cfg method=tproxy max=65535 probes=1024 ns=- tons=-',
                      [u % '2c2c', u % '312e322e332e342c35332c', 'cudp 2 10.0.0.6|4000 5.6.7.8|99 00', 'sround 5',
                       'ssock 0 d 5.6.7.8|99 2c61', 'ssock 0 d 203.0.113.200|65535 62', 'ssock 1 d 5.6.7.8|99 63',
                       'cdeliver', 'cdeliver', 'cdeliver']))
        for d in (T - 1, T, T + 1, 2 * T):
            cases.append(('udp-expiry-%d' % d, 'cfg method=tproxy max=65535 probes=1024 ns=- tons=-',
                          [u % '01', 'tick 7', 'cudp 10 fe80::1|4000|0|3 2001:db8::2|53 02', 'tick %d' % (d - 7),
                           'caccept', 'tick 7', u % '03', 'sround 8', 'ssock 0 d 5.6.7.8|99 aa', 'cdeliver',
                           'tick %d' % (T + 1), 'cdns 2 10.0.0.5|4000 9.9.9.9|53 00', 'sround 9']))
        cases.append(('udp-refresh', 'cfg method=tproxy max=65535 probes=1024 ns=- tons=-',
                      [u % '01', 'tick %d' % (T + 5), u % '02', 'tick %d' % T, 'caccept', 'tick 1', 'caccept', 'sround 9']))
        for i, (qq, rr) in enumerate([('-', '-'), ('07', '5a'), ('-', '5a'), ('07', '-'), ('2c', '2c'), ('-', '00'),
                                      ('00', '-'), ('ff', 'ff')]):
            cases.append(('udp-tiny-datagrams-%d' % i, 'cfg method=tproxy max=65535 probes=1024 ns=- tons=-',
                          [u % qq, 'cudp 10 fe80::1|4000|0|3 2001:db8::2|53 %s' % rr, 'sround 4',
                           'ssock 0 d 5.6.7.8|99 %s' % rr, 'ssock 1 d 2001:db8::2|53|0|0 %s' % qq, 'cdeliver', 'cdeliver',
                           'tick %d' % (T + 1), 'caccept', 'sround 2']))
        cases.append(('udp-recv-error', 'cfg method=tproxy max=65535 probes=1024 ns=- tons=-',
                      [u % '01', 'sround 2', 'ssock 0 e 111', u % '02', 'sround 1', 'ssock 0 d 5.6.7.8|99 aa', 'cdeliver']))
        cases.append(('udp-sendto-error', 'cfg method=tproxy max=65535 probes=1024 ns=- tons=-',
                      [u % '01', u % '02', 'sround 3 res=101,0']))
        # sendto() errors of every kind (inside NET_ERRS: 101, 111; outside: EPERM 1, EINVAL 22, EMSGSIZE 90,
        # ENOBUFS 105, EACCES 13) for one destination, then more traffic on the same association:
        # on the next loop pass and in the same batch; a reply afterwards must still come through
        for e in (1, 22, 90, 105, 13, 101, 111):
            cases.append(('udp-sendto-errno-%d-next-pass' % e, 'cfg method=tproxy max=65535 probes=1024 ns=- tons=-',
                          [u % '01', 'sround 2 res=%d' % e, 'tick 512', u % '02', 'sround 1', u % '03', 'sround 1 res=%d' % e,
                           'cudp 2 10.0.0.5|4001 203.0.113.200|65535 04', 'sround 1', 'ssock 0 d 5.6.7.8|99 aa', 'cdeliver',
                           'ssock 0 d 203.0.113.200|65535 bb', 'cdeliver']))
            cases.append(('udp-sendto-errno-%d-same-batch' % e, 'cfg method=tproxy max=65535 probes=1024 ns=- tons=-',
                          [u % '01', u % '02', 'cudp 2 10.0.0.6|4000 5.6.7.8|99 0a', u % '03', 'sround 6 res=%d,0,%d,0' % (e, e),
                           'ssock 0 d 5.6.7.8|99 aa', 'ssock 1 d 5.6.7.8|99 ab', 'cdeliver', 'cdeliver', u % '04', 'sround 1']))
    return cases


def scale_cases(focus, thorough):
    """Histories with many concurrently outstanding queries / associations (client side; the tables'
    expiry is what is at stake): all idle past the deadline, or a busy prefix kept alive by traffic while
    the rest go idle; then accept events and late replies."""
    T = 30 * TICKS
    cases = []
    cfg = 'cfg method=tproxy max=65535 probes=1024 ns=1.1.1.1 tons=-'

    def src(i):
        return '10.%d.%d.%d|%d' % (1 + i // 65536, (i // 256) % 256, i % 256, 2000 + i % 50000)
    sizes = [1, 5, 64, 65, 128, 129, 300] + ([1000] if thorough else [])
    for n in sizes:
        if focus == 'dns':
            st = ['cdns 2 %s 9.9.9.9|53 %04x' % (src(i), i) for i in range(n)]
            st += ['tick %d' % T, 'caccept', 'tick 1', 'caccept']
            # late replies for the first, the 65th/129th and the last query: nobody may get them any more
            for k in sorted({1, min(n, 65), min(n, 129), n}):
                st.append('cinject %d.16907.beef' % k)
            st += ['cdns 2 %s 9.9.9.9|53 ffff' % src(n), 'caccept']
            cases.append(('scale-dns-%d-outstanding' % n, cfg, st))
        else:
            st = ['cudp 2 %s 5.6.7.8|99 %04x' % (src(i), i) for i in range(n)]
            st += ['tick %d' % T, 'caccept', 'tick 1', 'caccept', 'cudp 2 %s 5.6.7.8|99 ffff' % src(0), 'caccept']
            cases.append(('scale-udp-%d-idle' % n, cfg, st))
            if n >= 65:
                busy = 64
                st = ['cudp 2 %s 5.6.7.8|99 %04x' % (src(i), i) for i in range(n)]
                st += ['tick %d' % (20 * TICKS)]
                st += ['cudp 2 %s 5.6.7.8|99 aa' % src(i) for i in range(busy)]      # the prefix stays busy
                st += ['tick %d' % (10 * TICKS + 1), 'caccept',                        # the rest is idle now
                       'cudp 2 %s 5.6.7.8|99 bb' % src(busy), 'caccept',
                       'cdns 2 %s 9.9.9.9|53 00' % src(0), 'tick %d' % (25 * TICKS), 'caccept']
                cases.append(('scale-udp-%d-busy-prefix' % n, cfg, st))
    return cases


IDREUSE = {
    'dns': ('cfg method=tproxy max=2 probes=1024 ns=1.1.1.1 tons=-',
            ['cdns 2 10.0.0.5|4000 9.9.9.9|53 aa', 'tick 5120', 'sround 1', 'tick %d' % (30 * TICKS - 5119),
             'cdns 2 10.0.0.6|4000 9.9.9.9|53 bb', 'cdns 2 192.168.1.77|53124 9.9.9.9|53 cc',
             'ssock 0 d 1.1.1.1|53 a1', 'cdeliver']),
    'udp': ('cfg method=tproxy max=2 probes=1024 ns=- tons=-',
            ['cudp 2 10.0.0.5|4001 5.6.7.8|99 01', 'sround 2', 'tick %d' % (30 * TICKS + 1),
             'cudp 2 10.0.0.6|4000 5.6.7.8|99 02', 'cudp 2 192.168.1.77|53124 5.6.7.8|99 03', 'sround 5']),
}


# ================================================================== running a property

class CaseLog:
    def __init__(self, kind, cfg, world):
        self.kind = kind
        self.cfg = cfg
        self.steps = list(world.steps)
        self.ins = world.ins
        self.outs = world.outs
        self.violations = world.violations
        self.hist = world.hist
        self.seed = world.shuffle_seed


_FLAGS = {}


def code_shape_flags():
    """The two code-shape flags of the model, read from the tree under test with the same
    functions that write Gen/C10.lean and Gen/C11.lean."""
    if common.REPO not in _FLAGS:
        import extract_params
        from params import c10, c11
        extract_params.REPO = common.REPO
        _FLAGS[common.REPO] = ' connect_in_try=%d recv_safe=%d' % (
            1 if c10.connect_in_try(extract_params) else 0, 1 if c11.recv_err_safe(extract_params) else 0)
    return _FLAGS[common.REPO]


def with_flags(cfg):
    cfg = ' '.join(w for w in cfg.split() if not w.startswith(('connect_in_try=', 'recv_safe=')))
    return cfg + code_shape_flags()


def execute(kind, cfg, steps, seed):
    cfg = with_flags(cfg)
    w = World(cfg, steps, seed).run()
    return CaseLog(kind, cfg, w)


def minimise(prop, cfg, steps, seed, key, budget=120):
    """Greedy removal of steps while the same violation key still fires on the real code."""
    cur = list(steps)
    if len(cur) > 150:
        return cur          # a history at scale is its own witness
    i = len(cur) - 1
    while i >= 0 and budget > 0:
        trial = cur[:i] + cur[i + 1:]
        budget -= 1
        try:
            lg = execute('min', cfg, trial, seed)
            if any(v['key'] == key for v in lg.violations):
                cur = trial
        except Exception:   # noqa
            pass
        i -= 1
    return cur


def run_property(ctx, prop, focus):
    rng = ctx.rng
    logs = []
    validate_recvmsg_fake(ctx)
    nth = 0
    for name, cfg, steps in corpus(focus):
        logs.append(execute('corpus:' + name, at_level(cfg, nth, ctx.seed), steps, 0))
        nth += 1
    for name, cfg, steps in scale_cases(focus, ctx.thorough):
        logs.append(execute(name, at_level(cfg, nth, ctx.seed), steps, 0))
        nth += 1
    cfg, steps = IDREUSE[focus]
    logs.append(execute('id-reuse', at_level(cfg, nth, ctx.seed), steps, 0))
    n = ctx.scale(260, 2400)
    for i in range(n):
        small = (i % 10 == 9)
        cfg = at_level(rand_cfg(rng, focus, small), nth + 1 + i, ctx.seed)
        gen = ScenarioGen(rng, focus, rng.randrange(8, 60 if not ctx.thorough else 120), small_ids=small,
                          faults=(i % 3 != 0))
        logs.append(execute('random-small-ids' if small else 'random', cfg, gen, rng.randrange(1 << 30)))
    seen = set()
    for lg in logs:
        ctx.count()
        ctx.hist('case:' + lg.kind.split(':')[0])
        ctx.hist('verbosity:' + (kv(lg.cfg.split(), 'v', '0')))
        ctx.hist('listener-family:' + (kv(lg.cfg.split(), 'fam', 'enum')))
        for k, v in lg.hist.items():
            ctx.hist(k, v)
        ctx.mark((lg.cfg, lg.steps), nontrivial=len(lg.hist) > 1)
        for v in lg.violations:
            if not v['key'].startswith(prop + ':'):
                ctx.hist('other-property:' + v['key'])
                continue
            if v['key'] in seen:
                ctx.hist('repeat:' + v['key'])
                continue
            seen.add(v['key'])
            steps = minimise(prop, lg.cfg, lg.steps[:v['step'] + 1] if v['step'] is not None else lg.steps,
                             lg.seed, v['key'])
            again = execute('min', lg.cfg, steps, lg.seed)
            vv = next((x for x in again.violations if x['key'] == v['key']), v)
            ctx.violation(v['key'], case=dict(cfg=lg.cfg, steps=steps, shuffle_seed=lg.seed, from_case=lg.kind),
                          expected=vv['expected'], observed=dict(observed=vv['observed'], at_step=vv['line'],
                                                                 real_code_trace=again.outs[-6:]),
                          note='scenario executed on the real client/server code with fake sockets', kind='ops')
    shown = set()
    for lg in logs:
        k = lg.kind.split(':')[0]
        if k not in shown:
            shown.add(k)
            ctx.sample(dict(kind=lg.kind, cfg=lg.cfg, input=[l[:100] for l in lg.ins[1:7]],
                            real_code_output=[l[:160] for l in lg.outs[1:7]]))
    compare(ctx, prop, logs)
    return logs


def compare(ctx, prop, logs):
    if not ctx.model_available:
        ctx.notes.append('model driver unavailable: correspondence skipped, oracle only')
        return
    ins = []
    for lg in logs:
        ins.extend(lg.ins)
    outs = common.LeanBatch(prop).run(ins)
    if len(outs) != len(ins):
        ctx.corr_break(prop, case=None, impl='%d lines' % len(ins), model='%d lines' % len(outs),
                       note='driver output length differs')
        return
    pos = 0
    for lg in logs:
        n = len(lg.ins)
        mo = outs[pos:pos + n]
        pos += n
        if mo != lg.outs:
            i = next(k for k in range(n) if mo[k] != lg.outs[k])
            ctx.corr_break(lg.kind, case=dict(cfg=lg.cfg, steps=lg.ins[1:i + 1]), impl=lg.outs[i], model=mo[i])
            if len(ctx.corr_breaks) > 10:
                return


def replay_case(prop, rep):
    case = rep['case']
    lg = execute('replay', case['cfg'], case['steps'], case.get('shuffle_seed', 0))
    hits = [v for v in lg.violations if v['key'] == rep.get('key')] or \
        [v for v in lg.violations if v['key'].startswith(prop + ':')]
    if hits:
        v = hits[0]
        return True, '%s at step %d (%s): expected %s; observed %s; last real-code lines: %s' % (
            v['key'], v['step'], v['line'][:60], v['expected'], v['observed'], lg.outs[-3:])
    return False, 'the scenario runs on the real code without violating %s (%d steps)' % (prop, len(case['steps']))
