"""Parameters of the UDP relay model (C11), read from the working tree with `ast`."""
import ast
from params.c10 import guards_no_id, call_order, clock_reads


def recv_err_safe(h):
    """True when the `except` branch of UdpProxy.callback does not mention `peer`
    (which is unbound there when recvfrom raised)."""
    f = h.func(h.parse('sshuttle/server.py'), 'UdpProxy.callback')
    for n in ast.walk(f):
        if isinstance(n, ast.ExceptHandler):
            names = {m.id for m in ast.walk(n) if isinstance(m, ast.Name)}
            return 'peer' not in names
    raise KeyError('except handler')


def hdr_formats(h, rel, qual):
    f = h.func(h.parse(rel), qual)
    out = []
    for s in h.strs_in(f):
        t = s.decode('latin-1') if isinstance(s, bytes) else s
        if t.count(',') == 2 and t.startswith('%s,'):
            out.append(t)
    return out


def split_args(h, rel, qual):
    f = h.func(h.parse(rel), qual)
    out = []
    for c in h.calls(f, lambda c: h.callname(c) == 'split'):
        out.append(','.join(repr(ast.literal_eval(a)) if isinstance(a, ast.Constant) else ast.unparse(a)
                            for a in c.args))
    return out


def generate(g, h):
    g.strlist('CLOCK_READS', lambda: clock_reads(h))
    g.boolean('ONUDP_GUARDS_NO_ID', lambda: guards_no_id(h, 'onaccept_udp'))
    g.boolean('UDP_RECV_ERR_SAFE', lambda: recv_err_safe(h))
    g.strlist('CLIENT_HDR_FMT', lambda: hdr_formats(h, 'sshuttle/client.py', 'onaccept_udp'))
    g.strlist('SERVER_HDR_FMT', lambda: hdr_formats(h, 'sshuttle/server.py', 'UdpProxy.callback'))
    g.strlist('CLIENT_SPLIT', lambda: split_args(h, 'sshuttle/client.py', 'udp_done'))
    g.strlist('SERVER_SPLIT', lambda: split_args(h, 'sshuttle/server.py', 'main.udp_req'))
    g.strlist('ONUDP_CALLS', lambda: call_order(h, 'sshuttle/client.py', 'onaccept_udp',
                                                {'recv_udp', 'next_channel', 'send', 'expire_connections'}))
    g.strlist('UDP_REQ_CALLS', lambda: call_order(h, 'sshuttle/server.py', 'main.udp_req', {'split', 'send'}))
    g.strlist('UDP_CALLBACK_CALLS', lambda: call_order(h, 'sshuttle/server.py', 'UdpProxy.callback',
                                                       {'recvfrom', 'send'}))
    g.nat('UDP_OPEN_FAMILY_V4', lambda: __import__('socket').AF_INET)
