"""Generated parameters for C05 (-> lean/SshuttleModel/Gen/C05.lean, namespace Sshuttle.Gen.C05).

Everything the destination-recovery model depends on is re-read from the working tree with
`ast`: struct format strings, slice bounds, socket option numbers, message formats and the
*order* of the values formatted into them, split separators/limits, the self-guard expression.
`Lemmas/DstPins.lean` pins the ones the model was written for (a changed value breaks a proof
obligation); the numeric ones are used by `Code/Dst.lean` directly.
"""
import ast
import errno
import socket


def _sorted_calls(h, node, name):
    cs = h.calls(node, lambda c: h.callname(c) == name)
    return sorted(cs, key=lambda c: (c.lineno, c.col_offset))


def _src(n):
    return ast.unparse(n)


def _one(xs, what):
    xs = list(xs)
    if len(xs) != 1:
        raise ValueError('%s: expected exactly one, got %r' % (what, xs))
    return xs[0]


def _binop_mod(node):
    """All `fmt % args` nodes with a constant str/bytes left operand, in source order."""
    out = []
    for n in ast.walk(node):
        if isinstance(n, ast.BinOp) and isinstance(n.op, ast.Mod) and isinstance(n.left, ast.Constant) \
                and isinstance(n.left.value, (str, bytes)):
            out.append(n)
    return sorted(out, key=lambda n: (n.lineno, n.col_offset))


def _fmt_args(n):
    r = n.right
    if isinstance(r, ast.Tuple):
        return [_src(e) for e in r.elts]
    return [_src(r)]


def _assign_int(node, name):
    for n in ast.walk(node):
        if isinstance(n, ast.Assign) and len(n.targets) == 1 and isinstance(n.targets[0], ast.Name) \
                and n.targets[0].id == name:
            return int(ast.literal_eval(n.value))
    raise KeyError(name)


def _slice_bounds(sub):
    """(lower, upper) source text of a Subscript with a Slice."""
    assert isinstance(sub, ast.Subscript) and isinstance(sub.slice, ast.Slice), ast.dump(sub)
    lo = _src(sub.slice.lower) if sub.slice.lower is not None else ''
    hi = _src(sub.slice.upper) if sub.slice.upper is not None else ''
    return lo, hi


def generate(g, h):
    mi = h.parse('sshuttle/methods/__init__.py')
    tp = h.parse('sshuttle/methods/tproxy.py')
    pf = h.parse('sshuttle/methods/pf.py')
    ipfw = h.parse('sshuttle/methods/ipfw.py')
    client = h.parse('sshuttle/client.py')
    server = h.parse('sshuttle/server.py')
    helpers = h.parse('sshuttle/helpers.py')

    g.raw('-- host facts (the machine the check runs on)')
    g.nat('AF_INET', lambda: int(socket.AF_INET))
    g.nat('AF_INET6', lambda: int(socket.AF_INET6))
    g.nat('SOL_IP', lambda: int(socket.SOL_IP))
    g.nat('IPPROTO_TCP', lambda: int(socket.IPPROTO_TCP))
    g.nat('ENOPROTOOPT', lambda: errno.ENOPROTOOPT)
    g.nat('EINVAL', lambda: errno.EINVAL)
    g.nat('EADDRNOTAVAIL', lambda: errno.EADDRNOTAVAIL)
    import sys as _sys
    g.boolean('HOST_LITTLE_ENDIAN', lambda: _sys.byteorder == 'little')

    g.raw('')
    g.raw('-- sshuttle/methods/__init__.py original_dst')
    od = h.func(mi, 'original_dst')
    unp = _sorted_calls(h, od, 'unpack_from')
    gso = _sorted_calls(h, od, 'getsockopt')
    g.string('ODST_FMT_V4', lambda: ast.literal_eval(unp[0].args[0]))
    g.string('ODST_FMT_V6', lambda: ast.literal_eval(unp[1].args[0]))
    g.string('ODST_V4_BUF', lambda: _src(unp[0].args[1]))          # sockaddr_in[:8]
    g.string('ODST_V6_BUF', lambda: _src(unp[1].args[1]))          # sockaddr_in
    g.nat('SO_ORIGINAL_DST', lambda: _assign_int(od, 'SO_ORIGINAL_DST'))
    g.nat('SOCKADDR_MIN', lambda: _assign_int(od, 'SOCKADDR_MIN'))
    g.strlist('ODST_GETSOCKOPT_V4', lambda: [_src(a) for a in gso[0].args])
    g.strlist('ODST_GETSOCKOPT_V6', lambda: [_src(a) for a in gso[1].args])
    g.strlist('ODST_IP_CTORS', lambda: [_src(c) for c in sorted(
        h.calls(od, lambda c: h.callname(c) == 'str'), key=lambda c: c.lineno)])
    g.string('ODST_RETURN', lambda: _one(
        [_src(n.value) for n in ast.walk(od) if isinstance(n, ast.Return) and isinstance(n.value, ast.Tuple)],
        'return (ip, port)'))
    g.string('ODST_ERRNO_TEST', lambda: _one(
        [_src(n.test) for n in ast.walk(od) if isinstance(n, ast.If) and 'errno' in _src(n.test)], 'errno test'))

    g.raw('')
    g.raw('-- sshuttle/methods/tproxy.py recv_udp')
    ru = h.func(tp, 'recv_udp')
    for name in ['IP_ORIGDSTADDR', 'SOL_IPV6', 'IPV6_ORIGDSTADDR']:
        g.nat('TPROXY_' + name, lambda name=name: h.int_of(h.const_assign(tp, name)))
    def anc_data():
        c = _one(_sorted_calls(h, ru, 'recvmsg'), 'recvmsg')
        sp = c.args[1]
        assert isinstance(sp, ast.Call) and h.callname(sp) == 'CMSG_SPACE', _src(sp)
        return int(ast.literal_eval(sp.args[0]))
    g.nat('TPROXY_ANC_DATA', anc_data)
    g.strlist('TPROXY_RECVMSG_ARGS', lambda: [_src(a) for a in _one(_sorted_calls(h, ru, 'recvmsg'), 'recvmsg').args])
    g.strlist('TPROXY_CMSG_FMTS', lambda: [ast.literal_eval(c.args[0]) for c in _sorted_calls(h, ru, 'unpack')])
    g.strlist('TPROXY_CMSG_HDR_SLICES', lambda: [_src(c.args[1]) for c in _sorted_calls(h, ru, 'unpack')])
    g.strlist('TPROXY_PORT_CONV', lambda: [_src(c) for c in _sorted_calls(h, ru, 'htons')])

    def starts_lengths():
        out = []
        for n in ast.walk(ru):
            if isinstance(n, ast.Assign) and isinstance(n.targets[0], ast.Name) and \
                    n.targets[0].id in ('start', 'length'):
                out.append((n.lineno, n.targets[0].id, int(ast.literal_eval(n.value))))
        out.sort()
        return out
    g.nat('TPROXY_V4_START', lambda: [v for (_l, k, v) in starts_lengths() if k == 'start'][0])
    g.nat('TPROXY_V4_LENGTH', lambda: [v for (_l, k, v) in starts_lengths() if k == 'length'][0])
    g.nat('TPROXY_V6_START', lambda: [v for (_l, k, v) in starts_lengths() if k == 'start'][1])
    g.nat('TPROXY_V6_LENGTH', lambda: [v for (_l, k, v) in starts_lengths() if k == 'length'][1])
    g.strlist('TPROXY_NTOP_CALLS', lambda: [_src(c) for c in _sorted_calls(h, ru, 'inet_ntop')])
    g.strlist('TPROXY_CMSG_TESTS', lambda: [_src(n.test) for n in sorted(
        [n for n in ast.walk(ru) if isinstance(n, ast.If) and 'cmsg_level' in _src(n.test)],
        key=lambda n: n.lineno)])
    g.strlist('TPROXY_FAMILY_TESTS', lambda: [_src(n.test) for n in sorted(
        [n for n in ast.walk(ru) if isinstance(n, ast.If) and _src(n.test).startswith('family')],
        key=lambda n: n.lineno)])
    g.string('TPROXY_TCP_DST', lambda: _one(
        [_src(n.value) for n in ast.walk(h.func(tp, 'Method.get_tcp_dstip')) if isinstance(n, ast.Return)], 'ret'))

    g.raw('')
    g.raw('-- sshuttle/methods/ipfw.py recv_udp')
    iru = h.func(ipfw, 'recv_udp')
    g.strlist('IPFW_RECVMSG_ARGS', lambda: [_src(a) for a in _one(_sorted_calls(h, iru, 'recvmsg'), 'recvmsg').args])
    g.nat('IPFW_IP_RECVDSTADDR', lambda: h.int_of(h.const_assign(ipfw, 'IP_RECVDSTADDR')))
    g.nat('IPFW_PORT', lambda: _assign_int(iru, 'port'))
    g.strlist('IPFW_NTOP_CALLS', lambda: [_src(c) for c in _sorted_calls(h, iru, 'inet_ntop')])
    g.string('IPFW_TCP_DST', lambda: _one(
        [_src(n.value) for n in ast.walk(h.func(ipfw, 'Method.get_tcp_dstip')) if isinstance(n, ast.Return)], 'ret'))

    g.raw('')
    g.raw('-- sshuttle/client.py onaccept_tcp / onaccept_udp')
    oa = h.func(client, 'onaccept_tcp')
    m = _one([n for n in _binop_mod(oa) if isinstance(n.left.value, bytes)], 'CONNECT format')
    g.string('CONNECT_FMT', lambda: m.left.value)
    g.strlist('CONNECT_ARGS', lambda: _fmt_args(m))
    g.string('SELF_GUARD', lambda: _one(
        [_src(n.test) for n in ast.walk(oa) if isinstance(n, ast.If) and 'islocal' in _src(n.test)], 'guard'))
    g.string('TCP_DST_SOURCE', lambda: _one(
        [_src(n.value) for n in ast.walk(oa) if isinstance(n, ast.Assign) and
         isinstance(n.targets[0], ast.Name) and n.targets[0].id == 'dstip'], 'dstip ='))
    ou = h.func(client, 'onaccept_udp')
    mu = _one([n for n in _binop_mod(ou) if isinstance(n.left.value, bytes) and b',' in n.left.value], 'UDP hdr')
    g.string('UDP_HDR_FMT', lambda: mu.left.value)
    g.nat('UDP_TIMEOUT', lambda: _one([i for i in h.ints_in(ou) if i > 2 and i != 4096], 'now + 30'))
    g.strlist('UDP_TABLE_STORES', lambda: [_src(n) for n in sorted(
        [n for n in ast.walk(ou) if isinstance(n, ast.Assign) and 'udp_by_src' in _src(n.targets[0])],
        key=lambda n: n.lineno)])
    g.strlist('UDP_TABLE_LOADS', lambda: [_src(n) for n in sorted(
        [n for n in ast.walk(ou) if isinstance(n, ast.Assign) and 'udp_by_src[' in _src(n.value)],
        key=lambda n: n.lineno)])
    g.strlist('UDP_OPEN_ARGS', lambda: [_src(c.args[2]) for c in _sorted_calls(h, ou, 'send')
                                        if len(c.args) == 3 and 'CMD_UDP_OPEN' in _src(c.args[1])])
    g.strlist('UDP_EXPIRE_TEST', lambda: [_src(n.test) for n in ast.walk(h.func(client, 'expire_connections'))
                                          if isinstance(n, ast.If)])
    g.strlist('UDP_HDR_ARGS', lambda: _fmt_args(mu))
    g.strlist('UDP_SEND_DATA', lambda: [_src(c.args[2]) for c in _sorted_calls(h, ou, 'send')
                                        if len(c.args) == 3 and 'CMD_UDP_DATA' in _src(c.args[1])])
    g.string('ISLOCAL_ERRNO_TEST', lambda: _one(
        [_src(n.test) for n in ast.walk(h.func(helpers, 'islocal')) if isinstance(n, ast.If)], 'islocal if'))

    g.raw('')
    g.raw('-- sshuttle/server.py new_channel / udp_req')
    nc = h.func(server, 'main.new_channel')
    g.strlist('SERVER_CONNECT_SPLIT', lambda: [_src(c) for c in _sorted_calls(h, nc, 'split')])
    g.strlist('SERVER_CONNECT_TARGETS', lambda: _one(
        [[_src(e) for e in n.targets[0].elts] for n in ast.walk(nc)
         if isinstance(n, ast.Assign) and isinstance(n.targets[0], ast.Tuple)], 'tuple assign'))
    g.string('SERVER_FAMILY_TEST', lambda: _one(
        [_src(n.test) for n in ast.walk(nc) if isinstance(n, ast.If)], 'family if'))
    g.strlist('SERVER_CONNECT_CALL', lambda: [_src(a) for a in _one(_sorted_calls(h, nc, 'connect_dst'), 'connect_dst').args])
    ur = h.func(server, 'main.udp_req')
    g.strlist('SERVER_UDP_SPLIT', lambda: [_src(c) for c in _sorted_calls(h, ur, 'split')])
    g.strlist('SERVER_UDP_TARGETS', lambda: _one(
        [[_src(e) for e in n.targets[0].elts] for n in ast.walk(ur)
         if isinstance(n, ast.Assign) and isinstance(n.targets[0], ast.Tuple)], 'tuple assign'))
    g.strlist('SERVER_UDP_SEND', lambda: [_src(a) for a in _one(
        [c for c in _sorted_calls(h, ur, 'send')], 'h.send').args])

    g.raw('')
    g.raw('-- sshuttle/methods/pf.py QUERY_PF_NAT dialogue')
    gd = h.func(pf, 'Method.get_tcp_dstip')
    mq = _one([n for n in _binop_mod(gd) if isinstance(n.left.value, bytes)], 'pf request format')
    g.string('PF_REQ_FMT', lambda: mq.left.value)
    argv = _one([n.value for n in ast.walk(gd) if isinstance(n, ast.Assign) and
                 isinstance(n.targets[0], ast.Name) and n.targets[0].id == 'argv'], 'argv')
    g.strlist('PF_REQ_ARGS', lambda: [_src(e) for e in argv.elts])
    g.string('PF_RESP_PREFIX', lambda: _one(
        [ast.literal_eval(c.args[0]) for c in _sorted_calls(h, gd, 'startswith')], 'startswith'))
    sp = _one(_sorted_calls(h, gd, 'split'), 'split')
    g.string('PF_RESP_SPLIT', lambda: _src(sp))
    g.nat('PF_RESP_SKIP', lambda: int(_slice_bounds(sp.func.value)[0]))
    g.string('PF_RESP_RETURN', lambda: [_src(n.value) for n in ast.walk(gd)
                                        if isinstance(n, ast.Return) and isinstance(n.value, ast.Tuple)][0])
    fc = h.func(pf, 'Method.firewall_command')
    g.string('PF_CMD_PREFIX', lambda: _one(
        [ast.literal_eval(c.args[0]) for c in _sorted_calls(h, fc, 'startswith')], 'startswith'))
    spc = _one(_sorted_calls(h, fc, 'split'), 'split')
    g.string('PF_CMD_SPLIT', lambda: _src(spc))
    g.nat('PF_CMD_SKIP', lambda: int(_slice_bounds(spc.func.value)[0]))
    mods = [n for n in _binop_mod(fc)]
    g.strlist('PF_CMD_REPLIES', lambda: [n.left.value for n in mods])
    # exactly one reply line per command: where the writes sit (try body / except handler), and no loop
    def fc_writes():
        out = []

        def walk(node, ctxs):
            for field, val in ast.iter_fields(node):
                kids = val if isinstance(val, list) else [val]
                for k in kids:
                    if not isinstance(k, ast.AST):
                        continue
                    c = ctxs
                    if isinstance(node, ast.Try):
                        c = ctxs + [{'body': 'try', 'handlers': 'except', 'orelse': 'else', 'finalbody': 'finally'}[field]]
                    elif isinstance(node, (ast.For, ast.While)):
                        c = ctxs + ['loop']
                    if isinstance(k, ast.Call) and h.callname(k) == 'write':
                        out.append('/'.join(c) + ':' + _src(k))
                    walk(k, c)
        walk(fc, [])
        return out
    g.strlist('PF_CMD_WRITES', fc_writes)
    g.nat('PF_CMD_LOOPS', lambda: len([n for n in ast.walk(fc) if isinstance(n, (ast.For, ast.While))]))
    g.strlist('PF_QUERY_NAT_PARAMS', lambda: [a.arg for a in h.func(pf, 'Generic.query_nat').args.args])
    g.nat('PF_OUT', lambda: h.int_of(_one(
        [n.value for n in h.func(pf, 'Generic').body if isinstance(n, ast.Assign) and
         n.targets[0].id == 'PF_OUT'], 'PF_OUT')))

    def layout(cls):
        """ctypes field list of <cls>.pfioc_natlook as (name, size) with pf_addr = 16 bytes."""
        sizes = {'pf_addr': 16, 'c_uint16': 2, 'c_uint8': 1, 'c_uint32': 4, 'pf_state_xport': 4}
        node = h.func(pf, cls + '.pfioc_natlook')
        for n in node.body:
            if isinstance(n, ast.Assign) and n.targets[0].id == '_fields_':
                return [(ast.literal_eval(e.elts[0]), sizes[_src(e.elts[1])]) for e in n.value.elts]
        raise KeyError(cls)

    def offset(cls, field):
        off = 0
        for name, size in layout(cls):
            if name == field:
                return off
            off += size
        if field == '$size':
            return off
        raise KeyError(field)
    for cls, tag in [('FreeBsd', 'FREEBSD'), ('OpenBsd', 'OPENBSD'), ('Darwin', 'DARWIN')]:
        g.natlist('PF_LAYOUT_' + tag, lambda cls=cls: [offset(cls, f) for f in
                                                      ['saddr', 'daddr', 'rdaddr', 'sxport', 'dxport', 'rdxport',
                                                       'af', 'proto', 'direction', '$size']])

    g.raw('')
    g.raw('-- sshuttle/firewall.py: the helper reads command lines with readline(n)')
    fw = h.parse('sshuttle/firewall.py')
    fwmain = h.func(fw, 'main')
    g.strlist('FW_MAIN_STDOUT_WRITES', lambda: [_src(c.args[0]) for c in _sorted_calls(h, fwmain, 'write')
                                                if isinstance(c.func, ast.Attribute) and _src(c.func.value) == 'stdout'])
    g.strlist('FW_MAIN_LOOP_TESTS', lambda: [_src(n.test) for n in sorted(
        [n for n in ast.walk(fwmain) if isinstance(n, ast.If) and 'line' in _src(n.test) and
         ('HOST' in _src(n.test) or _src(n.test) == 'line')], key=lambda n: (n.lineno, n.col_offset))])
    g.nat('FW_READLINE_MAX', lambda: _one(
        [h.int_of(c.args[0]) for c in h.calls(h.func(fw, 'main'), lambda c: h.callname(c) == 'readline' and c.args)],
        'readline(n)'))
