"""Generated parameters for C04 (-> lean/SshuttleModel/Gen/C04.lean).

Read from the working tree with `ast`: the order of the external commands issued by
setup_firewall / restore_firewall of nat, tproxy and nft ("skeletons"), where `nonfatal(...)`
wraps a command, the guard structure of firewall.main's finally block, pf's initial context.
The code model *uses* the nonfatal flags and the nft chain specs; the skeletons are pinned by
`example`s in Lemmas/FwSessionPins.lean, so a re-ordered or removed command breaks a proof
obligation instead of going unnoticed.
"""
import ast


def _const_args(call, skip=0):
    out = []
    for a in call.args[skip:]:
        if isinstance(a, ast.Constant) and isinstance(a.value, str):
            out.append(a.value)
        elif isinstance(a, ast.Starred):
            out.append('*')
        elif isinstance(a, ast.Name):
            out.append('$' + a.id)
        else:
            out.append('?')
    return out


def _skeleton(h, fn):
    """Source-order list of the command-issuing calls in a function body."""
    out = []

    def name_of(c):
        f = c.func
        if isinstance(f, ast.Name):
            return f.id
        if isinstance(f, ast.Attribute):
            return f.attr
        return None

    class V(ast.NodeVisitor):
        def visit_FunctionDef(self, node):
            if node is fn:
                self.generic_visit(node)
            # nested helper defs (_ipt, _ipm, _nft) are not descended into

        def visit_Call(self, c):
            n = name_of(c)
            if n == 'nonfatal':
                inner = c.args[0].id if isinstance(c.args[0], ast.Name) else '?'
                out.append('nf:' + ':'.join([inner] + _trim(_const_args(c, 1))))
                return
            if n in ('_ipt', '_ipm', '_nft', 'ipt', 'nft', 'pfctl'):
                out.append(':'.join([n] + _trim(_const_args(c))))
                return
            if n == 'restore_firewall':
                out.append('restore')
                return
            if n == 'ipt_chain_exists':
                out.append('exists:' + ':'.join(_const_args(c)[2:]))
                return
            self.generic_visit(c)

    def _trim(args):
        # keep the option letter and a literal chain operand; drop the payload
        keep = []
        for a in args:
            if a == '*':
                keep.append('*')
                break
            keep.append(a)
            if len(keep) >= 2:
                break
        return keep

    V().visit(fn)
    return out


def _flag(skel, prefix_fatal, prefix_nf):
    """All commands of one kind are either all nonfatal or all fatal."""
    nf = [s for s in skel if s.startswith(prefix_nf)]
    fa = [s for s in skel if s.startswith(prefix_fatal)]
    if nf and not fa:
        return True
    if fa and not nf:
        return False
    raise ValueError('mixed/absent: %r %r in %r' % (prefix_fatal, prefix_nf, skel))


def generate(g, h):
    nat = h.parse('sshuttle/methods/nat.py')
    tproxy = h.parse('sshuttle/methods/tproxy.py')
    nft = h.parse('sshuttle/methods/nft.py')
    pf = h.parse('sshuttle/methods/pf.py')
    fw = h.parse('sshuttle/firewall.py')
    linux = h.parse('sshuttle/linux.py')

    nat_r = lambda: _skeleton(h, h.func(nat, 'Method.restore_firewall'))   # noqa: E731
    nat_s = lambda: _skeleton(h, h.func(nat, 'Method.setup_firewall'))     # noqa: E731
    tp_r = lambda: _skeleton(h, h.func(tproxy, 'Method.restore_firewall'))  # noqa: E731
    tp_s = lambda: _skeleton(h, h.func(tproxy, 'Method.setup_firewall'))    # noqa: E731
    nft_r = lambda: _skeleton(h, h.func(nft, 'Method.restore_firewall'))    # noqa: E731
    nft_s = lambda: _skeleton(h, h.func(nft, 'Method.setup_firewall'))      # noqa: E731

    def strip_nf(skel):
        return [s[3:] if s.startswith('nf:') else s for s in skel]

    g.raw('-- sshuttle/methods/nat.py')
    g.strlist('NAT_RESTORE_SEQ', lambda: strip_nf(nat_r()))
    g.strlist('NAT_SETUP_SEQ', lambda: strip_nf(nat_s()))
    g.boolean('NAT_RESTORE_NONFATAL_MARK', lambda: _flag(nat_r(), '_ipm', 'nf:_ipm'))
    g.boolean('NAT_RESTORE_NONFATAL_D_OUTPUT', lambda: _flag(nat_r(), '_ipt:-D:OUTPUT', 'nf:_ipt:-D:OUTPUT'))
    g.boolean('NAT_RESTORE_NONFATAL_D_PREROUTING',
              lambda: _flag(nat_r(), '_ipt:-D:PREROUTING', 'nf:_ipt:-D:PREROUTING'))
    g.boolean('NAT_RESTORE_NONFATAL_F', lambda: _flag(nat_r(), '_ipt:-F', 'nf:_ipt:-F'))
    g.boolean('NAT_RESTORE_NONFATAL_X', lambda: _flag(nat_r(), '_ipt:-X', 'nf:_ipt:-X'))
    g.boolean('NAT_SETUP_NONFATAL_MARK', lambda: _flag(nat_s(), '_ipm', 'nf:_ipm'))
    g.boolean('NAT_SETUP_ANY_NONFATAL_IPT', lambda: any(s.startswith('nf:_ipt') for s in nat_s()))

    g.raw('-- sshuttle/methods/tproxy.py')
    g.strlist('TPROXY_RESTORE_SEQ', lambda: strip_nf(tp_r()))
    g.strlist('TPROXY_SETUP_HEAD', lambda: strip_nf(tp_s())[:9])
    g.boolean('TPROXY_RESTORE_NONFATAL_D', lambda: _flag(tp_r(), '_ipt:-D', 'nf:_ipt:-D'))
    g.boolean('TPROXY_RESTORE_NONFATAL_F', lambda: _flag(tp_r(), '_ipt:-F', 'nf:_ipt:-F'))
    g.boolean('TPROXY_RESTORE_NONFATAL_X', lambda: _flag(tp_r(), '_ipt:-X', 'nf:_ipt:-X'))
    g.boolean('TPROXY_SETUP_ANY_NONFATAL', lambda: any(s.startswith('nf:') for s in tp_s()))

    g.raw('-- sshuttle/methods/nft.py')
    g.strlist('NFT_RESTORE_SEQ', lambda: strip_nf(nft_r()))
    g.strlist('NFT_SETUP_HEAD', lambda: strip_nf(nft_s())[:7])
    g.boolean('NFT_RESTORE_NONFATAL', lambda: _flag(nft_r(), '_nft:delete table', 'nf:_nft:delete table'))
    g.boolean('NFT_SETUP_ANY_NONFATAL', lambda: any(s.startswith('nf:') for s in nft_s()))

    def nft_spec(which):
        f = h.func(nft, 'Method.setup_firewall')
        for c in h.calls(f, lambda c: h.callname(c) == '_nft'):
            a = [x.value for x in c.args if isinstance(x, ast.Constant)]
            if len(a) >= 3 and a[0] == 'add chain' and a[1] == which:
                return a[2]
        raise KeyError(which)
    g.string('NFT_PREROUTING_SPEC', lambda: nft_spec('prerouting'))
    g.string('NFT_OUTPUT_SPEC', lambda: nft_spec('output'))

    g.raw('-- sshuttle/linux.py: nonfatal catches Fatal only; ipt/nft raise Fatal on a non-zero status')

    def nonfatal_catches():
        f = h.func(linux, 'nonfatal')
        tr = [n for n in ast.walk(f) if isinstance(n, ast.Try)]
        assert len(tr) == 1 and len(tr[0].handlers) == 1
        t = tr[0].handlers[0].type
        return t.id
    g.string('NONFATAL_CATCHES', nonfatal_catches)

    def raises_fatal_on_rv(fname):
        f = h.func(linux, fname)
        for n in ast.walk(f):
            if isinstance(n, ast.If) and isinstance(n.test, ast.Name) and n.test.id == 'rv':
                r = n.body[0]
                return isinstance(r, ast.Raise) and h.callname(r.exc) == 'Fatal'
        return False
    g.boolean('IPT_RAISES_FATAL', lambda: raises_fatal_on_rv('ipt'))
    g.boolean('NFT_RAISES_FATAL', lambda: raises_fatal_on_rv('nft'))

    g.raw('-- sshuttle/methods/pf.py')

    def pf_loaded_init():
        for n in pf.body:
            if isinstance(n, ast.Assign) and isinstance(n.targets[0], ast.Name) and \
                    n.targets[0].id == '_pf_context':
                d = ast.literal_eval(n.value)
                assert d['started_by_sshuttle'] == 0 and d['Xtoken'] == []
                return d['loaded_by_sshuttle']
        raise KeyError('_pf_context')
    g.boolean('PF_LOADED_INIT', pf_loaded_init)

    g.raw('-- sshuttle/firewall.py: main()')

    def reader_drops_unfinished():
        """_read_next_string_line at end of input inside a line: `return` gives the unfinished line up
        (True); `break`, or no joining loop at all, hands the piece out as if it were a line (False)."""
        f = h.func(fw, 'main._read_next_string_line')
        for n in ast.walk(f):
            if isinstance(n, ast.While):
                for x in ast.walk(n):
                    if isinstance(x, ast.If) and 'piece' in ast.dump(x.test):
                        kinds = [type(y).__name__ for b in x.body for y in ast.walk(b)
                                 if isinstance(y, (ast.Return, ast.Break))]
                        if kinds == ['Return']:
                            return True
                        if kinds == ['Break']:
                            return False
                        raise ValueError('unexpected end-of-input handling: %r' % (kinds,))
        return False
    g.boolean('FW_READER_DROPS_UNFINISHED', reader_drops_unfinished)

    def main_try():
        f = h.func(fw, 'main')
        # the outermost try that has a finally or handlers and contains setup_firewall
        for n in ast.walk(f):
            if isinstance(n, ast.Try) and any(
                    h.callname(c) == 'setup_firewall' for c in h.calls(ast.Module(body=n.body, type_ignores=[]),
                                                                        lambda c: True)):
                return n
        raise KeyError('try around setup_firewall')

    g.boolean('FW_TRY_HAS_FINALLY', lambda: bool(main_try().finalbody) and not main_try().handlers)

    def principal(stmts):
        names = []
        for c in h.calls(ast.Module(body=stmts, type_ignores=[]), lambda c: True):
            n = h.callname(c)
            if n == 'restore_firewall':
                a = c.args[0]
                names.append('restore_firewall:' + (a.id if isinstance(a, ast.Name) else '?'))
            elif n in ('restore_etc_hosts', 'flush_systemd_dns_cache'):
                names.append(n)
        return '+'.join(names) or '-'

    def finally_guards():
        t = main_try()
        out = []

        def walk(stmts, guarded):
            for s in stmts:
                if isinstance(s, ast.Try):
                    catches = [hd.type.id if isinstance(hd.type, ast.Name) else '?' for hd in s.handlers]
                    p = principal(s.body)
                    if p != '-':
                        out.append('%s/%s' % (p, ','.join(catches)))
                elif isinstance(s, ast.If):
                    walk(s.body, guarded)
                else:
                    p = principal([s])
                    if p != '-':
                        out.append('%s/UNGUARDED' % p)
        walk(t.finalbody or [hd for hd in t.handlers], False)
        return out
    g.strlist('FW_FINALLY_GUARDS', finally_guards)

    def try_order():
        t = main_try()
        out = []
        for c in h.calls(ast.Module(body=t.body, type_ignores=[]), lambda c: True):
            n = h.callname(c)
            if n == 'setup_firewall':
                a = c.args[0]
                out.append('setup:' + (a.id if isinstance(a, ast.Name) else '?'))
            elif n in ('flush_systemd_dns_cache', 'rewrite_etc_hosts', 'firewall_command'):
                out.append(n)
        return out
    g.strlist('FW_TRY_ORDER', try_order)
