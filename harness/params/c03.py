"""Values the C03 model depends on, re-read from the working tree on every run
(-> lean/SshuttleModel/Gen/C03.lean, namespace Sshuttle.Gen.C03)."""
import ast
import re


def generate(g, h):
    fw = h.parse('sshuttle/firewall.py')
    nat = h.parse('sshuttle/methods/nat.py')
    nft = h.parse('sshuttle/methods/nft.py')
    tproxy = h.parse('sshuttle/methods/tproxy.py')
    pf = h.parse('sshuttle/methods/pf.py')

    sw = h.func(fw, 'subnet_weight')

    def weight_ints():
        # `return (-s[-1] + (s[-2] or -65535), s[1], s[2])`: the integer literals in source order
        r = [n for n in sw.body if isinstance(n, ast.Return)]
        assert len(r) == 1 and isinstance(r[0].value, ast.Tuple) and len(r[0].value.elts) == 3
        return h.ints_in(r[0].value)
    g.natlist('WEIGHT_INTS', weight_ints)

    def weight_shape():
        # the structure of the key with the large literal blanked: pinned by an `example` in Props/C03
        r = [n for n in sw.body if isinstance(n, ast.Return)][0].value

        def blank(src_or_node):
            node = ast.parse(src_or_node, mode='eval').body if isinstance(src_or_node, str) else src_or_node
            d = ast.dump(node)
            return re.sub(r'Constant\(value=(\d{3,})\)', 'Constant(value=BIG)', d)
        return blank(r) == blank('(-s[-1] + (s[-2] or -65535), s[1], s[2])')
    g.boolean('WEIGHT_SHAPE_OK', weight_shape)
    g.nat('WEIGHT_NOPORT', lambda: max(weight_ints()))

    def sort_call(tree, qual):
        f = h.func(tree, qual)
        cs = h.calls(f, lambda c: h.callname(c) == 'sorted')
        assert len(cs) == 1, cs
        c = cs[0]
        key = [k.value for k in c.keywords if k.arg == 'key']
        assert len(key) == 1 and isinstance(key[0], ast.Name) and key[0].id == 'subnet_weight'
        assert isinstance(c.args[0], ast.Name) and c.args[0].id == 'subnets'
        rev = [k.value for k in c.keywords if k.arg == 'reverse']
        if not rev:
            return False
        return bool(ast.literal_eval(rev[0]))
    g.boolean('NAT_SORT_REVERSE', lambda: sort_call(nat, 'Method.setup_firewall'))
    g.boolean('NFT_SORT_REVERSE', lambda: sort_call(nft, 'Method.setup_firewall'))
    g.boolean('TPROXY_SORT_REVERSE', lambda: sort_call(tproxy, 'Method.setup_firewall'))
    g.boolean('PF_SORT_REVERSE', lambda: sort_call(pf, 'Method.setup_firewall'))

    def dns_port(tree, qual, what):
        f = h.func(tree, qual)
        xs = set()
        for s in h.strs_in(f):
            if isinstance(s, bytes):
                s = s.decode('latin-1')
            for w in s.replace(':', ' ').split():
                if w == '53':
                    xs.add(53)
        assert xs == {53}, (what, xs)
        return 53
    g.nat('NAT_DNS_PORT', lambda: dns_port(nat, 'Method.setup_firewall', 'nat'))
    g.nat('NFT_DNS_PORT', lambda: dns_port(nft, 'Method.setup_firewall', 'nft'))
    g.nat('TPROXY_DNS_PORT', lambda: dns_port(tproxy, 'Method.setup_firewall', 'tproxy'))
    g.nat('PF_FREEBSD_DNS_PORT', lambda: dns_port(pf, 'FreeBsd.add_rules', 'pf freebsd'))
    g.nat('PF_OPENBSD_DNS_PORT', lambda: dns_port(pf, 'OpenBsd.add_rules', 'pf openbsd'))

    def literal_strs(tree, qual):
        out = []
        for s in h.strs_in(h.func(tree, qual)):
            if isinstance(s, bytes):
                s = s.decode('latin-1')
            if s not in out and '\n' not in s and len(s) < 90:
                out.append(s)
        return out
    # every string literal of the four rule generators (the renderer's keyword tables are
    # compared against the real argv on every run; this list documents what they came from)
    g.strlist('NAT_STRS', lambda: literal_strs(nat, 'Method.setup_firewall'))
    g.strlist('NFT_STRS', lambda: literal_strs(nft, 'Method.setup_firewall'))
    g.strlist('TPROXY_STRS', lambda: literal_strs(tproxy, 'Method.setup_firewall'))

    def nft_base_hooks():
        """['name:type:hook:priority'] of every `_nft('add chain', NAME, DECL)` with a base-chain declaration;
        DECL may be a literal or `TEMPLATE % 'hook'` with TEMPLATE a literal assigned in the same function."""
        f = h.func(nft, 'Method.setup_firewall')
        consts = {}
        for n in ast.walk(f):
            if isinstance(n, ast.Assign) and len(n.targets) == 1 and isinstance(n.targets[0], ast.Name) \
                    and isinstance(n.value, ast.Constant) and isinstance(n.value.value, str):
                consts[n.targets[0].id] = n.value.value

        def text(node):
            if isinstance(node, ast.Constant) and isinstance(node.value, str):
                return node.value
            if isinstance(node, ast.Name) and node.id in consts:
                return consts[node.id]
            if isinstance(node, ast.BinOp) and isinstance(node.op, ast.Mod):
                left, right = text(node.left), node.right
                if isinstance(right, ast.Tuple):
                    return left % tuple(text(e) for e in right.elts)
                return left % text(right)
            raise ValueError('cannot evaluate %s' % ast.dump(node))
        out = []
        for c in h.calls(f, lambda c: h.callname(c) == '_nft'):
            if len(c.args) == 3 and isinstance(c.args[0], ast.Constant) and c.args[0].value == 'add chain':
                name, decl = text(c.args[1]), text(c.args[2])
                m = re.search(r'type\s+(\w+)\s+hook\s+(\w+)\s+priority\s+(-?\d+)', decl)
                assert m, decl
                out.append('%s:%s:%s:%s' % (name, m.group(1), m.group(2), m.group(3)))
        return out
    g.strlist('NFT_BASE_CHAINS', nft_base_hooks)
    # the Lean packet walk identifies "forwarded" with the chain named prerouting and "locally generated" with
    # the chain named output: each must be a nat chain registered at the hook of its own name
    g.boolean('NFT_BASE_HOOKS_OK', lambda: sorted(x.rsplit(':', 1)[0] for x in nft_base_hooks()) ==
              ['output:nat:output', 'prerouting:nat:prerouting'])
