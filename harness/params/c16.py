"""Generated parameters of the C16 model (lean/SshuttleModel/Gen/C16.lean).

From the working tree of the repository (stdlib `ast`, nothing imported from it):
  * the regular-expression texts of parse_subnetport / parse_ipport (the model in Code/Args.lean
    was hand-written for particular texts; `Lemmas/ArgsPins.lean` compares them, so a changed
    expression breaks a proof obligation instead of going unnoticed);
  * which `type=` function each argument uses, the list of `store`-type options, and the order in
    which cmdline.main concatenates the environment arguments and argv.
From the CPython the model follows (/venv/bin/python): the Unicode classes `\\d`, `\\w`,
`str.isdigit`, restricted to code points >= 128 (ASCII is written out in the model), and the
`int()` digit limit.
"""
import ast
import re
import sys


def _rx_assignments(fn):
    """string constants assigned to `rx` inside a function, in source order"""
    out = []
    for n in ast.walk(fn):
        if isinstance(n, ast.Assign) and len(n.targets) == 1 and isinstance(n.targets[0], ast.Name) \
                and n.targets[0].id == 'rx' and isinstance(n.value, ast.Constant) and isinstance(n.value.value, str):
            out.append((n.lineno, n.value.value))
    return [s for _ln, s in sorted(out)]


def _ranges(pred):
    out = []
    lo = None
    prev = None
    for c in range(128, 0x110000):
        if 0xD800 <= c <= 0xDFFF:
            ok = False
        else:
            ok = pred(chr(c))
        if ok:
            if lo is None:
                lo = c
            prev = c
        elif lo is not None:
            out.append((lo, prev))
            lo = None
    if lo is not None:
        out.append((lo, prev))
    return out


def _pairs(name, rs):
    body = ', '.join('(%d, %d)' % r for r in rs)
    return 'def %s : List (Nat × Nat) := [%s]' % (name, body)


def generate(g, h):
    options = h.parse('sshuttle/options.py')
    cmdline = h.parse('sshuttle/cmdline.py')

    sub = _rx_assignments(h.func(options, 'parse_subnetport'))
    ipp = _rx_assignments(h.func(options, 'parse_ipport'))
    g.string('RX_SUBNET_V6', lambda: sub[0] if len(sub) == 2 else (_ for _ in ()).throw(ValueError(sub)))
    g.string('RX_SUBNET_V4', lambda: sub[1] if len(sub) == 2 else (_ for _ in ()).throw(ValueError(sub)))
    g.string('RX_IPPORT_DIGITS', lambda: ipp[0] if len(ipp) == 3 else (_ for _ in ()).throw(ValueError(ipp)))
    g.string('RX_IPPORT_BRACKET', lambda: ipp[1] if len(ipp) == 3 else (_ for _ in ()).throw(ValueError(ipp)))
    g.string('RX_IPPORT_PLAIN', lambda: ipp[2] if len(ipp) == 3 else (_ for _ in ()).throw(ValueError(ipp)))

    def colon_threshold():
        f = h.func(options, 'parse_subnetport')
        for n in ast.walk(f):
            if isinstance(n, ast.Compare) and isinstance(n.left, ast.Call) and h.callname(n.left) == 'count' \
                    and isinstance(n.ops[0], ast.Gt) and ast.literal_eval(n.left.args[0]) == ':':
                return h.int_of(n.comparators[0])
        raise KeyError("s.count(':') > N")
    g.nat('SUBNET_COLON_THRESHOLD', colon_threshold)

    def max_cidrs():
        f = h.func(options, 'parse_subnetport')
        for n in ast.walk(f):
            if isinstance(n, ast.Assign) and isinstance(n.targets[0], ast.Name) and n.targets[0].id == 'max_cidr' \
                    and isinstance(n.value, ast.IfExp):
                return h.int_of(n.value.body), h.int_of(n.value.orelse)
        raise KeyError('max_cidr')
    g.nat('MAX_CIDR_V4', lambda: max_cidrs()[0])
    g.nat('MAX_CIDR_V6', lambda: max_cidrs()[1])

    def default_listen_host():
        f = h.func(options, 'parse_ipport')
        for n in ast.walk(f):
            if isinstance(n, ast.BoolOp) and isinstance(n.op, ast.Or) and isinstance(n.values[0], ast.Name) \
                    and n.values[0].id == 'host':
                return ast.literal_eval(n.values[1])
        raise KeyError('host or ...')
    g.string('IPPORT_DEFAULT_HOST', default_listen_host)

    # argparse definitions
    adds = [c for c in h.calls(options, lambda c: h.callname(c) == 'add_argument')]

    def kw(c, name):
        for k in c.keywords:
            if k.arg == name:
                return k.value
        return None

    def names(c):
        return [a.value for a in c.args if isinstance(a, ast.Constant) and isinstance(a.value, str)]

    def type_of(optname):
        for c in adds:
            if optname in names(c):
                t = kw(c, 'type')
                return t.id if isinstance(t, ast.Name) else ''
        raise KeyError(optname)
    g.string('TYPE_SUBNETS', lambda: type_of('subnets'))
    g.string('TYPE_EXCLUDE', lambda: type_of('--exclude'))
    g.string('TYPE_TO_NS', lambda: type_of('--to-ns'))
    g.string('TYPE_LISTEN', lambda: type_of('--listen'))
    g.string('TYPE_REMOTE', lambda: type_of('--remote'))

    def store_options():
        out = []
        for c in adds:
            ns = names(c)
            if not ns or not ns[0].startswith('-'):
                continue
            act = kw(c, 'action')
            if act is None or (isinstance(act, ast.Constant) and act.value == 'store'):
                out.append([n for n in ns if n.startswith('--')][0])
        return out
    g.strlist('STORE_OPTIONS', store_options)

    def env_first():
        f = h.func(cmdline, 'main')
        for n in ast.walk(f):
            if isinstance(n, ast.Assign) and isinstance(n.targets[0], ast.Name) and n.targets[0].id == 'args' \
                    and isinstance(n.value, ast.List) and len(n.value.elts) == 2 \
                    and all(isinstance(e, ast.Starred) for e in n.value.elts):
                first = n.value.elts[0].value
                return isinstance(first, ast.Name) and first.id == 'env_args'
        raise KeyError('args = [*env_args, *sys.argv[1:]]')
    g.boolean('ENV_ARGS_FIRST', env_first)

    # CPython library facts
    g.nat('INT_MAX_STR_DIGITS', lambda: sys.get_int_max_str_digits())
    rd = re.compile(r'\d')
    rw = re.compile(r'\w')
    nd = _ranges(lambda ch: rd.match(ch) is not None)

    def nd_checked():
        for lo, hi in nd:
            for c in range(lo, hi + 1):
                ch = chr(c)
                if not ch.isdecimal() or int(ch) != (c - lo) % 10:
                    raise ValueError('digit value of U+%04X is not (c - lo) %% 10' % c)
        # int() accepts exactly the `\d` characters
        for c in range(128, 0x110000):
            if 0xD800 <= c <= 0xDFFF:
                continue
            if chr(c).isdecimal() != (rd.match(chr(c)) is not None):
                raise ValueError('isdecimal and \\d differ at U+%04X' % c)
        return nd
    try:
        g.raw(_pairs('ND_RANGES', nd_checked()))
    except Exception as e:  # noqa
        g.problems.append(('ND_RANGES', repr(e)))
        g.raw('-- MISSING ND_RANGES: %r' % (e,))
    g.raw(_pairs('W_RANGES', _ranges(lambda ch: rw.match(ch) is not None)))
    g.raw(_pairs('PYDIGIT_RANGES', _ranges(lambda ch: ch.isdigit())))
