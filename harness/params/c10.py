"""Parameters of the DNS relay model (C10), read from the working tree with `ast`.

Besides constants, two *code-shape flags* are extracted: the Lean model has a branch for
each shape, so that the model follows the code when the small repairs of DESIGN section 3
(F2 for ondns, F4) are applied, and keeps modelling the crash while they are not."""
import ast


def _names(node):
    return {n.id for n in ast.walk(node) if isinstance(n, ast.Name)}


def guards_no_id(h, fn_name):
    """True when the function tests the result of next_channel() (an `if` on `chan`)
    before the first mux.send."""
    client = h.parse('sshuttle/client.py')
    f = h.func(client, fn_name)
    first_send = min([c.lineno for c in h.calls(f, lambda c: h.callname(c) == 'send')] or [10 ** 9])
    alloc = [c.lineno for c in h.calls(f, lambda c: h.callname(c) == 'next_channel')]
    if not alloc:
        raise KeyError('next_channel call in ' + fn_name)
    for n in ast.walk(f):
        if isinstance(n, ast.If) and 'chan' in _names(n.test) and alloc[0] < n.lineno < first_send:
            return True
    return False


def connect_in_try(h):
    server = h.parse('sshuttle/server.py')
    f = h.func(server, 'DnsProxy.try_send')
    con = h.calls(f, lambda c: h.callname(c) == 'connect')
    if len(con) != 1:
        raise ValueError('expected one connect call, found %d' % len(con))
    for n in ast.walk(f):
        if isinstance(n, ast.Try):
            for st in n.body:
                if any(c is con[0] for c in ast.walk(st)):
                    return True
    return False


def call_order(h, rel, qual, wanted):
    f = h.func(h.parse(rel), qual)
    cs = [(c.lineno, c.col_offset, h.callname(c)) for c in h.calls(f, lambda c: h.callname(c) in wanted)]
    return [n for _l, _c, n in sorted(cs)]


def compare_ops(h, rel, qual, attr_or_name):
    """Comparison operators applied to `attr_or_name` inside the function."""
    f = h.func(h.parse(rel), qual)
    out = []
    for n in ast.walk(f):
        if isinstance(n, ast.Compare):
            left = n.left
            nm = left.attr if isinstance(left, ast.Attribute) else getattr(left, 'id', None)
            if nm == attr_or_name:
                out.append(type(n.ops[0]).__name__)
    return out


def resolv_accept_rule(h):
    """The test applied to `words` in helpers.resolvconf_nameservers, e.g.
    ['len(words) >= 2', "words[0] == 'nameserver'", 'words[1]'] (conditions, then what is kept)."""
    f = h.func(h.parse('sshuttle/helpers.py'), 'resolvconf_nameservers')
    for n in ast.walk(f):
        if isinstance(n, ast.If) and 'words' in _names(n.test):
            conds = n.test.values if isinstance(n.test, ast.BoolOp) and isinstance(n.test.op, ast.And) else [n.test]
            kept = [ast.unparse(c.args[0]) for c in h.calls(n, lambda c: h.callname(c) == 'family_ip_tuple')]
            return [ast.unparse(c) for c in conds] + kept
    raise KeyError('if … words … in resolvconf_nameservers')


def resolv_words_expr(h):
    f = h.func(h.parse('sshuttle/helpers.py'), 'resolvconf_nameservers')
    for n in ast.walk(f):
        if isinstance(n, ast.Assign) and isinstance(n.targets[0], ast.Name) and n.targets[0].id == 'words':
            return ast.unparse(n.value)
    raise KeyError('words = …')


def clock_reads(h):
    """Every read of a clock in the functions that write or compare the deadlines of dnsreqs /
    udp_by_src / DnsProxy.timeout / UdpProxy.timeout, as 'module.function:dotted.call'."""
    out = []
    for rel, mod, quals in (('sshuttle/client.py', 'client', ['expire_connections', 'onaccept_tcp', 'onaccept_udp', 'ondns']),
                            ('sshuttle/server.py', 'server', ['DnsProxy.__init__', 'UdpProxy.__init__', 'main'])):
        tree = h.parse(rel)
        for q in quals:
            f = h.func(tree, q)
            for c in sorted(h.calls(f, lambda c: True), key=lambda c: (c.lineno, c.col_offset)):
                name = ast.unparse(c.func)
                if name.split('.')[-1] in ('time', 'monotonic', 'perf_counter', 'clock', 'now', 'utcnow', 'time_ns',
                                           'monotonic_ns', 'perf_counter_ns', 'process_time', 'clock_gettime'):
                    out.append('%s.%s:%s' % (mod, q, name))
    return out


def generate(g, h):
    g.strlist('CLOCK_READS', lambda: clock_reads(h))
    g.strlist('RESOLV_ACCEPT_RULE', lambda: resolv_accept_rule(h))
    g.string('RESOLV_WORDS_EXPR', lambda: resolv_words_expr(h))
    g.boolean('ONDNS_GUARDS_NO_ID', lambda: guards_no_id(h, 'ondns'))
    g.boolean('DNS_CONNECT_IN_TRY', lambda: connect_in_try(h))
    g.strlist('ONDNS_CALLS', lambda: call_order(h, 'sshuttle/client.py', 'ondns',
                                                {'recv_udp', 'next_channel', 'send', 'expire_connections'}))
    g.strlist('DNS_DONE_CALLS', lambda: call_order(h, 'sshuttle/client.py', 'dns_done', {'send_udp'}))
    g.strlist('EXPIRE_CMP', lambda: compare_ops(h, 'sshuttle/client.py', 'expire_connections', 'timeout'))
    g.strlist('TRY_SEND_CALLS', lambda: call_order(h, 'sshuttle/server.py', 'DnsProxy.try_send',
                                                   {'get_random_nameserver', 'connect', 'send', 'try_send'}))
    g.strlist('DNS_CALLBACK_CALLS', lambda: call_order(h, 'sshuttle/server.py', 'DnsProxy.callback',
                                                       {'recv', 'try_send', 'send', 'remove'}))
    g.nat('DNS_PORT', lambda: sorted(set(i for i in h.ints_in(h.func(h.parse('sshuttle/server.py'),
                                                                       'DnsProxy.try_send')) if i > 3))[0])
    g.string('FALLBACK_NS', lambda: [s for s in h.strs_in(h.func(h.parse('sshuttle/helpers.py'),
                                                                 'get_random_nameserver'))
                                     if isinstance(s, str) and s.count('.') == 3][0])
    g.strlist('SRV_DNS_SWEEP_CMP', lambda: compare_ops(h, 'sshuttle/server.py', 'main', 'timeout'))
