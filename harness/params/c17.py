"""Generated parameters for C17 (-> lean/SshuttleModel/Gen/C17.lean, namespace Sshuttle.Gen.C17).

Every constant, text, format string and exception list the route-discovery model depends on is
re-read from the working tree with `ast`.  Texts are emitted as lists of code points (the model's
`Str`).  `Code/Routes.lean` *uses* the numeric ones and the short texts; `Lemmas/RoutesPins.lean`
pins the rest (regular expression, format strings, the `except` clause of `_list_routes`, call
shapes), so a change there breaks a proof obligation instead of going unnoticed.
"""
import ast
import sys


def _src(n):
    return ast.unparse(n)


def _one(xs, what):
    xs = list(xs)
    if len(xs) != 1:
        raise ValueError('%s: expected exactly one, got %r' % (what, xs))
    return xs[0]


def _cp(s):
    if isinstance(s, bytes):
        return list(s)
    return [ord(c) for c in s]


def _returns(f):
    return sorted([n for n in ast.walk(f) if isinstance(n, ast.Return)], key=lambda n: n.lineno)


def generate(g, h):
    server = h.parse('sshuttle/server.py')
    client = h.parse('sshuttle/client.py')

    def text(name, fn):
        g.natlist(name, lambda: _cp(fn()))

    g.raw('-- CPython facts of the interpreter the check runs with')
    g.nat('INT_MAX_STR_DIGITS', lambda: int(sys.int_info.default_max_str_digits))

    g.raw('')
    g.raw('-- sshuttle/server.py _ipmatch')
    im = h.func(server, '_ipmatch')

    def default_if():
        n = _one([n for n in im.body if isinstance(n, ast.If) and isinstance(n.test, ast.Compare)
                  and _src(n.test.left) == 'ipstr'], "if ipstr == 'default'")
        assert isinstance(n.test.ops[0], ast.Eq) and len(n.body) == 1 and not n.orelse
        a = n.body[0]
        assert isinstance(a, ast.Assign) and _src(a.targets[0]) == 'ipstr'
        return ast.literal_eval(n.test.comparators[0]), ast.literal_eval(a.value)
    text('DEFAULT_TEXT', lambda: default_if()[0])
    text('DEFAULT_REPL', lambda: default_if()[1])
    rm = lambda: _one(h.calls(im, lambda c: h.callname(c) == 'match'), 're.match')  # noqa: E731
    text('IPMATCH_RE', lambda: ast.literal_eval(rm().args[0]))
    g.strlist('IPMATCH_RE_CALL', lambda: [_src(rm().func)] + [_src(a) for a in rm().args[1:]])

    def width_default():
        c = _one([c for c in h.calls(im, lambda c: h.callname(c) == 'int')], 'int(g[4] or 32)')
        b = c.args[0]
        assert isinstance(b, ast.BoolOp) and isinstance(b.op, ast.Or) and _src(b.values[0]) == 'g[4]', _src(c)
        return int(ast.literal_eval(b.values[1]))
    g.nat('DEFAULT_WIDTH', width_default)

    def pad_chain():
        """[(test source, pad text, cap)] of the if/elif chain on g[1], g[2], g[3]."""
        out = []
        n = _one([n for n in ast.walk(im) if isinstance(n, ast.If) and _src(n.test) == 'g[1] is None'], 'if g[1] is None')
        while True:
            pad = cap = None
            for st in n.body:
                if isinstance(st, ast.AugAssign) and _src(st.target) == 'ips' and isinstance(st.op, ast.Add):
                    pad = ast.literal_eval(st.value)
                elif isinstance(st, ast.Assign) and _src(st.targets[0]) == 'width':
                    c = st.value
                    assert isinstance(c, ast.Call) and h.callname(c) == 'min' and _src(c.args[0]) == 'width', _src(st)
                    cap = int(ast.literal_eval(c.args[1]))
                else:
                    raise ValueError('unexpected statement ' + _src(st))
            out.append((_src(n.test), pad, cap))
            if len(n.orelse) == 1 and isinstance(n.orelse[0], ast.If):
                n = n.orelse[0]
            else:
                assert not n.orelse, 'else branch after the pad chain'
                break
        return out
    g.strlist('PAD_TESTS', lambda: [t for (t, _p, _c) in pad_chain()])
    for i in range(3):
        text('PAD%d' % (i + 1), lambda i=i: pad_chain()[i][1])
        g.nat('CAP%d' % (i + 1), lambda i=i: pad_chain()[i][2])
    g.string('IPMATCH_RETURN', lambda: _src(_one(_returns(im), 'return').value))

    g.raw('')
    g.raw('-- _maskbits / _shl')
    mb = h.func(server, '_maskbits')
    g.nat('MASKBITS_NONE', lambda: int(ast.literal_eval(_returns(mb)[0].value)))
    g.nat('MASKBITS_RANGE', lambda: int(ast.literal_eval(_one(
        h.calls(mb, lambda c: h.callname(c) == 'range'), 'range').args[0])))
    g.strlist('MASKBITS_SRC', lambda: [_src(n) for n in mb.body])
    g.strlist('SHL_SRC', lambda: [_src(n) for n in h.func(server, '_shl').body])

    g.raw('')
    g.raw('-- _route_netstat / _route_iproute')
    rn = h.func(server, '_route_netstat')

    def netstat_min():
        n = _one([n for n in ast.walk(rn) if isinstance(n, ast.If)], 'if len(cols) < 3')
        assert _src(n.test.left) == 'len(cols)' and isinstance(n.test.ops[0], ast.Lt), _src(n.test)
        return int(ast.literal_eval(n.test.comparators[0]))
    g.nat('NETSTAT_MIN_COLS', netstat_min)

    def netstat_cols():
        cs = sorted(h.calls(rn, lambda c: h.callname(c) == '_ipmatch'), key=lambda c: c.lineno)
        out = []
        for c in cs:
            a = c.args[0]
            assert isinstance(a, ast.Subscript) and _src(a.value) == 'cols', _src(c)
            out.append(int(ast.literal_eval(a.slice)))
        assert len(out) == 2, out
        return out
    g.nat('NETSTAT_IP_COL', lambda: netstat_cols()[0])
    g.nat('NETSTAT_MASK_COL', lambda: netstat_cols()[1])
    g.strlist('NETSTAT_SRC', lambda: [_src(n) for n in rn.body])
    g.strlist('IPROUTE_SRC', lambda: [_src(n) for n in h.func(server, '_route_iproute').body])

    g.raw('')
    g.raw('-- _list_routes / list_routes')
    lr = h.func(server, '_list_routes')

    def catches():
        out = []
        for n in ast.walk(lr):
            if isinstance(n, ast.Try):
                for hd in n.handlers:
                    t = hd.type
                    names = [_src(e) for e in t.elts] if isinstance(t, ast.Tuple) else ([_src(t)] if t else ['BaseException'])
                    assert len(hd.body) == 1 and isinstance(hd.body[0], ast.Continue), 'handler is not `continue`'
                    out.extend(names)
        return sorted(out)
    g.strlist('LIST_ROUTES_CATCHES', catches)
    g.strlist('LIST_ROUTES_TRY_BODY', lambda: [_src(s) for n in ast.walk(lr) if isinstance(n, ast.Try) for s in n.body])
    g.strlist('LIST_ROUTES_SKIP_TESTS', lambda: [_src(n.test) for n in sorted(
        [n for n in ast.walk(lr) if isinstance(n, ast.If) and len(n.body) == 1 and isinstance(n.body[0], ast.Continue)],
        key=lambda n: n.lineno)])
    g.strlist('LIST_ROUTES_ARITH', lambda: [_src(n) for n in ast.walk(lr)
                                            if isinstance(n, ast.Assign) and _src(n.targets[0]) in ('width', 'ip')])

    def total_bits():
        n = _one([n for n in ast.walk(lr) if isinstance(n, ast.BinOp) and isinstance(n.op, ast.Sub)
                  and _src(n.right) == 'width'], '32 - width')
        return int(ast.literal_eval(n.left))
    g.nat('TOTAL_BITS', total_bits)
    g.string('LIST_ROUTES_APPEND', lambda: _src(_one(
        h.calls(lr, lambda c: h.callname(c) == 'append'), 'append').args[0]))
    l2 = h.func(server, 'list_routes')

    def prefixes():
        cs = sorted(h.calls(l2, lambda c: h.callname(c) == 'startswith'), key=lambda c: (c.lineno, c.col_offset))
        return [ast.literal_eval(c.args[0]) for c in cs]
    g.raw('def FILTER_PREFIXES : List (List Nat) := [%s]' % ', '.join(
        '[%s]' % ', '.join(str(x) for x in _cp(p)) for p in prefixes()))
    g.string('FILTER_TEST', lambda: _one([_src(n.test) for n in ast.walk(l2)
                                          if isinstance(n, ast.If) and 'startswith' in _src(n.test)], 'filter if'))
    g.strlist('WHICH_ORDER', lambda: [ast.literal_eval(c.args[0]) for c in sorted(
        h.calls(l2, lambda c: h.callname(c) == 'which'), key=lambda c: c.lineno)])
    g.strlist('LIST_ROUTES_CALLS', lambda: [_src(c) for c in sorted(
        h.calls(l2, lambda c: h.callname(c) == '_list_routes'), key=lambda c: c.lineno)])

    g.raw('')
    g.raw('-- server.main: ROUTES packet builder')
    mn = h.func(server, 'main')

    def route_fmt():
        for n in ast.walk(mn):
            if isinstance(n, ast.AugAssign) and _src(n.target) == 'routepkt':
                v = n.value
                assert isinstance(v, ast.BinOp) and isinstance(v.op, ast.Mod) and _src(v.right) == 'r', _src(n)
                return ast.literal_eval(v.left)
        raise KeyError('routepkt +=')
    text('ROUTE_FMT', route_fmt)
    g.strlist('ROUTES_SEND', lambda: [_src(a) for a in _one(
        [c for c in h.calls(mn, lambda c: h.callname(c) == 'send') if 'CMD_ROUTES' in _src(c)], 'mux.send ROUTES').args])

    g.raw('')
    g.raw('-- sshuttle/client.py onroutes / FirewallClient.start')
    onr = h.func(client, '_main.onroutes')
    g.strlist('ONROUTES_SPLITS', lambda: [_src(c) for c in sorted(
        h.calls(onr, lambda c: h.callname(c) == 'split'), key=lambda c: c.lineno)])
    g.strlist('ONROUTES_TESTS', lambda: [_src(n.test) for n in sorted(
        [n for n in ast.walk(onr) if isinstance(n, ast.If)], key=lambda n: (n.lineno, n.col_offset))])

    def appended():
        c = _one(h.calls(onr, lambda c: h.callname(c) == 'append'), 'auto_nets.append')
        assert _src(c.func) == 'fw.auto_nets.append', _src(c.func)
        t = c.args[0]
        assert [_src(e) for e in t.elts[:3]] == ['family', 'ip', 'width'], _src(t)
        return [int(ast.literal_eval(e)) for e in t.elts[3:]]
    g.nat('AUTO_FPORT', lambda: appended()[0])
    g.nat('AUTO_LPORT', lambda: appended()[1])
    g.strlist('ONROUTES_TAIL', lambda: [_src(s) for s in onr.body[1:]])
    st = h.func(client, 'FirewallClient.start')
    writes = lambda: sorted(h.calls(st, lambda c: h.callname(c) == 'write'), key=lambda c: c.lineno)  # noqa: E731
    text('START_HEADER', lambda: ast.literal_eval(writes()[0].args[0]))
    g.strlist('START_SUBNET_WRITES', lambda: [_src(w.args[0]) for w in writes()[1:3]])
    g.strlist('START_SUBNET_LOOPS', lambda: [_src(n.iter) for n in sorted(
        [n for n in ast.walk(st) if isinstance(n, ast.For)], key=lambda n: n.lineno)][:2])
    g.string('SERVERREADY_FIRST', lambda: _src(h.func(client, '_main.serverready').body[0]))
