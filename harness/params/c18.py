"""Parameters of the bootstrap upload (C18), re-read from the working tree.

Writes lean/SshuttleModel/Gen/C18.lean (namespace Sshuttle.Gen.C18).  Everything the model
of `ssh.get_module_source` / `ssh.empackage` / `ssh.connect` / `assembler.py` depends on is
either a value the model *uses* (module list and order, which entry carries explicit data,
terminator, how the source file is opened) or the normalised source text of a small function
that `Props/C18.lean` pins with `example : … = "…" := by decide`.  A value that cannot be
found is emitted as a comment only: the Lean build of C18 then fails (= broken obligation)
and no other property's check is affected.
"""
import ast


def generate(g, h):
    def emit(name, kind, fn):
        try:
            v = fn()
            if kind == 'nat':
                assert isinstance(v, int) and v >= 0
                g.raw('def %s : Nat := %d' % (name, v))
            elif kind == 'bool':
                assert isinstance(v, bool)
                g.raw('def %s : Bool := %s' % (name, 'true' if v else 'false'))
            elif kind == 'str':
                if isinstance(v, bytes):
                    v = v.decode('latin-1')
                g.raw('def %s : String := %s' % (name, h.lean_str(v)))
            elif kind == 'strlist':
                g.raw('def %s : List String := [%s]' % (name, ', '.join(h.lean_str(x) for x in v)))
            elif kind == 'byteslist':
                g.raw('def %s : List (List Nat) := [%s]' % (
                    name, ', '.join('[%s]' % ', '.join(str(b) for b in x.encode('utf-8')) for x in v)))
            elif kind == 'bytes':
                if isinstance(v, str):
                    v = v.encode('utf-8')
                g.raw('def %s : List Nat := [%s]' % (name, ', '.join(str(b) for b in v)))
        except Exception as e:  # noqa
            g.raw('-- MISSING %s: %r' % (name, e))

    def ssh():
        return h.parse('sshuttle/ssh.py')

    def one(xs, what):
        xs = sorted(set(xs))
        if len(xs) != 1:
            raise ValueError('%s: %r' % (what, xs))
        return xs[0]

    def assign_in(fn, target):
        for n in ast.walk(fn):
            if isinstance(n, ast.Assign) and len(n.targets) == 1 and \
                    isinstance(n.targets[0], ast.Name) and n.targets[0].id == target:
                yield n

    # ---- ssh.connect: what is packaged, in which order -------------------------------
    def content2_expr():
        return list(assign_in(h.func(ssh(), 'connect'), 'content2'))[0].value

    def packaged_calls():
        cs = h.calls(content2_expr(), lambda c: h.callname(c) == 'empackage')
        cs.sort(key=lambda c: (c.lineno, c.col_offset))
        return cs

    def flat_operands(e):
        """operands of the left-nested `a + b + c` chain, left to right."""
        if isinstance(e, ast.BinOp) and isinstance(e.op, ast.Add):
            return flat_operands(e.left) + flat_operands(e.right)
        return [e]

    def packaged():
        ops = flat_operands(content2_expr())
        names = []
        for o in ops[:-1]:
            assert isinstance(o, ast.Call) and h.callname(o) == 'empackage', ast.dump(o)
            names.append(ast.literal_eval(o.args[1]))
        assert names == [ast.literal_eval(c.args[1]) for c in packaged_calls()]
        return names

    emit('PACKAGED', 'strlist', packaged)
    emit('PACKAGED_BYTES', 'byteslist', packaged)

    def explicit_data():
        out = [ast.literal_eval(c.args[1]) for c in packaged_calls() if len(c.args) + len(c.keywords) == 3]
        for c in packaged_calls():
            if len(c.args) == 3:
                assert isinstance(c.args[2], ast.Name) and c.args[2].id == 'optdata'
        return out
    emit('EXPLICIT_DATA', 'strlist', explicit_data)
    emit('EXPLICIT_DATA_BYTES', 'byteslist', explicit_data)

    def terminator():
        last = flat_operands(content2_expr())[-1]
        v = ast.literal_eval(last)
        assert isinstance(v, bytes)
        return v
    emit('TERMINATOR', 'bytes', terminator)

    def assembler_module():
        a = list(assign_in(h.func(ssh(), 'connect'), 'content'))[0].value
        assert isinstance(a, ast.Call) and h.callname(a) == 'get_module_source'
        return ast.literal_eval(a.args[0])
    emit('ASSEMBLER_MODULE', 'str', assembler_module)
    emit('ASSEMBLER_MODULE_BYTES', 'bytes', assembler_module)

    def shared_compressor():
        f = h.func(ssh(), 'connect')
        mk = h.calls(f, lambda c: h.callname(c) == 'compressobj')
        zs = [a for a in assign_in(f, 'z')]
        firsts = [c.args[0] for c in packaged_calls()]
        inside = h.calls(h.func(ssh(), 'empackage'), lambda c: h.callname(c) in ('compressobj', 'compress')
                         and isinstance(c.func, ast.Attribute) and isinstance(c.func.value, ast.Name)
                         and c.func.value.id == 'zlib')
        return (len(mk) == 1 and len(zs) == 1 and all(isinstance(a, ast.Name) and a.id == 'z' for a in firsts)
                and not inside)
    emit('SHARED_COMPRESSOR', 'bool', shared_compressor)
    emit('COMPRESS_LEVEL', 'nat', lambda: one(
        [h.int_of(c.args[0]) for c in h.calls(h.func(ssh(), 'connect'), lambda c: h.callname(c) == 'compressobj')],
        'compressobj level'))

    def writes():
        f = h.func(ssh(), 'connect')
        ws = h.calls(f, lambda c: h.callname(c) == 'write')
        ws.sort(key=lambda c: c.lineno)
        return [c.args[0].id for c in ws]
    emit('CONNECT_WRITES', 'strlist', writes)

    # ---- option rendering ---------------------------------------------------------------
    def opt_format():
        a = list(assign_in(h.func(ssh(), 'connect'), 'optdata'))[0].value
        return one([s for s in h.strs_in(a) if isinstance(s, str) and '%' in s], 'option format')
    emit('OPT_FORMAT', 'str', opt_format)

    def opt_encoding():
        a = list(assign_in(h.func(ssh(), 'connect'), 'optdata'))[1].value
        assert h.callname(a) == 'encode'
        return ast.literal_eval(a.args[0]).upper().replace('-', '')
    emit('OPT_ENCODING', 'str', opt_encoding)

    def option_keys():
        client = h.parse('sshuttle/client.py')
        for c in h.calls(h.func(client, '_main'), lambda c: h.callname(c) == 'connect'):
            for kw in c.keywords:
                if kw.arg == 'options':
                    val = kw.value
                    if isinstance(val, ast.Name):        # built in a local variable first
                        defs = [a.value for a in assign_in(h.func(client, '_main'), val.id)]
                        assert len(defs) == 1, val.id
                        val = defs[0]
                    assert isinstance(val, ast.Call) and h.callname(val) == 'dict'
                    for k in val.keywords:
                        assert isinstance(k.value, ast.Name) and k.value.id == k.arg, (k.arg, ast.unparse(k.value))
                    return [k.arg for k in val.keywords]
        raise KeyError('options=dict(...)')
    emit('OPTION_KEYS', 'strlist', option_keys)

    def assembler_main_args():
        asm = h.parse('sshuttle/assembler.py')
        for c in h.calls(asm, lambda c: h.callname(c) == 'main'):
            return [a.attr for a in c.args]
        raise KeyError('main(...)')
    emit('ASSEMBLER_MAIN_ARGS', 'strlist', assembler_main_args)

    def server_main_params():
        """parameter list of the real server.main (positional parameters, in order)"""
        f = None
        for n in h.parse('sshuttle/server.py').body:
            if isinstance(n, ast.FunctionDef) and n.name == 'main':
                f = n
        a = f.args
        assert not a.vararg and not a.kwarg and not a.kwonlyargs and not a.posonlyargs and not a.defaults, ast.dump(a)
        return [x.arg for x in a.args]
    emit('SERVER_MAIN_PARAMS', 'strlist', server_main_params)

    def main_binding():
        """for each parameter of server.main, in order, the `options.<attr>` that assembler.py's
        call binds to it (positionally or by keyword); '?' when unbound or not an option attribute"""
        params = server_main_params()
        asm = h.parse('sshuttle/assembler.py')
        call = [c for c in h.calls(asm, lambda c: isinstance(c.func, ast.Name) and c.func.id == 'main')][0]

        def attr(e):
            if isinstance(e, ast.Attribute) and isinstance(e.value, ast.Name) and e.value.id == 'options':
                return e.attr
            return '?'
        bound = {}
        for i, e in enumerate(call.args):
            assert not isinstance(e, ast.Starred)
            if i < len(params):
                bound[params[i]] = attr(e)
        for kw in call.keywords:
            assert kw.arg is not None and kw.arg not in bound
            bound[kw.arg] = attr(kw.value)
        assert len(call.args) <= len(params) and set(bound) <= set(params), (bound, params)
        return [bound.get(p, '?') for p in params]
    emit('MAIN_BINDING', 'strlist', main_binding)

    # ---- small functions the model mirrors, as normalised text (pinned in Props/C18) ----
    emit('EMPACKAGE_SRC', 'str', lambda: ast.unparse(h.func(ssh(), 'empackage')))
    emit('GET_MODULE_SOURCE_SRC', 'str', lambda: ast.unparse(h.func(ssh(), 'get_module_source')))

    def source_open_mode():
        f = h.func(ssh(), 'get_module_source')
        c = one([ast.unparse(c) for c in h.calls(f, lambda c: h.callname(c) == 'open')], 'open()')
        c = ast.parse(c).body[0].value
        mode = ast.literal_eval(c.args[1]) if len(c.args) > 1 else 'r'
        for kw in c.keywords:
            if kw.arg == 'mode':
                mode = ast.literal_eval(kw.value)
        return mode
    emit('SOURCE_BINARY', 'bool', lambda: 'b' in source_open_mode())
    emit('SOURCE_OPEN_MODE', 'str', source_open_mode)

    def asm_loop():
        asm = h.parse('sshuttle/assembler.py')
        loops = [n for n in asm.body if isinstance(n, ast.While)]
        assert len(loops) == 1
        return ast.unparse(loops[0])
    emit('ASSEMBLER_LOOP_SRC', 'str', asm_loop)

    def asm_decompressor():
        asm = h.parse('sshuttle/assembler.py')
        before = []
        for n in asm.body:
            if isinstance(n, ast.While):
                break
            before.append(n)
        mk = [n for n in before if isinstance(n, ast.Assign) and isinstance(n.value, ast.Call)
              and h.callname(n.value) == 'decompressobj'
              and isinstance(n.targets[0], ast.Name) and n.targets[0].id == 'z']
        loop = [n for n in asm.body if isinstance(n, ast.While)][0]
        inside = h.calls(loop, lambda c: h.callname(c) == 'decompressobj')
        return len(mk) == 1 and not inside
    emit('SHARED_DECOMPRESSOR', 'bool', asm_decompressor)

    def asm_imports():
        asm = h.parse('sshuttle/assembler.py')
        out = []
        seen_loop = False
        for n in asm.body:
            if isinstance(n, ast.While):
                seen_loop = True
            elif seen_loop and isinstance(n, ast.Import):
                out.extend(a.name for a in n.names if a.name.startswith('sshuttle'))
            elif seen_loop and isinstance(n, ast.ImportFrom) and (n.module or '').startswith('sshuttle'):
                out.append(n.module)
        return out
    emit('ASSEMBLER_IMPORTS', 'strlist', asm_imports)
    emit('ASSEMBLER_IMPORTS_BYTES', 'byteslist', asm_imports)

    def pyscript_reads():
        f = h.func(ssh(), 'connect')
        a = list(assign_in(f, 'pyscript'))[0].value
        s = one([s for s in h.strs_in(a) if isinstance(s, str) and 'stdin.read' in s], 'pyscript')
        assert isinstance(a, ast.BinOp) and isinstance(a.op, ast.Mod)
        tup = a.right
        second = ast.unparse(tup.elts[1])
        i = s.index('stdin.read(')
        nth = s[:i].count('%')      # the %d inside stdin.read(...) is the nth conversion
        assert s[i:].startswith('stdin.read(%d)') and nth == 1 and second == 'len(content)', (nth, second)
        assert "os.fdopen(0, 'rb')" in s
        return True
    emit('PYSCRIPT_READS_LEN_CONTENT', 'bool', pyscript_reads)

    # ---- ordering relative to the handshake ---------------------------------------------
    def mux_init_only_queues():
        ssnet = h.parse('sshuttle/ssnet.py')
        f = h.func(ssnet, 'Mux.__init__')
        names = [h.callname(c) for c in h.calls(f, lambda c: True)]
        snd = h.func(ssnet, 'Mux.send')
        snames = [h.callname(c) for c in h.calls(snd, lambda c: True)]
        return 'flush' not in names and 'write' not in names and 'flush' not in snames and 'write' not in snames
    emit('MUX_INIT_ONLY_QUEUES', 'bool', mux_init_only_queues)

    def main_order():
        """order of the interesting calls in client._main up to the main loop"""
        client = h.parse('sshuttle/client.py')
        f = h.func(client, '_main')
        evs = []
        for n in f.body:
            if isinstance(n, (ast.FunctionDef,)):
                continue
            for c in h.calls(n, lambda c: True):
                nm = h.callname(c)
                if nm in ('connect', 'Mux', 'read', 'runonce', 'flush', 'write', 'callback', 'handle'):
                    if nm == 'flush' and isinstance(c.func, ast.Attribute) and \
                            isinstance(c.func.value, ast.Attribute) and c.func.value.attr == 'stdout':
                        continue
                    if nm == 'write' and 'sys.std' in ast.unparse(c.func):
                        continue
                    evs.append((c.lineno, c.col_offset, nm))
        evs.sort()
        out = []
        for _l, _c, nm in evs:
            if not out or out[-1] != nm:
                out.append(nm)
        return out
    emit('CLIENT_MAIN_ORDER', 'strlist', main_order)

    def server_sync_first():
        """server.main writes the sync string before it creates its Mux / FileIO"""
        server = h.parse('sshuttle/server.py')
        f = h.func(server, 'main')
        sync = min(c.lineno for c in h.calls(f, lambda c: h.callname(c) == 'write') if 'SSHUTTLE' in ast.unparse(c))
        others = [c.lineno for c in h.calls(f, lambda c: h.callname(c) in ('Mux', 'FileIO', 'send'))]
        return all(sync < o for o in others)
    emit('SERVER_SYNC_FIRST', 'bool', server_sync_first)
