"""Parameters of the C15 model, re-read from the working tree on every run (stdlib ast only).

Values: the feature table of every method, the key list of assert_features, the argparse
--method choices, the manual's documented --method list, get_auto_method's candidates, the two
port-search ranges, the default listen addresses, the widths of the automatic excludes.
Structural facts (each a Bool the model branches on, each a decide-checked side condition of the
theorems): whether `used_ports` is bound on every path into the redirector search, whether the
IPv4 automatic exclude is guarded against a missing IPv4 listen address, whether the DNS search
skips the redirector ports, whether the DNS `bound` check precedes the use of `dns_listener`.
"""
import ast
import ipaddress
import re

FEAT_KEYS = ['loopback_proxy_port', 'ipv4', 'ipv6', 'udp', 'dns', 'user', 'group']
METHODS = ['nat', 'nft', 'tproxy', 'pf', 'ipfw']

TYPES = '''
/-- The attributes of a `Features` object (methods/__init__.py). -/
inductive FeatKey
  | loopback_proxy_port | ipv4 | ipv6 | udp | dns | user | group
  deriving DecidableEq, Repr

structure Features where
  loopback_proxy_port : Bool
  ipv4 : Bool
  ipv6 : Bool
  udp : Bool
  dns : Bool
  user : Bool
  group : Bool
  deriving DecidableEq, Repr

def Features.get (f : Features) : FeatKey → Bool
  | .loopback_proxy_port => f.loopback_proxy_port
  | .ipv4 => f.ipv4
  | .ipv6 => f.ipv6
  | .udp => f.udp
  | .dns => f.dns
  | .user => f.user
  | .group => f.group
'''


def names_in(node):
    return {n.id for n in ast.walk(node) if isinstance(n, ast.Name)}


def definitely_assigns(stmts, name):
    """Conservative: is `name` assigned on every path through this statement list?"""
    for s in stmts:
        if isinstance(s, ast.Assign) and any(isinstance(t, ast.Name) and t.id == name for t in s.targets):
            return True
        if isinstance(s, ast.If) and s.orelse and definitely_assigns(s.body, name) and \
                definitely_assigns(s.orelse, name):
            return True
    return False


def generate(g, h):
    client = h.parse('sshuttle/client.py')
    methods_init = h.parse('sshuttle/methods/__init__.py')
    options = h.parse('sshuttle/options.py')
    main = h.func(client, 'main')

    g.raw(TYPES)

    # ---- feature tables
    def base_features():
        f = h.func(methods_init, 'BaseMethod.get_supported_features')
        out = {}
        for n in ast.walk(f):
            if isinstance(n, ast.Assign) and isinstance(n.targets[0], ast.Attribute) and \
                    isinstance(n.value, ast.Constant) and isinstance(n.value.value, bool):
                out[n.targets[0].attr] = n.value.value
        return out

    def table(m):
        base = dict(base_features())
        if m != 'base':
            tree = h.parse('sshuttle/methods/%s.py' % m)
            try:
                base.update(h.features_of(tree))
            except KeyError:
                pass
        if sorted(base) != sorted(FEAT_KEYS):
            raise ValueError('feature attributes changed: %r' % sorted(base))
        return base

    def lean_table(m):
        t = table(m)
        return '{ ' + ', '.join('%s := %s' % (k, 'true' if t[k] else 'false') for k in FEAT_KEYS) + ' }'

    ok_methods = []
    for m in METHODS:
        try:
            g.raw('def FEAT_%s : Features := %s' % (m, lean_table(m)))
            ok_methods.append(m)
        except Exception as e:  # noqa
            g.problems.append(('FEAT_' + m, repr(e)))
            g.raw('-- MISSING FEAT_%s: %r' % (m, e))
    g.raw('def METHOD_TABLE : List (String × Features) := [%s]'
          % ', '.join('("%s", FEAT_%s)' % (m, m) for m in ok_methods))

    # ---- assert_features key list
    def assert_keys():
        f = h.func(methods_init, 'BaseMethod.assert_features')
        for n in ast.walk(f):
            if isinstance(n, ast.For) and isinstance(n.iter, (ast.List, ast.Tuple)):
                ks = [ast.literal_eval(e) for e in n.iter.elts]
                for k in ks:
                    if k not in FEAT_KEYS:
                        raise ValueError('unknown feature key %r' % k)
                return ks
        raise KeyError('for key in [...]')
    try:
        g.raw('def ASSERT_KEYS : List FeatKey := [%s]' % ', '.join('.' + k for k in assert_keys()))
    except Exception as e:  # noqa
        g.problems.append(('ASSERT_KEYS', repr(e)))
        g.raw('-- MISSING ASSERT_KEYS: %r' % (e,))

    # ---- attributes client.main sets on `required` (anything else read by assert_features raises)
    def required_attrs():
        out = []
        for n in ast.walk(main):
            if isinstance(n, ast.Assign) and isinstance(n.targets[0], ast.Attribute) and \
                    isinstance(n.targets[0].value, ast.Name) and n.targets[0].value.id == 'required':
                if n.targets[0].attr not in out:
                    out.append(n.targets[0].attr)
        for k in out:
            if k not in FEAT_KEYS:
                raise ValueError(k)
        return out
    try:
        g.raw('def REQUIRED_ATTRS : List FeatKey := [%s]' % ', '.join('.' + k for k in required_attrs()))
    except Exception as e:  # noqa
        g.problems.append(('REQUIRED_ATTRS', repr(e)))

    # ---- option parser / manual / auto candidates
    def method_choices():
        for c in h.calls(options, lambda c: h.callname(c) == 'add_argument'):
            if c.args and isinstance(c.args[0], ast.Constant) and c.args[0].value == '--method':
                for kw in c.keywords:
                    if kw.arg == 'choices':
                        if isinstance(kw.value, ast.Name):
                            vals = [n.value for n in ast.walk(options)
                                    if isinstance(n, ast.Assign) and isinstance(n.targets[0], ast.Name)
                                    and n.targets[0].id == kw.value.id]
                            return [ast.literal_eval(e) for e in vals[-1].elts]   # non-Windows branch
                        return [ast.literal_eval(e) for e in kw.value.elts]
        raise KeyError('--method choices')
    g.strlist('METHOD_CHOICES', method_choices)

    def method_default():
        for c in h.calls(options, lambda c: h.callname(c) == 'add_argument'):
            if c.args and isinstance(c.args[0], ast.Constant) and c.args[0].value == '--method':
                for kw in c.keywords:
                    if kw.arg == 'default':
                        return ast.literal_eval(kw.value)
        raise KeyError('--method default')
    g.string('METHOD_DEFAULT', method_default)

    def doc_methods():
        import os
        with open(os.path.join(h.REPO, 'docs', 'manpage.rst'), encoding='utf-8') as f:
            txt = f.read()
        m = re.search(r'^\.\. option:: --method <([^>]+)>', txt, re.M)
        if not m:
            raise KeyError('manpage --method')
        return m.group(1).split('|')
    g.strlist('DOC_METHODS', doc_methods)

    def auto_methods():
        f = h.func(methods_init, 'get_auto_method')
        for n in ast.walk(f):
            if isinstance(n, ast.Assign) and isinstance(n.targets[0], ast.Name) and n.targets[0].id == 'methods_to_try':
                v = n.value
                if isinstance(v, ast.IfExp):
                    v = v.body
                return [ast.literal_eval(e) for e in v.elts]
        raise KeyError('methods_to_try')
    g.strlist('AUTO_METHODS', auto_methods)

    # ---- the two `for port in ports` loops
    loops = [n for n in ast.walk(main) if isinstance(n, ast.For) and isinstance(n.target, ast.Name)
             and n.target.id == 'port']

    def rng_before(loop_idx):
        """range(a, b, -1) assigned to `ports` that reaches loop number loop_idx."""
        rs = []
        for n in ast.walk(main):
            if isinstance(n, ast.Assign) and isinstance(n.targets[0], ast.Name) and n.targets[0].id == 'ports' \
                    and isinstance(n.value, ast.Call) and h.callname(n.value) == 'range' and \
                    n.lineno < loops[loop_idx].lineno:
                rs.append(n)
        a = [ast.literal_eval(x) for x in rs[-1].value.args]
        if len(a) != 3 or a[2] != -1:
            raise ValueError(a)
        return a
    g.nat('TCP_PORT_START', lambda: rng_before(0)[0])
    g.nat('TCP_PORT_STOP', lambda: rng_before(0)[1])
    g.nat('DNS_PORT_START', lambda: rng_before(1)[0])
    g.nat('DNS_PORT_STOP', lambda: rng_before(1)[1])

    def fixed_ports():
        for n in ast.walk(main):
            if isinstance(n, ast.Assign) and isinstance(n.targets[0], ast.Name) and n.targets[0].id == 'ports' \
                    and isinstance(n.value, ast.List):
                return [ast.literal_eval(e) for e in n.value.elts]
        raise KeyError('ports = [0, ]')
    g.natlist('BOTH_EXPLICIT_PORTS', fixed_ports)

    # ---- default listen addresses and exclude widths
    def default_ip(var, which):
        for n in ast.walk(main):
            if isinstance(n, ast.Assign) and isinstance(n.targets[0], ast.Name) and n.targets[0].id == var \
                    and isinstance(n.value, ast.Tuple) and isinstance(n.value.elts[0], ast.IfExp):
                ie = n.value.elts[0]
                if 'loopback_proxy_port' not in ast.dump(ie.test):
                    raise ValueError('default address no longer chosen by loopback_proxy_port')
                if ast.literal_eval(n.value.elts[1]) != 0:
                    raise ValueError('default port is not 0')
                return int(ipaddress.ip_address(ast.literal_eval(ie.body if which == 'loop' else ie.orelse)))
        raise KeyError(var)
    g.nat('LOOP4', lambda: default_ip('listenip_v4', 'loop'))
    g.nat('ANY4', lambda: default_ip('listenip_v4', 'any'))
    g.nat('LOOP6', lambda: default_ip('listenip_v6', 'loop'))
    g.nat('ANY6', lambda: default_ip('listenip_v6', 'any'))

    def exclude_ifs():
        """The two `if …: subnets_exclude.append((socket.AF_…, listenip_v?[0], W, 0, 0))`."""
        out = {}
        for n in ast.walk(main):
            if isinstance(n, ast.If) and len(n.body) == 1 and isinstance(n.body[0], ast.Expr) and \
                    isinstance(n.body[0].value, ast.Call) and h.callname(n.body[0].value) == 'append' and \
                    isinstance(n.body[0].value.func.value, ast.Name) and \
                    n.body[0].value.func.value.id == 'subnets_exclude':
                t = n.body[0].value.args[0]
                fam = t.elts[0].attr
                out[fam] = (n, t)
        return out

    def excl_width(fam):
        n, t = exclude_ifs()[fam]
        tail = [ast.literal_eval(e) for e in t.elts[2:]]
        if tail[1:] != [0, 0]:
            raise ValueError(tail)
        return tail[0]
    g.nat('EXCL_WIDTH4', lambda: excl_width('AF_INET'))
    g.nat('EXCL_WIDTH6', lambda: excl_width('AF_INET6'))

    # ---- structural facts
    def used_ports_always_bound():
        body = main.body
        idx = next(i for i, s in enumerate(body) if s is loops[0])
        return definitely_assigns(body[:idx], 'used_ports')
    g.boolean('USED_PORTS_ALWAYS_BOUND', used_ports_always_bound)

    def v4_exclude_guarded():
        n, _t = exclude_ifs()['AF_INET']
        test = n.test
        if not isinstance(test, ast.BoolOp) or not isinstance(test.op, ast.And):
            raise ValueError('unexpected shape of the IPv4 exclude condition')
        for v in test.values:
            if isinstance(v, ast.Name) and v.id == 'listenip_v4':
                return True
            if isinstance(v, ast.Compare) and isinstance(v.left, ast.Name) and v.left.id == 'listenip_v4' \
                    and isinstance(v.ops[0], ast.IsNot):
                return True
        return False
    g.boolean('V4_EXCLUDE_GUARDED', v4_exclude_guarded)

    def dns_guard():
        """The `if …: continue` at the top of the DNS search loop."""
        first = loops[1].body[0]
        if isinstance(first, ast.Expr):       # debug2(...)
            first = loops[1].body[1]
        if not (isinstance(first, ast.If) and isinstance(first.body[0], ast.Continue)):
            raise ValueError('DNS loop does not start with a skip guard')
        return first.test

    def dns_skips_used():
        return 'used_ports' in names_in(dns_guard())
    g.boolean('DNS_SEARCH_SKIPS_USED_PORTS', dns_skips_used)

    def dns_skips_redirect():
        ns = names_in(dns_guard())
        return 'redirectport_v4' in ns and 'redirectport_v6' in ns
    g.boolean('DNS_SEARCH_SKIPS_REDIRECT_PORTS', dns_skips_redirect)

    def family_by_colon():
        """helpers.family_ip_tuple: `if ':' in ip: return (AF_INET6, ip) else: return (AF_INET, ip)`."""
        helpers_tree = h.parse('sshuttle/helpers.py')
        f = h.func(helpers_tree, 'family_ip_tuple')
        st = [x for x in f.body if not (isinstance(x, ast.Expr) and isinstance(x.value, ast.Constant))]
        if len(st) != 1 or not isinstance(st[0], ast.If):
            return False
        t = st[0].test
        if not (isinstance(t, ast.Compare) and isinstance(t.left, ast.Constant) and t.left.value == ':' and
                len(t.ops) == 1 and isinstance(t.ops[0], ast.In) and isinstance(t.comparators[0], ast.Name)):
            return False

        def fam_of(stmts):
            if len(stmts) == 1 and isinstance(stmts[0], ast.Return) and isinstance(stmts[0].value, ast.Tuple):
                e = stmts[0].value.elts[0]
                return e.attr if isinstance(e, ast.Attribute) else None
            return None
        return fam_of(st[0].body) == 'AF_INET6' and fam_of(st[0].orelse) == 'AF_INET'
    g.boolean('FAMILY_IP_TUPLE_BY_COLON', family_by_colon)

    def dns_check_before_print():
        parent = None
        for n in ast.walk(main):
            if isinstance(n, ast.If) and loops[1] in n.body:
                parent = n
        body = parent.body
        i_print = next(i for i, s in enumerate(body) if isinstance(s, ast.Expr) and isinstance(s.value, ast.Call)
                       and h.callname(s.value) == 'print_listening')
        i_check = next(i for i, s in enumerate(body) if isinstance(s, ast.If) and 'bound' in names_in(s.test))
        return i_check < i_print
    g.boolean('DNS_BOUND_CHECK_BEFORE_PRINT', dns_check_before_print)
