"""Parameters of the host-name pipeline (C19), re-read from the working tree.

Writes lean/SshuttleModel/Gen/C19.lean.  A value that cannot be found is emitted as a comment
only (the Lean build of C19 then fails = broken proof obligation); it is never reported as a
problem of the shared extractor, so other properties' checks are not affected.
"""
import ast
import os
import re


def generate(g, h):
    parse = h.parse

    def safe(name, kind, fn):
        try:
            v = fn()
            if kind == 'nat':
                assert isinstance(v, int) and v >= 0
                g.raw('def %s : Nat := %d' % (name, v))
            elif kind == 'bool':
                g.raw('def %s : Bool := %s' % (name, 'true' if v else 'false'))
            elif kind == 'str':
                if isinstance(v, bytes):
                    v = v.decode('latin-1')
                g.raw('def %s : String := %s' % (name, h.lean_str(v)))
            elif kind == 'strlist':
                v = [x.decode('latin-1') if isinstance(x, bytes) else x for x in v]
                g.raw('def %s : List String := [%s]' % (name, ', '.join(h.lean_str(x) for x in v)))
        except Exception as e:  # noqa
            g.raw('-- MISSING %s: %r' % (name, e))

    def client_const(name):
        v = ast.literal_eval(h.const_assign(parse('sshuttle/client.py'), name))
        return v

    safe('CLIENT_HOSTNAME_RE', 'str', lambda: client_const('HOSTNAME_RE'))
    safe('CLIENT_HOSTIP_RE', 'str', lambda: client_const('HOSTIP_RE'))

    def name_max():
        m = re.search(rb'\{1,(\d+)\}', client_const('HOSTNAME_RE'))
        return int(m.group(1))
    safe('NAME_MAX', 'nat', name_max)

    def onhostlist_strs():
        f = h.func(parse('sshuttle/client.py'), '_main.onhostlist')
        return [s for s in h.strs_in(f) if isinstance(s, bytes)] + \
            sorted(set(h.callname(c) for c in h.calls(f, lambda c: True) if h.callname(c) in
                       ('strip', 'split', 'partition', 'match', 'sethostip')))
    safe('ONHOSTLIST', 'strlist', onhostlist_strs)

    def hw(fn):
        return h.func(parse('sshuttle/hostwatch.py'), fn)

    safe('REPRESENTABLE_RES', 'strlist', lambda: [s for s in h.strs_in(hw('_representable'))
                                                  if isinstance(s, str) and '[' in s])

    def found_host_parts():
        f = hw('found_host')
        out = []
        for c in h.calls(f, lambda c: h.callname(c) == 'sub'):
            out.append(' '.join([repr(a.value) for a in c.args if isinstance(a, ast.Constant)] +
                                ['%s=%s' % (k.arg, ast.unparse(k.value)) for k in c.keywords]))
        out += [s for s in h.strs_in(f) if isinstance(s, str) and s in ('127.', '255.', 'localhost', '%s,%s\n')]
        return out
    safe('FOUND_HOST', 'strlist', found_host_parts)
    safe('OPEN_ERRORS_REPLACE', 'bool', lambda: all(
        any(k.arg == 'errors' and getattr(k.value, 'value', None) == 'replace' for k in c.keywords)
        for fn in ('read_host_cache', '_check_etc_hosts')
        for c in h.calls(hw(fn), lambda c: h.callname(c) == 'open')))

    def rewrite_strs():
        f = h.func(parse('sshuttle/firewall.py'), 'rewrite_etc_hosts')
        return [s for s in h.strs_in(f) if isinstance(s, str) and '%' in s and 'Warning' not in s]
    safe('REWRITE_FORMATS', 'strlist', rewrite_strs)

    def pad():
        for s in rewrite_strs():
            m = re.match(r'%-(\d+)s %s\n$', s)
            if m:
                return int(m.group(1))
        raise KeyError('%-NNs')
    safe('HOSTS_PAD', 'nat', pad)

    def ready_parts():
        f = h.func(parse('sshuttle/server.py'), 'main.hostwatch_ready')
        return [ast.unparse(n) for n in f.body]
    safe('HOSTWATCH_READY', 'strlist', ready_parts)
