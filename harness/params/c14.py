"""Generated parameters for C14 (-> lean/SshuttleModel/Gen/C14.lean, namespace Sshuttle.Gen.C14).

Re-read from `sshuttle/firewall.py` (function `rewrite_etc_hosts`) with `ast` on every run:
the marker format (split at its single `%d`), the backup / temporary name formats, the
host-line format and its pad width, the kept-line format, the default owner/mode, and the
string methods applied to the old content.  The white-space table of `str.isspace` is taken
from the running CPython (it is part of the modelled environment).  `Code/Hosts.lean` *uses*
the values; the shapes the model was written for are pinned there with `example … := by decide`.
"""
import ast
import re


def _fmts(h, f):
    """All `const % args` with a constant str left operand, in source order: (fmt, node)."""
    out = []
    for n in ast.walk(f):
        if isinstance(n, ast.BinOp) and isinstance(n.op, ast.Mod) and isinstance(n.left, ast.Constant) \
                and isinstance(n.left.value, str):
            out.append(n)
    out.sort(key=lambda n: (n.lineno, n.col_offset))
    return out


def _one(xs, what):
    xs = list(xs)
    if len(xs) != 1:
        raise ValueError('%s: expected exactly one, got %r' % (what, xs))
    return xs[0]


def _assigned(f, name):
    return _one([n.value for n in ast.walk(f) if isinstance(n, ast.Assign) and len(n.targets) == 1
                 and isinstance(n.targets[0], ast.Name) and n.targets[0].id == name], name)


def _cps(s):
    return [ord(c) for c in s]


def generate(g, h):
    fw = h.parse('sshuttle/firewall.py')
    f = h.func(fw, 'rewrite_etc_hosts')

    def marker():
        v = _assigned(f, 'APPEND')
        assert isinstance(v, ast.BinOp) and isinstance(v.left, ast.Constant), ast.dump(v)
        assert isinstance(v.right, ast.Name) and v.right.id == 'port', 'marker is not formatted from port'
        return v.left.value

    def marker_parts():
        parts = marker().split('%d')
        if len(parts) != 2 or '%' in parts[0] + parts[1]:
            raise ValueError('marker format is not <text>%%d<text>: %r' % marker())
        return parts

    g.string('MARK_FMT', marker)
    g.natlist('MARK_PRE', lambda: _cps(marker_parts()[0]))
    g.natlist('MARK_SUF', lambda: _cps(marker_parts()[1]))

    def bak_fmt():
        v = _assigned(f, 'BAKFILE')
        assert isinstance(v.right, ast.Name) and v.right.id == 'HOSTSFILE'
        return v.left.value
    g.string('BAK_FMT', bak_fmt)

    def tmp_fmt():
        v = _assigned(f, 'tmpname')
        assert [e.id for e in v.right.elts] == ['HOSTSFILE', 'port'], ast.dump(v.right)
        return v.left.value
    g.string('TMP_FMT', tmp_fmt)

    def write_fmts():
        """formats of the f.write(...) calls in source order, with the unparsed argument tuple"""
        out = []
        cs = h.calls(f, lambda c: h.callname(c) == 'write')
        cs.sort(key=lambda c: (c.lineno, c.col_offset))
        for c in cs:
            a = c.args[0]
            assert isinstance(a, ast.BinOp) and isinstance(a.left, ast.Constant), ast.dump(a)
            out.append((a.left.value, ast.unparse(a.right)))
        return out

    g.string('KEPT_FMT', lambda: write_fmts()[0][0])
    g.string('KEPT_ARG', lambda: write_fmts()[0][1])
    g.string('HOST_FMT', lambda: write_fmts()[1][0])
    g.string('HOST_ARG', lambda: write_fmts()[1][1])
    g.nat('N_WRITE_SITES', lambda: len(write_fmts()))

    def pad_width():
        m = re.match(r'^%-(\d+)s', write_fmts()[1][0])
        if not m:
            raise ValueError('host line format does not start with %%-<n>s: %r' % write_fmts()[1][0])
        return int(m.group(1))
    g.nat('PAD_WIDTH', pad_width)

    def loops():
        fs = [n for n in ast.walk(f) if isinstance(n, ast.For)]
        fs.sort(key=lambda n: n.lineno)
        return [ast.unparse(n.iter) for n in fs]
    g.strlist('LOOP_ITERS', loops)

    def tests():
        ifs = [n for n in ast.walk(f) if isinstance(n, ast.If)]
        ifs.sort(key=lambda n: n.lineno)
        return [ast.unparse(n.test) for n in ifs]
    g.strlist('IF_TESTS', tests)

    def read_expr():
        return ast.unparse(_one([n.value for n in ast.walk(f) if isinstance(n, ast.Assign)
                                 and isinstance(n.targets[0], ast.Name) and n.targets[0].id == 'old_content'
                                 and not isinstance(n.value, ast.Constant)], 'old_content = ...'))
    g.string('READ_EXPR', read_expr)

    def default_perm():
        cs = h.calls(f, lambda c: h.callname(c) in ('chown', 'chmod'))
        cs.sort(key=lambda c: (c.lineno, c.col_offset))
        consts = [[a.value for a in c.args[1:] if isinstance(a, ast.Constant)] for c in cs]
        consts = [c for c in consts if c]
        # [[0, 0], [0o644]] : the `st is None` branch
        return consts
    g.nat('DEFAULT_UID', lambda: default_perm()[0][0])
    g.nat('DEFAULT_GID', lambda: default_perm()[0][1])
    g.nat('DEFAULT_MODE', lambda: default_perm()[1][0])

    def os_calls():
        out = []
        for c in h.calls(f, lambda c: isinstance(c.func, ast.Attribute)):
            src = ast.unparse(c.func)
            if src.startswith(('os.', 'shutil.')) or src == 'open':
                out.append((c.lineno, c.col_offset, src))
        for c in h.calls(f, lambda c: isinstance(c.func, ast.Name) and c.func.id == 'open'):
            out.append((c.lineno, c.col_offset, 'open:' + ast.unparse(c.args[0]) +
                        (':' + ast.unparse(c.args[1]) if len(c.args) > 1 else '')))
        out.sort()
        return [s for _l, _c, s in out]
    g.strlist('FS_CALLS', os_calls)

    def restore_src():
        r = h.func(fw, 'restore_etc_hosts')
        body = [n for n in r.body if not (isinstance(n, ast.Expr) and isinstance(n.value, ast.Constant))]
        return ast.unparse(body)
    g.string('RESTORE_BODY', restore_src)

    def space_ranges():
        cps = [c for c in range(0x110000) if chr(c).isspace()]
        rs = []
        for c in cps:
            if rs and rs[-1][1] == c - 1:
                rs[-1][1] = c
            else:
                rs.append([c, c])
        return rs
    try:
        rs = space_ranges()
        g.raw('/-- `str.isspace` of the running CPython, as inclusive code-point ranges. -/')
        g.raw('def SPACE_RANGES : List (Nat × Nat) := [%s]' % ', '.join('(%d, %d)' % (a, b) for a, b in rs))
    except Exception as e:  # noqa
        g.problems.append(('SPACE_RANGES', repr(e)))
