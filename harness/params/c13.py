"""Parameters of the client/helper dialogue (C13), re-read from the working tree.

Writes lean/SshuttleModel/Gen/C13.lean.  A value that cannot be found is emitted as a comment
only (the Lean build of C13 then fails = broken proof obligation); it is never reported as a
problem of the shared extractor, so other properties' checks are not affected.
"""
import ast


def generate(g, h):
    def safe(name, kind, fn):
        try:
            v = fn()
            if kind == 'nat':
                assert isinstance(v, int) and v >= 0
                g.raw('def %s : Nat := %d' % (name, v))
            elif kind == 'bool':
                g.raw('def %s : Bool := %s' % (name, 'true' if v else 'false'))
            elif kind == 'str':
                if isinstance(v, bytes):
                    v = v.decode('latin-1')
                g.raw('def %s : String := %s' % (name, h.lean_str(v)))
            elif kind == 'strlist':
                v = [x.decode('latin-1') if isinstance(x, bytes) else x for x in v]
                g.raw('def %s : List String := [%s]' % (name, ', '.join(h.lean_str(x) for x in v)))
            elif kind == 'natlist':
                g.raw('def %s : List Nat := [%s]' % (name, ', '.join(str(int(x)) for x in v)))
        except Exception as e:  # noqa
            g.raw('-- MISSING %s: %r' % (name, e))

    parse = h.parse

    def trees():
        return parse('sshuttle/firewall.py'), parse('sshuttle/client.py')

    def fw_main():
        return h.func(trees()[0], 'main')

    def one(xs, what):
        xs = sorted(set(xs))
        if len(xs) != 1:
            raise ValueError('%s: %r' % (what, xs))
        return xs[0]

    safe('READLINE_MAX', 'nat', lambda: one(
        [h.int_of(c.args[0]) for c in h.calls(fw_main(), lambda c: h.callname(c) == 'readline' and c.args)],
        'readline(n)'))

    def joins():
        f = h.func(trees()[0], 'main._read_next_string_line')
        # the repaired helper re-joins the pieces `readline(n)` hands out for a long line
        for n in ast.walk(f):
            if isinstance(n, ast.While):
                src = ast.dump(n)
                if 'endswith' in src and 'readline' in src:
                    return True
        return False
    safe('HELPER_JOINS_PIECES', 'bool', joins)

    def read_error_drops_line():
        """A failed stdin read makes _read_next_string_line return None for the WHOLE line: the
        `try/except IOError` encloses the re-joining loop and there is no handler inside the loop."""
        f = h.func(trees()[0], 'main._read_next_string_line')
        ok = False
        for n in ast.walk(f):
            if isinstance(n, ast.Try):
                has_loop = any(isinstance(x, ast.While) for b in n.body for x in ast.walk(b))
                returns_none = all(any(isinstance(x, ast.Return) and x.value is None for x in ast.walk(hd))
                                   for hd in n.handlers)
                ok = ok or (has_loop and returns_none)
            if isinstance(n, ast.While) and any(isinstance(x, ast.Try) for x in ast.walk(n)):
                return False
        return ok
    safe('READ_ERROR_DROPS_LINE', 'bool', read_error_drops_line)

    def drops_unfinished():
        """At end of input inside a line (`if not piece:` in the loop): `return` gives the unfinished
        line up, `break` hands it out as if it were a line."""
        f = h.func(trees()[0], 'main._read_next_string_line')
        for n in ast.walk(f):
            if isinstance(n, ast.While):
                for x in ast.walk(n):
                    if isinstance(x, ast.If) and 'piece' in ast.dump(x.test):
                        kinds = [type(y).__name__ for b in x.body for y in ast.walk(b) if isinstance(y, (ast.Return, ast.Break))]
                        if kinds == ['Return']:
                            return True
                        if kinds == ['Break']:
                            return False
        raise KeyError('if not piece')
    safe('HELPER_DROPS_UNFINISHED_LINE', 'bool', drops_unfinished)

    def splits(sep):
        out = []
        for c in h.calls(fw_main(), lambda c: h.callname(c) == 'split' and len(c.args) == 2):
            if isinstance(c.args[0], ast.Constant) and c.args[0].value == sep:
                out.append((c.lineno, h.int_of(c.args[1])))
        return [v for _l, v in sorted(out)]
    safe('COMMA_MAXSPLITS', 'natlist', lambda: splits(','))
    safe('ROUTE_MAXSPLIT', 'nat', lambda: splits(',')[0])
    safe('NS_MAXSPLIT', 'nat', lambda: splits(',')[1])
    safe('HOST_MAXSPLIT', 'nat', lambda: splits(',')[2])
    safe('GO_MAXSPLIT', 'nat', lambda: one(splits(' '), 'split(" ", n)'))
    safe('HELPER_STRS', 'strlist', lambda: [
        s for s in h.strs_in(fw_main()) if isinstance(s, str) and
        s in ('ROUTES', 'NSLIST', 'PORTS ', 'GO ', 'HOST ', '-', 'ASCII', ',', ' ')][:40])

    def start_fmts():
        f = h.func(trees()[1], 'FirewallClient.start')
        return [s for s in h.strs_in(f) if isinstance(s, bytes)]
    safe('START_BYTES', 'strlist', start_fmts)

    def sethostip_strs():
        f = h.func(trees()[1], 'FirewallClient.sethostip')
        return [s for s in h.strs_in(f) if isinstance(s, bytes)]
    safe('SETHOSTIP_BYTES', 'strlist', sethostip_strs)

    def port_asserts():
        out = []
        for n in ast.walk(fw_main()):
            if isinstance(n, ast.Assert) and isinstance(n.test, ast.Compare):
                out.extend(h.ints_in(n.test))
        return sorted(set(out))
    safe('PORT_ASSERT_BOUNDS', 'natlist', port_asserts)
