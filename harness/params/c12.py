"""Parameters of the C12 model (`Code/ClientMain.lean`), re-read from the working tree on every run.

Besides constants, the *source text* of the few statements whose order is the property
(the tail of `client.main`, `serverready`, the end of `onroutes`, `check_ssh_alive`, the main
loop, `FirewallClient.done`, the confirmation part of `FirewallClient.start`, the order of the
start-up checks in `_main`, the ROUTES branch of `Mux.got_packet`) is emitted in normalised form (`ast.unparse`); the model pins each
one with `example : Gen.C12.X = "…" := rfl`, so that an edit of those statements breaks a proof
obligation instead of going unnoticed.  Only the property-critical statements are pinned; the
rest of the model (host list parsing, auto-nets parsing, Mux.fill/callback, runonce, onaccept_tcp)
is tied to the code by the correspondence run alone.
"""
import ast
import errno


def generate(g, h):
    client = h.parse('sshuttle/client.py')
    ssnet = h.parse('sshuttle/ssnet.py')

    g.nat('ECONNRESET', lambda: errno.ECONNRESET)
    g.nat('ESRCH', lambda: errno.ESRCH)

    main = h.func(client, 'main')
    _main = h.func(client, '_main')

    def unparse(node):
        return ast.unparse(node)

    def stmts(nodes):
        return '\n'.join(unparse(n) for n in nodes)

    def strip_calls(nodes, names=('debug1', 'debug2', 'debug3', 'log')):
        """Drop pure logging statements."""
        out = []
        for n in nodes:
            if isinstance(n, ast.Expr) and isinstance(n.value, ast.Call) and h.callname(n.value) in names:
                continue
            out.append(n)
        return out

    # tail of main(): the last statement must be the try/finally around _main
    g.string('MAIN_TAIL', lambda: unparse(main.body[-1]))

    g.string('SERVERREADY', lambda: stmts(h.func(_main, 'serverready').body))

    def onroutes_tail():
        f = h.func(_main, 'onroutes')
        return stmts(strip_calls(f.body[1:]))
    g.string('ONROUTES_TAIL', onroutes_tail)

    g.string('CHECK_SSH_ALIVE', lambda: stmts(h.func(_main, 'check_ssh_alive').body))

    def loop():
        for n in _main.body:
            if isinstance(n, ast.While):
                return unparse(n)
        raise KeyError('while loop of _main')
    g.string('MAIN_LOOP', loop)

    def after_handshake():
        """Everything between the handshake `try` and the definition of check_ssh_alive, with the long
        diagnosis block of `if rv is not None:` reduced to its test and its final raise."""
        out = []
        seen_try = 0
        for n in _main.body:
            if isinstance(n, ast.Try):
                seen_try += 1
                continue
            if seen_try < 2:
                continue
            if isinstance(n, ast.FunctionDef):
                out.append('def %s' % n.name)
                continue
            if isinstance(n, ast.While):
                break
            if isinstance(n, ast.If) and 'rv is not None' in unparse(n.test):
                last = n.body[-1]
                out.append('if %s: ... %s' % (unparse(n.test), unparse(last)))
                continue
            if isinstance(n, ast.Expr) and isinstance(n.value, ast.Call) and \
                    h.callname(n.value) in ('debug1', 'debug2', 'debug3', 'log'):
                continue
            out.append(unparse(n))
        return '\n'.join(out)
    g.string('AFTER_HANDSHAKE', after_handshake)

    def tries():
        out = []
        for n in _main.body:
            if isinstance(n, ast.Try):
                hs = []
                for hd in n.handlers:
                    hs.append('except %s: %s' % (unparse(hd.type), ' '.join(
                        unparse(x) for x in hd.body if not (isinstance(x, ast.Expr) and isinstance(x.value, ast.Call)
                                                               and h.callname(x.value) == 'debug3'))))
                out.append(' | '.join(hs))
        return out
    g.strlist('MAIN_EXCEPTS', tries)

    fwc = h.func(client, 'FirewallClient')
    g.string('FW_DONE', lambda: stmts(h.func(fwc, 'done').body))
    g.string('FW_CHECK', lambda: stmts(h.func(fwc, 'check').body))

    def start_tail():
        f = h.func(fwc, 'start')
        # from the flush on
        idx = None
        for i, n in enumerate(f.body):
            if isinstance(n, ast.Expr) and isinstance(n.value, ast.Call) and h.callname(n.value) == 'flush':
                idx = i
        return stmts(f.body[idx:])
    g.string('FW_START_TAIL', start_tail)

    def start_writes():
        f = h.func(fwc, 'start')
        out = []
        for c in h.calls(f, lambda c: h.callname(c) == 'write'):
            s = [x for x in h.strs_in(c) if isinstance(x, bytes)]
            out.append((s[0] if s else b'?').decode('latin-1'))
        return out
    g.strlist('FW_START_WRITES', start_writes)

    def got_packet_routes():
        f = h.func(ssnet, 'Mux.got_packet')
        for n in ast.walk(f):
            if isinstance(n, ast.If) and 'CMD_ROUTES' in unparse(n.test):
                return 'if %s:\n%s\nelse: %s' % (unparse(n.test), stmts(n.body), type(n.orelse[0]).__name__)
        raise KeyError('CMD_ROUTES branch')
    g.string('GOT_PACKET_ROUTES', got_packet_routes)

    g.string('SDNOTIFY_READY', lambda: h.strs_in(h.func(h.parse('sshuttle/sdnotify.py'), 'ready'))[-1])
    g.string('SDNOTIFY_STOP', lambda: h.strs_in(h.func(h.parse('sshuttle/sdnotify.py'), 'stop'))[-1])
