"""Rebuild /verif/MANIFEST.json from the property modules under harness/props/.
A property with no module (yet) is listed under not_applicable with that reason."""
import importlib
import json
import os
import sys

HERE = os.path.dirname(os.path.abspath(__file__))
VERIF = os.path.dirname(HERE)
sys.path.insert(0, HERE)
sys.dont_write_bytecode = True

BASELINE = ("cd /repo && /venv/bin/python -m pytest -ra -q -p no:cacheprovider --timeout=900 "
            "--continue-on-collection-errors")


def main():
    ids = []
    with open(os.path.join(VERIF, 'properties.jsonl')) as f:
        for line in f:
            if line.strip():
                ids.append(json.loads(line)['id'])
    checks = []
    na = []
    with open(os.path.join(HERE, 'registered.txt')) as f:
        registered = set(f.read().split())
    for pid in ids:
        path = os.path.join(HERE, 'props', pid.lower() + '.py')
        if pid not in registered:
            na.append(dict(property_id=pid, reason='check still being built/reviewed in this round and not yet registered '
                                                   '(the technique applies; see DESIGN.md section 2)'))
            continue
        if not os.path.exists(path):
            na.append(dict(property_id=pid, reason='check not built yet in this round (technique applies; see DESIGN.md section 2)'))
            continue
        mod = importlib.import_module('props.' + pid.lower())
        m = getattr(mod, 'MANIFEST', None)
        if not m:
            na.append(dict(property_id=pid, reason='check under construction (module exists, not yet registered)'))
            continue
        if m.get('not_applicable'):
            na.append(dict(property_id=pid, reason=m['not_applicable']))
            continue
        checks.append(dict(
            property_id=pid,
            quick_cmd='./check %s --tier quick' % pid,
            thorough_cmd='./check %s --tier thorough' % pid,
            evidence_file='/verif/evidence/%s.json' % pid,
            replay_cmd_template='./check %s --replay {path}' % pid,
            engine='lean+harness',
            level_claimed=dict(category='proof', text=m['level_text'],
                               design_ref=m.get('design_ref', 'DESIGN.md section 2, ' + pid)),
            level_note=m['level_note'],
            technique=m.get('technique', 'Lean 4 theorems over a hand-written code model + differential '
                                         'correspondence check against the real code'),
        ))
    man = dict(
        version=1,
        setup_cmd='./check --setup',
        hooks=dict(
            guard='SSHUTTLE_VERIF',
            enable='no source hooks: the harness imports /repo\'s modules in-process and substitutes fakes '
                   'at the OS boundary (sockets, pipes, subprocess, clock, files)',
            baseline_off_cmd=BASELINE,
            source_commits=[],
            add_only=True),
        engines=[
            dict(name='lean', path='lean', serves_properties=[c['property_id'] for c in checks],
                 kind_free_text='Lean 4.33 project: code models (Code/), environment models (Env/), specs (Spec/), '
                                'theorems (Props/), line-protocol drivers (Drivers/); Generated.lean and Gen/*.lean are '
                                'regenerated from /repo on every run'),
            dict(name='harness', path='harness', serves_properties=[c['property_id'] for c in checks],
                 kind_free_text='Python: parameter extractor, correspondence (differential) check driving the real '
                                'sshuttle code in-process, implementation-level oracle, replay, evidence writer'),
        ],
        checks=checks,
        notes='Every check: regenerate parameters from /repo, lake build + axiom audit of the property theorems, '
              'correspondence run real code vs Lean model, implementation oracle. Genuine defects repaired by fix: '
              'commits are listed in known_findings/*.json (status fixed) and kept as seeded regressions under seeded/.',
        not_applicable=na,
    )
    with open(os.path.join(VERIF, 'MANIFEST.json'), 'w') as f:
        json.dump(man, f, indent=1)
        f.write('\n')
    print('MANIFEST: %d checks, %d not_applicable' % (len(checks), len(na)))


if __name__ == '__main__':
    main()
