"""Scenario generator, fair drain and implementation-level oracles for the tunnel stack
(C01, C02, C08, C09).  Every scenario runs on the real code (tunnel_sim.Script); the recorded
step lines are replayed on the Lean model by the caller.
"""
import errno
import tunnel_sim as ts
from tunnel_sim import Io
from common import hexb

SIZES = [1, 5, 2047, 2048, 2049, 4096, 4097]
BIG = [65535, 65536, 65537, 100000]
RECV_OK = ['a', 'd1', 'd7', 'd2048', 'd2049', 'd65536', 'd65536']
SEND_OK = ['a', 's1', 's5', 's2048', 's65536', 's65536']
CONN_PENDING = ['e115:0', 'e114:0']
CONN_DONE = ['ok', 'ok', 'e106:0', 'e22:0']
CONN_FAIL = ['e111:0', 'e110:0', 'e113:0', 'e101:0', 'e112:0', 'e100:0', 'e103:0', 'e104:0', 'e13:0', 'e1:0',
             'e22:111']


class Opts:
    def __init__(self, **k):
        self.nflows = 2
        self.steps = 60
        self.faults = False          # inject handled errnos (C08)
        self.latency = False         # call check_fullness each round (C09)
        self.bufsize = 32768
        self.big = False
        self.closes = True
        self.foreign = False
        self.maxchan = 65535
        self.chani = 0
        self.both = False
        self.epipe = False           # an endpoint may stop receiving (send -> EPIPE) while it keeps sending
        self.verbose = None          # verbosity both processes run at (10 + v: verbosity v, stderr gone); None = rotate
        self.platform = None         # errno numbering (0 POSIX, 1 would-block = 10035 as on Windows); None = rotate
        self.clock = None            # what the clocks do during the scenario (tunnel_sim.CLOCK_PROGRAMS); None = rotate
        self.__dict__.update(k)


# errnos other platforms / stacks report for a send or receive on a dying connection (macOS: EPROTOTYPE; others:
# ENOTCONN, ENOBUFS, EIO, EINVAL); the code contains EVERY OSError on send and receive, not only its NET_ERRS
OTHER_SOCK_ERRS = [errno.EPROTOTYPE, errno.ENOTCONN, errno.ENOBUFS, errno.EIO, errno.EINVAL]


def fault_errno(rng, t):
    """A receive / send failure with one of the errnos the code under test handles as a network error (its own
    NET_ERRS); the bare 'x' (a reset) stays in the mix."""
    errs = sorted(set(int(e) for e in getattr(t.ssnet, 'NET_ERRS', [])) | set(OTHER_SOCK_ERRS))
    return rng.choice(['x'] + ['x%d' % e for e in errs])


def payload(rng, n, tag):
    # distinct content per flow/direction so cross-talk is visible
    base = bytes([(tag * 37 + i * 7 + 1) % 251 for i in range(min(n, 251))])
    return (base * (n // max(len(base), 1) + 1))[:n] if n else b''


# Verbosity is a dimension of every scenario: the behaviour must not depend on it.  Scenarios that do not ask for a
# particular level get one from this rotation (half of them run quiet); the check's seed shifts the rotation, so over
# a few seeds every directed history has run at every level.  A replay carries its level in `cfg`.
VERBS = [0, 0, 3, 0, 2, 0, 13, 1]
_verb_state = [0]


def set_verbosity_seed(seed):
    _verb_state[0] = int(seed) % len(VERBS)
    _plat_state[0] = int(seed) % len(PLATS)
    _clock_state[0] = int(seed) % len(CLOCKS)


def next_verbose():
    v = VERBS[_verb_state[0] % len(VERBS)]
    _verb_state[0] += 1
    return v


# The platform's errno numbering is a dimension too (one scenario in five runs with the would-block errno of Windows
# sockets; the period is coprime to the verbosity rotation's, so every combination comes up).
PLATS = [0, 0, 1, 0, 0]
_plat_state = [0]


def next_platform():
    v = PLATS[_plat_state[0] % len(PLATS)]
    _plat_state[0] += 1
    return v


# Time is a dimension too: period 9, coprime to the other two rotations.
CLOCKS = [0, 2, 0, 3, 0, 1, 4, 0, 5]
_clock_state = [0]


def next_clock():
    v = CLOCKS[_clock_state[0] % len(CLOCKS)]
    _clock_state[0] += 1
    return v


class pinned:
    """Re-run a directed scenario under the configuration a replay file recorded (verbosity, platform, clock) instead
    of whatever the rotations would hand out next."""

    def __init__(self, cfgv):
        self.cfgv = list(cfgv or [])

    def __enter__(self):
        import sys
        me = sys.modules[__name__]
        self.saved = (me.next_verbose, me.next_platform, me.next_clock)
        c = self.cfgv
        me.next_verbose = lambda: (c[4] if len(c) > 4 else 0)
        me.next_platform = lambda: (c[5] if len(c) > 5 else 0)
        me.next_clock = lambda: (c[6] if len(c) > 6 else 0)
        return self

    def __exit__(self, *a):
        import sys
        me = sys.modules[__name__]
        me.next_verbose, me.next_platform, me.next_clock = self.saved
        return False


class Scenario:
    def __init__(self, rng, o):
        self.rng, self.o = rng, o
        if getattr(o, 'verbose', None) is None:
            o.verbose = next_verbose()
        if getattr(o, 'platform', None) is None:
            o.platform = next_platform()
        if getattr(o, 'clock', None) is None:
            o.clock = next_clock()
        self.s = ts.Script(o.maxchan, o.bufsize, o.chani, verbose=getattr(o, 'verbose', 0), platform=getattr(o, 'platform', 0),
                           clock=o.clock)
        self.t = self.s.t
        self.faulty = set()      # flows that received an injected fault
        self.refused = set()     # (flow, endpoint) pairs whose endpoint stopped receiving (EPIPE): not a fault of the flow
        self.aborted = set()
        self.wire = []           # (end, chan, cmd, len) of every frame queued, in order, with marks
        self.nontrivial = set()
        self._seen_c = 0
        self._seen_s = 0
        self.stop = False
        self.bare = set()        # ends that handled a frame with a bare `deliver` and had no real round since
        self.followed = {'c': set(), 's': set()}   # flows that had an explicit callback since that end's last bare `deliver`
        self.idle_bad = []       # real passes that did not lower the measure and yet left something to do at their end
        self.dead_bad = []       # real passes that reached select() with a finished handler still in the list
        self.mu_bad = []         # real passes that did not decrease the termination measure although they changed the state
        self.wrote = {}          # (flow, 'app'|'dst') -> bytes written by the endpoint (harness log)

    # ---- bookkeeping of frames put on the wire (for the C09 oracle)
    def note_wire(self):
        pass

    def do(self, st, internal=False):
        if self.stop:
            return
        if st[0] == 'deliver' and len(st) > 3:
            internal = True
        if st[0] == 'deliver' and not internal:
            self.bare.add(st[1])
            self.followed[st[1]] = set()
        if st[0] == 'cb':
            self.followed[st[1]].add(st[2])
        if st[0] == 'deliver' and internal and len(st) == 3:
            st = st + ('internal',)
        src = None
        if st[0] == 'round':
            src = self.t.smux if st[1] == 'c' else self.t.cmux
            n0 = len(src.outbuf)
            mu0, show0 = self.t.mu(), self.t.show()
        if not self.s.do(st):
            self.stop = True
        if self.t.dead_at_select:
            self.dead_bad.append((len(self.s.ins), st[1] if len(st) > 1 else '?', self.t.dead_at_select[0]))
            del self.t.dead_at_select[:]
        if src is not None and not self.t.died:
            # C02_bounded_work on the real objects: a real pass of the loop never raises the measure and lowers it
            # whenever it changes anything
            mu1 = self.t.mu()
            if mu1 > mu0 or (mu1 == mu0 and self.t.show() != show0):
                self.mu_bad.append((len(self.s.ins), mu0, mu1))
            # C02_pass_without_progress_is_quiet on the real objects: a pass in the environment as it is, every
            # socket answering fully, the tunnel not paused, that does not lower the measure found no frame on its
            # way to this end and leaves every handler of this end quiet (handlers that handled a frame in a bare
            # `deliver` step have not had the callback the theorem's `Noticed` stands for: not judged)
            mux = self.t.cmux if st[1] == 'c' else self.t.smux
            if (mu1 == mu0 and st[3] == 'auto' and st[4].text() == 'ok d65536 s65536 0' and not mux.too_full
                    and not self.bare and not (n0 > 0 and len(src.outbuf) == n0)):
                if n0 > 0 or not self.t.end_quiet(st[1]):
                    self.idle_bad.append((len(self.s.ins), st[1], n0, self.t.show()))
        if src is not None and len(src.outbuf) < n0:
            # frames really arrived in that pass: the real loop gave every Proxy of that end its callback after them
            self.bare.discard(st[1])

    def written(self, i, side):
        return self.wrote.get((i, side), b'')

    def env_write(self, i, side, b):
        f = self.t.flows[i]
        env = f.app if side == 'app' else f.dst
        if env.eof_in:
            return
        self.wrote[(i, side)] = self.written(i, side) + b
        self.do(('aw' if side == 'app' else 'dw', i, b))

    def random_step(self):
        rng, o, t = self.rng, self.o, self.t
        r = rng.random()
        nf = len(t.flows)
        if nf < o.nflows and (nf == 0 or r < 0.08):
            self.do(('accept',))
            return
        if nf == 0:
            return
        i = rng.randrange(nf)
        f = t.flows[i]
        if r < 0.22:
            side = rng.choice(['app', 'dst'])
            sizes = SIZES + (BIG if o.big else [])
            n = rng.choice(sizes) if rng.random() < 0.5 else rng.randrange(1, 300)
            self.env_write(i, side, payload(rng, n, i * 2 + (side == 'dst')))
        elif r < 0.27 and o.closes:
            self.do((rng.choice(['ae', 'de']), i))
            self.nontrivial.add('close')
        elif r < 0.62:
            end = rng.choice(['c', 's'])
            recv = rng.choice(RECV_OK)
            send = rng.choice(SEND_OK)
            conn = 'ok'
            p = f.sproxy if end == 's' else f.cproxy
            if end == 's' and p is not None and p.wrap2.connect_to is not None:
                conn = rng.choice(CONN_PENDING + CONN_DONE + (CONN_FAIL if o.faults else []))
                if conn in CONN_FAIL:
                    self.faulty.add(i)
                    self.nontrivial.add('connfail')
            shut_err = False
            if o.faults and rng.random() < 0.15:
                k = rng.choice(['recv', 'send', 'send-epipe', 'shut'])
                if k == 'recv':
                    recv = fault_errno(rng, t)
                elif k == 'send':
                    send = fault_errno(rng, t)
                elif k == 'send-epipe':
                    send = 'p'
                else:
                    shut_err = True
                self.faulty.add(i)
                self.nontrivial.add('fault-' + k)
            elif o.epipe and rng.random() < 0.12:
                # the endpoint has shut down its receiving side: the tunnel's next send fails with EPIPE.  That ends
                # this direction only; the endpoint keeps sending and the other direction must stay intact.
                send = 'p'
                self.refused.add((i, 'dst' if end == 's' else 'app'))
                self.nontrivial.add('reader-closed')
            self.do(('cb', end, i, Io(conn, recv, send, shut_err)))
        elif r < 0.70:
            self.do(('pre', rng.choice(['c', 's']), i))
        elif r < 0.90:
            end = rng.choice(['c', 's'])
            conn = rng.choice(CONN_PENDING + CONN_DONE + (CONN_FAIL if o.faults and rng.random() < 0.3 else []))
            src = t.cmux if end == 's' else t.smux
            if src.outbuf:
                if conn in CONN_FAIL and end == 's':
                    # only matters if the frame is a CONNECT
                    import struct
                    (_a, _b, chan, cmd, _n) = struct.unpack('!ccHHH', src.outbuf[0][:8])
                    if cmd == t.ssnet.CMD_TCP_CONNECT:
                        for k, fl in enumerate(t.flows):
                            if fl.chan == chan:
                                self.faulty.add(k)
                self.do(('deliver', end, conn))
        elif r < 0.915:
            # one REAL runonce: some frames arrive on the mux file and some endpoint sockets are ready at once
            end = rng.choice(['c', 's'])
            src = t.cmux if end == 's' else t.smux
            nfr = rng.choice([0, 1, 3, len(src.outbuf)])
            ready = [k for k in range(len(t.flows)) if rng.random() < 0.6]
            recv, send, shut_err = rng.choice(RECV_OK), rng.choice(SEND_OK), False
            if o.faults and rng.random() < 0.3:
                kind = rng.choice(['recv', 'send', 'send-epipe'])
                fe = fault_errno(rng, t)
                recv, send = (fe, send) if kind == 'recv' else (recv, fe if kind == 'send' else 'p')
                for k in ready:
                    self.faulty.add(k)
                self.nontrivial.add('fault-in-round')
            self.do(('round', end, nfr, ready, Io('ok', recv, send, shut_err)))
            self.nontrivial.add('real-round')
        elif r < 0.94:
            self.do(('idle', rng.choice(['c', 's'])))
        elif r < 0.97 and o.latency:
            self.do(('full', rng.choice(['c', 's'])))
        elif o.foreign:
            end = rng.choice(['c', 's'])
            ss = t.ssnet
            cmd = rng.choice([ss.CMD_DNS_RESPONSE if end == 's' else ss.CMD_DNS_REQ, ss.CMD_UDP_DATA, ss.CMD_HOST_LIST
                              if end == 's' else ss.CMD_UDP_CLOSE])
            self.do(('foreign', end, 40000 + rng.randrange(100), cmd, payload(rng, rng.choice([0, 10, 600, 4096]), 99)))

    # ---- fair scheduler: the REAL loop.  Each pass runs one real ssnet.runonce per end in which the tunnel delivers
    # everything queued by the peer, every endpoint socket is as ready as its environment makes it (readable iff
    # something is pending or it closed, always writable) and the tunnel's write file is writable; select hands back
    # only what pre_select asked for, so a wake-up the code forgets to ask for is simply not given.
    def drain(self, max_rounds=400, on_round=None, conn='ok'):
        """conn: how a connect() still in progress answers during the drain ('ok' = it completes; an EINPROGRESS
        value = it stays pending for ever, e.g. a destination that never answers the SYN)."""
        import struct
        t, o = self.t, self.o
        full = Io(conn, 'd65536', 's65536', False)
        last = None
        same = 0
        # The scripted / random phase before a drain may have handled a frame with a bare `deliver` step.  In the real
        # loop a frame is always handled inside a round in which every Proxy then gets a callback (the tunnel's read
        # file is in every Proxy's socks); give that follow-up once, so that the drain starts from a state the real
        # loop can be in.  A scenario that handled frames only through real rounds gets no such extra callback: a
        # wake-up the code relies on without asking for it is then simply not there.
        for end in sorted(self.bare):
            for i, f in enumerate(t.flows):
                p = f.sproxy if end == 's' else f.cproxy
                hl = t.shandlers if end == 's' else t.chandlers
                if p is not None and p in hl and i not in self.followed[end]:
                    # (a flow the script itself called back after the frame has had its one callback: a second one
                    # would be a wake-up the real loop does not give)
                    self.do(('cb', end, i, full))
        self.bare.clear()
        for rnd in range(max_rounds):
            if self.stop:
                return False
            for end in ('c', 's'):
                src = t.smux if end == 'c' else t.cmux
                guard = 0
                while True:
                    guard += 1
                    n = len(src.outbuf)
                    self.do(('round', end, n, 'auto', full))
                    if self.stop or guard > 50:
                        break
                    if src.outbuf:
                        # the round stopped in front of a CONNECT (it needs a scripted connect result)
                        (_a, _b, _chan, cmd, _n) = struct.unpack('!ccHHH', src.outbuf[0][:8])
                        if cmd == t.ssnet.CMD_TCP_CONNECT:
                            self.do(('deliver', end, 'ok'), internal=True)
                            continue
                    break
                if o.latency:
                    self.do(('full', end))
            if on_round:
                on_round(self)
            # quiescence is judged on the flows and on queued non-control frames: with a buffer
            # size below the 6-byte 'rttest' payload the two ends exchange PING/PONG for ever
            # (each PONG is itself over budget), which is chatter, not a change of any flow
            cur = self.flow_state()
            if cur == last:
                same += 1
                if same >= 3:
                    return True
            else:
                same = 0
            last = cur
        return False

    def flow_state(self):
        import struct
        t = self.t
        full = t.show()
        flows = full.split(' f0 ', 1)[1] if ' f0 ' in full else ''
        q = []
        for mux in (t.cmux, t.smux):
            for p in mux.outbuf:
                (_a, _b, chan, cmd, n) = struct.unpack('!ccHHH', p[:8])
                if cmd not in (t.ssnet.CMD_PING, t.ssnet.CMD_PONG):
                    q.append((chan, cmd, n))
        return (flows, tuple(q), t.died)

    def close(self):
        self.s.close()


# ------------------------------------------------------------------ oracles (real code only)

def oracle_prefix(ctx, sc, prop, where):
    """C01 safety: what reached an endpoint is a prefix of what the other endpoint wrote."""
    t = sc.t
    for i, f in enumerate(t.flows):
        up_w, down_w = sc.written(i, 'app'), sc.written(i, 'dst')
        if f.dst.delivered != up_w[:len(f.dst.delivered)]:
            report(ctx, sc, '%s:stream:dst-got-bytes-not-prefix-of-app-writes' % prop, i, where,
                   'prefix of %s' % hexb(up_w[:32]), hexb(f.dst.delivered[:32]))
            return False
        if f.app.delivered != down_w[:len(f.app.delivered)]:
            report(ctx, sc, '%s:stream:app-got-bytes-not-prefix-of-dst-writes' % prop, i, where,
                   'prefix of %s' % hexb(down_w[:32]), hexb(f.app.delivered[:32]))
            return False
    return True


def oracle_complete(ctx, sc, prop, quiescent):
    """C01 liveness at quiescence: flows without faults deliver everything written before close."""
    t = sc.t
    for i, f in enumerate(t.flows):
        if i in sc.faulty or f.sproxy is None and not f.s_ever:
            continue
        up_w, down_w = sc.written(i, 'app'), sc.written(i, 'dst')
        # a direction is complete only if its reader did not close early (half-close of the
        # *other* direction must not matter)
        if not quiescent:
            report(ctx, sc, '%s:liveness:no-quiescence-within-bound' % prop, i, 'drain', 'quiescent state', 'still changing')
            return False
        refused = getattr(sc, 'refused', set())
        if f.app.eof_in and f.dst.eof_in:
            up_ok = (i, 'dst') in refused or f.dst.delivered == up_w
            # a connect given up because the application closed before it completed: the destination was never
            # connected, what it 'wrote' cannot arrive (intended mechanism, ssnet.py:144-149)
            down_ok = (i, 'app') in refused or f.connect_aborted or f.app.delivered == down_w
            if not (up_ok and down_ok):
                report(ctx, sc, '%s:liveness:bytes-lost-at-quiescence' % prop, i, 'drain',
                       'dst got %d, app got %d bytes' % (len(up_w), len(down_w)),
                       'dst got %d, app got %d bytes' % (len(f.dst.delivered), len(f.app.delivered)))
                return False
    return True


def oracle_eof_order(ctx, sc, prop, where):
    """C02: an endpoint sees end-of-stream only after every byte sent before the close."""
    t = sc.t
    for i, f in enumerate(t.flows):
        if i in sc.faulty:
            continue
        for sock, env, w, name in ((f.dst_sock, f.dst, sc.written(i, 'app'), 'dst'),
                                   (f.app_sock, f.app, sc.written(i, 'dst'), 'app')):
            if sock is None or (i, name) in getattr(sc, 'refused', set()):
                continue
            other = f.app if name == 'dst' else f.dst
            # (no fault was injected on this flow) the tunnel shuts an endpoint's socket only to pass on the
            # other endpoint's end-of-stream, and only after every byte written before that close
            if env.saw_shut and other.eof_in:
                if env.delivered != w:
                    report(ctx, sc, '%s:eof:shutdown-before-all-data' % prop, i, where,
                           '%s sees EOF after %d bytes' % (name, len(w)), 'after %d bytes' % len(env.delivered))
                    return False
            if env.saw_shut and not other.eof_in:
                report(ctx, sc, '%s:eof:shutdown-without-writer-close' % prop, i, where,
                       'no EOF at %s while the other endpoint has not closed' % name, 'shutdown seen')
                return False
            # nothing is sent after the shutdown
            evs = sock.log
            if ('shutdown',) in evs and any(e[0] == 'data' and e[1] > 0 for e in evs[evs.index(('shutdown',)) + 1:]):
                report(ctx, sc, '%s:eof:data-after-shutdown' % prop, i, where, 'no data after EOF', evs[-5:])
                return False
    return True


def oracle_teardown(ctx, sc, prop):
    """C02 at quiescence: flows whose both directions finished (or that failed) are torn down."""
    t = sc.t
    for i, f in enumerate(t.flows):
        finished = (f.app.eof_in and f.dst.eof_in) or i in sc.faulty and (f.app.saw_shut or f.dst.saw_shut)
        if not finished or not f.s_ever:
            continue
        c_listed = f.cproxy in t.chandlers
        s_listed = f.sproxy in t.shandlers
        c_chan = bool(t.cmux.channels.get(f.chan))
        s_chan = bool(t.smux.channels.get(f.chan))
        if f.app.eof_in and f.dst.eof_in:
            if c_listed or s_listed or c_chan or s_chan or not f.app.saw_shut or not f.dst.saw_shut:
                report(ctx, sc, '%s:teardown:finished-flow-not-torn-down' % prop, i, 'quiescence',
                       'handlers dropped, ids free, both sockets shut',
                       dict(client_handler=c_listed, server_handler=s_listed, client_id_held=c_chan,
                            server_id_held=s_chan, app_shut=f.app.saw_shut, dst_shut=f.dst.saw_shut))
                return False
    return True


def oracle_quiet(ctx, sc, prop):
    """At a quiescent state of the REAL loop with drained queues the explicit 'nothing is pending' predicate must
    hold (on the real objects and, through the driver line, on the model state): this is what ties the hypothesis of
    C02_quiet_complete to the real loop's notion of 'a loop pass changes nothing'."""
    t = sc.t
    if getattr(sc, 'mu_bad', None):
        at, mu0, mu1 = sc.mu_bad[0]
        report(ctx, sc, '%s:work:loop-pass-changes-the-state-without-lowering-the-measure' % prop, 0, 'pass ending at script line %d' % at,
               'a pass of the real loop that changes anything lowers the count of work left (C02_bounded_work)',
               'measure %d -> %d' % (mu0, mu1))
        sc.mu_bad = []
        return False
    left = t.unreleased() if hasattr(t, 'unreleased') else []
    if left:
        report(ctx, sc, '%s:teardown:socket-not-released' % prop, left[0][0], 'quiescence',
               'once a flow\'s handler has been dropped nothing references its socket any more (the descriptor is closed, '
               'the endpoint is not left hanging)', 'still referenced: %r' % (left[:4],))
        return False
    if getattr(sc, 'dead_bad', None):
        at, end, n = sc.dead_bad[0]
        report(ctx, sc, '%s:work:finished-handler-still-listed-when-the-loop-waits' % prop, 0,
               'pass of end %s ending at script line %d' % (end, at),
               'every handler that has finished is out of the handler list by the time the loop calls select() (it may '
               'sleep there for ever; the handler holds the flow\'s sockets open)',
               '%d finished handler(s) still listed at select()' % n)
        sc.dead_bad = []
        return False
    if getattr(sc, 'idle_bad', None):
        at, end, n0, state = sc.idle_bad[0]
        report(ctx, sc, '%s:work:idle-pass-leaves-work' % prop, 0, 'pass of end %s ending at script line %d' % (end, at),
               'a pass of the real loop that does not lower the measure leaves no frame on its way to that end and '
               'every handler of that end quiet (C02_pass_without_progress_is_quiet)',
               '%d frame(s) waiting and/or a handler of that end not quiet, in state %s' % (n0, state))
        sc.idle_bad = []
        return False
    if t.died or t.cmux.outbuf or t.smux.outbuf:
        return True
    sc.do(('quiet',))
    ctx.hist('quiet-state-checked')
    if sc.s.outs and sc.s.outs[-1] != 'quiet=1':
        report(ctx, sc, '%s:stuck:quiescent-state-not-quiet' % prop, 0, 'quiescence',
               'buffers empty, nothing to read, every flag propagated', t.show()[:600])
        return False
    # C02_no_stuck_state, on the real objects: the loop is at rest, so no move of the loop may still make a difference -
    # give every listed handler one callback with every socket ready (the wake-up the loop did NOT give) and look
    # whether anything changes; if it does, the loop was resting on work it never asked to be woken for
    before = t.show()
    full = Io('ok', 'd65536', 's65536', False)
    for end in ('c', 's'):
        for i, f in enumerate(t.flows):
            p = f.sproxy if end == 's' else f.cproxy
            hl = t.shandlers if end == 's' else t.chandlers
            if p is not None and p in hl:
                sc.do(('cb', end, i, full))
    ctx.hist('rest-is-fixpoint-checked')
    after = t.show()
    if after != before and not sc.stop:
        fa, fb = before.split(' '), after.split(' ')
        d = next((j for j in range(min(len(fa), len(fb))) if fa[j] != fb[j]), 0)
        report(ctx, sc, '%s:stuck:loop-at-rest-but-a-callback-still-moves' % prop, 0, 'quiescence',
               'at rest no callback changes anything (every wake-up that matters was asked for)',
               'before: %s | after: %s' % (' '.join(fa[max(0, d - 2):d + 3]), ' '.join(fb[max(0, d - 2):d + 3])))
        return False
    # C02_quiet_complete, read off the real objects: at rest every close has reached the other endpoint's socket
    for i, f in enumerate(t.flows):
        if i in sc.faulty or not f.s_ever or f.connect_aborted:
            continue
        for src, dst, name in ((f.app, f.dst, 'destination'), (f.dst, f.app, 'application')):
            if src.eof_in and not dst.saw_shut:
                report(ctx, sc, '%s:stuck:close-not-propagated-at-rest' % prop, i, 'quiescence',
                       'the %s socket shut down after the other endpoint closed' % name, 'not shut; ' + t.show()[:400])
                return False
    return True


def oracle_no_pending(ctx, sc, prop):
    """C02 no stuck state: at quiescence nothing is buffered for a flow that can still deliver."""
    t = sc.t
    for i, f in enumerate(t.flows):
        if i in sc.faulty:
            continue
        for p, hl, env_out in ((f.cproxy, t.chandlers, f.app), (f.sproxy, t.shandlers, f.dst)):
            if p is None or p not in hl:
                continue
            sw, mw = (p.wrap1, p.wrap2) if p is f.cproxy else (p.wrap2, p.wrap1)
            if (sw.buf or mw.buf) and not env_out.saw_shut and not (t.cmux.too_full or t.smux.too_full):
                report(ctx, sc, '%s:stuck:data-buffered-at-quiescence' % prop, i, 'quiescence',
                       'no buffered data', dict(sock_buf=len(sw.buf), mux_buf=len(mw.buf)))
                return False
    if t.cmux.outbuf or t.smux.outbuf:
        report(ctx, sc, '%s:stuck:frames-queued-at-quiescence' % prop, 0, 'quiescence', 'empty queues',
               dict(c=len(t.cmux.outbuf), s=len(t.smux.outbuf)))
        return False
    return True


def oracle_alive(ctx, sc, prop, where):
    out = getattr(sc.t, 'stdout_rec', None)
    if out is not None and out.written:
        # in the server process stdout IS the tunnel: anything but the Mux writing there lands between two frames
        text = ''.join(str(x) for x in out.written)
        report(ctx, sc, '%s:stream:diagnostics-written-to-stdout' % prop, 0, where,
               'nothing but the Mux writes to the process\'s stdout, whatever the verbosity and whatever happened to stderr',
               '%d bytes: %r' % (len(text), text[:120]))
        out.written = []
        return False
    if sc.t.died:
        report(ctx, sc, '%s:death:%s' % (prop, sc.t.died.split(':')[1].strip() if ':' in sc.t.died else 'exception'),
               0, where, 'client and server keep running', sc.t.died)
        return False
    return True


def encode_steps(steps):
    """The real-code steps of a scenario in a JSON-able form (the `script` lines are their model-level rendering;
    a select-loop round cannot be re-run from those)."""
    def enc(x):
        if isinstance(x, Io):
            return {'io': x.text()}
        if isinstance(x, (bytes, bytearray)):
            return {'hex': hexb(bytes(x))}
        if isinstance(x, (list, tuple)):
            return [enc(y) for y in x]
        return x
    return [enc(list(st)) for st in steps]


def decode_steps(enc):
    from common import unhex

    def dec(x):
        if isinstance(x, dict) and 'io' in x:
            w = x['io'].split()
            return Io(w[0], w[1], w[2], w[3] == '1')
        if isinstance(x, dict) and 'hex' in x:
            return unhex(x['hex'])
        if isinstance(x, list):
            return [dec(y) for y in x]
        return x
    return [tuple(dec(st)) for st in enc]


def replay_common(s):
    """Verdicts every tunnel replay shares: a process that died, or diagnostics on stdout."""
    out = getattr(s.t, 'stdout_rec', None)
    if out is not None and out.written:
        text = ''.join(str(x) for x in out.written)
        return True, 'diagnostics written to stdout (the tunnel, in the server): %r' % text[:120]
    if s.t.died:
        return True, 'process died: %s' % s.t.died
    s.t._reap()
    left = s.t.unreleased()
    if left:
        return True, 'sockets of dropped handlers are still referenced (descriptors left open): %r' % (left[:4],)
    return None


def replay_work(case):
    """Re-run the recorded real-code steps through a Scenario, whose `do` holds every real pass of the loop to
    C02_bounded_work and C02_pass_without_progress_is_quiet; returns (still fails, what was seen)."""
    import random
    cfg = case['script'][0].split()
    cfgv = case.get('cfg') or []
    o = Opts(maxchan=int(cfg[1]), bufsize=int(cfg[2]), chani=int(cfg[3]), verbose=(cfgv[4] if len(cfgv) > 4 else 0),
             platform=(cfgv[5] if len(cfgv) > 5 else 0), clock=(cfgv[6] if len(cfgv) > 6 else 0))
    sc = Scenario(random.Random(0), o)
    try:
        for st in decode_steps(case['steps']):
            sc.do(st)
            if sc.stop or sc.mu_bad or sc.idle_bad or sc.dead_bad:
                break
        if sc.t.died:
            return True, 'process died: %s' % sc.t.died
        if sc.mu_bad:
            return True, 'a pass changed the state without lowering the measure: %d -> %d' % sc.mu_bad[0][1:3]
        if sc.dead_bad:
            return True, ('the pass of end %s ending at script line %d reached select() with %d finished handler(s) '
                          'still in the handler list' % (sc.dead_bad[0][1], sc.dead_bad[0][0], sc.dead_bad[0][2]))
        if sc.idle_bad:
            at, end, n0, state = sc.idle_bad[0]
            return True, ('a pass of end %s did not lower the measure although %d frame(s) were waiting and/or a handler '
                          'was not quiet: %s' % (end, n0, state))
        return False, 'every pass of the loop either lowers the measure or leaves its end quiet'
    finally:
        sc.close()


def report(ctx, sc, key, flow, where, expected, observed):
    ctx.violation(key, case=dict(cfg=sc.s.cfg, script=list(sc.s.ins), steps=encode_steps(sc.s.steps), flow=flow, where=where,
                                 refused=sorted(list(x) for x in getattr(sc, 'refused', set()))),
                  expected=expected, observed=observed, kind='ops')


# ------------------------------------------------------------------ model comparison

def compare(ctx, driver_inputs, real_outputs, tag):
    """driver_inputs / real_outputs: lists (per scenario) of line lists."""
    import common
    if not ctx.model_available:
        ctx.notes.append('model driver unavailable: oracle only')
        return
    flat = []
    for ins in driver_inputs:
        flat.extend(ins)
    out = common.LeanBatch('Tunnel').run(flat, timeout=1800)
    pos = 0
    for ins, outs in zip(driver_inputs, real_outputs):
        nout = sum(1 for l in ins if not l.startswith('q '))
        mo = [ts.canon_model_line(l) for l in out[pos:pos + nout]]
        pos += nout
        if len(mo) != len(outs):
            ctx.corr_break(tag, case=ins[:3], impl='%d lines' % len(outs), model='%d lines' % len(mo))
            return
        vis = [l for l in ins if not l.startswith('q ')]
        for k, (a, b) in enumerate(zip(outs, mo)):
            if a.startswith('died=yes') and b.startswith('died=yes'):
                break
            if a != b:
                # first differing field, for a readable report
                fa, fb = a.split(' '), b.split(' ')
                d = next((j for j in range(min(len(fa), len(fb))) if fa[j] != fb[j]), -1)
                ctx.corr_break(tag, case=dict(script=ins[:ins.index(vis[k]) + 1] if vis[k] in ins else ins),
                               impl=' '.join(fa[max(0, d - 1):d + 2]), model=' '.join(fb[max(0, d - 1):d + 2]),
                               note='step %r' % vis[k])
                break
        if len(ctx.corr_breaks) > 8:
            return


def reap_after_reuse(ctx, rng, prop, maxchan=1):
    """Object lifetime vs identifier reuse: flow A finishes (its id is free again) but its handlers are still in
    the handler lists; a new connection B is accepted and gets A's id; only then the loop drops A's handlers (their
    wrappers are finalised).  B must be unaffected: its frames reach it, its id stays registered."""
    o = Opts(nflows=2, steps=0, maxchan=maxchan, chani=0)
    sc = Scenario(rng, o)
    try:
        t = sc.t
        full = Io('ok', 'd65536', 's65536', False)
        sc.do(('accept',))
        sc.do(('deliver', 's', 'ok'))
        sc.do(('deliver', 's', 'ok'))
        if sc.stop or not t.flows:
            return sc.s.ins, sc.s.outs
        sc.env_write(0, 'app', payload(rng, 10, 1))
        sc.do(('ae', 0))
        sc.do(('de', 0))
        for _ in range(12):
            for end in ('c', 's'):
                f = t.flows[0]
                p, hl = (f.cproxy, t.chandlers) if end == 'c' else (f.sproxy, t.shandlers)
                if p is not None and p in hl:
                    sc.do(('cb', end, 0, full))
                mux = t.cmux if end == 'c' else t.smux
                while mux.outbuf and not sc.stop:
                    sc.do(('deliver', 's' if end == 'c' else 'c', 'ok'))
            f = t.flows[0]
            if f.cproxy is not None and f.sproxy is not None and not f.cproxy.ok and not f.sproxy.ok:
                break
        n0 = len(t.flows)
        sc.do(('accept',))
        if sc.stop:
            return sc.s.ins, sc.s.outs
        if len(t.flows) == n0:
            report(ctx, sc, '%s:teardown:identifier-not-reusable' % prop, 0, 'accept after flow 0 finished',
                   'the finished flow\'s id is handed to the new connection', 'connection discarded: no free id')
            return sc.s.ins, sc.s.outs
        sc.do(('deliver', 's', 'ok'))
        sc.do(('rm', 'c'))
        sc.do(('rm', 's'))
        i = len(t.flows) - 1
        if not (t.cmux.channels.get(t.flows[i].chan) and t.smux.channels.get(t.flows[i].chan)):
            report(ctx, sc, '%s:reuse:live-flow-unregistered-when-old-handler-was-dropped' % prop, i,
                   'handlers of the finished flow dropped', 'the new flow keeps its identifier on both ends',
                   dict(client=bool(t.cmux.channels.get(t.flows[i].chan)), server=bool(t.smux.channels.get(t.flows[i].chan))))
            return sc.s.ins, sc.s.outs
        sc.env_write(i, 'app', payload(rng, 3000, 5))
        sc.env_write(i, 'dst', payload(rng, 5000, 6))
        sc.drain()
        sc.do(('ae', i))
        sc.do(('de', i))
        q = sc.drain()
        if not sc.stop:
            oracle_prefix(ctx, sc, prop, 'reap after reuse')
            oracle_complete(ctx, sc, prop, q)
        oracle_alive(ctx, sc, prop, 'run')
        return sc.s.ins, sc.s.outs
    finally:
        sc.close()


def oracle_ids_consistent(ctx, sc, prop):
    """At quiescence a flow's identifier is registered on both ends or on neither: an end never frees an id
    while its peer still has the flow open on it."""
    t = sc.t
    for i, f in enumerate(t.flows):
        if not f.s_ever:
            continue
        newer = any(g is not f and g.chan == f.chan for g in t.flows[i + 1:])
        if newer:
            continue                # the id has been handed to a later flow: judged there
        c_reg = bool(t.cmux.channels.get(f.chan))
        s_reg = bool(t.smux.channels.get(f.chan))
        if c_reg != s_reg:
            report(ctx, sc, '%s:teardown:identifier-registered-on-one-end-only' % prop, i, 'quiescence',
                   'registered on both ends or on neither', dict(client=c_reg, server=s_reg))
            return False
    return True


def burst_in_one_read(ctx, rng, prop, nwrites, bufsize=32768, latency=False, dst_closes=True):
    """Many small frames (several flows, tiny writes, their EOFs) reach the peer in ONE read of the tunnel and then
    the tunnel goes quiet: the one wake-up must handle all of them, nothing may stay undecoded in the Mux."""
    o = Opts(nflows=3, steps=0, bufsize=bufsize, latency=latency)
    sc = Scenario(rng, o)
    try:
        t = sc.t
        full = Io('ok', 'd65536', 's65536', False)
        for _ in range(3):
            sc.do(('accept',))
        for _ in range(4):
            sc.do(('deliver', 's', 'ok'))
        if sc.stop or len(t.flows) < 3:
            return sc.s.ins, sc.s.outs
        for k in range(nwrites):
            i = k % 3
            sc.env_write(i, 'app', payload(rng, 1 + k % 5, 10 + k))
            sc.do(('cb', 'c', i, full))
            if latency and k % 7 == 6:
                sc.do(('full', 'c'))
        for i in range(3):
            sc.do(('ae', i))
            sc.do(('cb', 'c', i, full))
        n = len(t.cmux.outbuf)
        sc.do(('round', 's', n, [], Io('ok', 'a', 's65536', False)))      # everything in one read
        if len(t.smux.inbuf if hasattr(t.smux, 'inbuf') else b''):
            report(ctx, sc, '%s:burst:frames-left-undecoded-after-the-wake-up' % prop, 0, 'one read of %d frames' % n,
                   'every complete frame handled in the wake-up that read it', '%d bytes left in the Mux' % len(t.smux.inbuf))
            return sc.s.ins, sc.s.outs
        if dst_closes:
            for i in range(3):
                sc.do(('de', i))
        q = sc.drain(max_rounds=400 + nwrites)        # one buffered chunk per callback: the bound grows with the burst
        if not sc.stop:
            oracle_prefix(ctx, sc, prop, 'burst')
            oracle_complete(ctx, sc, prop, q)
            if q:
                oracle_teardown(ctx, sc, prop)
                oracle_quiet(ctx, sc, prop)
        oracle_alive(ctx, sc, prop, 'run')
        return sc.s.ins, sc.s.outs
    finally:
        sc.close()


def failure_tears_down(ctx, rng, prop, which, fault, err='x'):
    """An endpoint fails (reset on receive / error on send) while the other endpoint stays idle and never closes:
    both tunnel ends must still shut their sockets, drop the handler and free the id."""
    o = Opts(nflows=1, steps=0)
    sc = Scenario(rng, o)
    try:
        t = sc.t
        full = Io('ok', 'd65536', 's65536', False)
        near = 'c' if which == 'app' else 's'
        sc.do(('accept',))
        sc.do(('deliver', 's', 'ok'))
        sc.do(('deliver', 's', 'ok'))
        if sc.stop or not t.flows:
            return sc.s.ins, sc.s.outs
        sc.env_write(0, 'app', payload(rng, 100, 1))
        sc.env_write(0, 'dst', payload(rng, 100, 2))
        sc.drain()
        sc.faulty.add(0)
        if fault == 'recv':
            sc.do(('cb', near, 0, Io('ok', err, 's65536', False)))
        else:
            other = 'dst' if which == 'app' else 'app'
            sc.env_write(0, other, payload(rng, 50, 3))       # something to send towards the failing endpoint
            far = 's' if near == 'c' else 'c'
            sc.do(('cb', far, 0, full))
            srcq = t.cmux if far == 'c' else t.smux
            while srcq.outbuf and not sc.stop:
                sc.do(('deliver', near, 'ok'))
            sc.do(('cb', near, 0, Io('ok', 'a', err, False)))
        q = sc.drain()
        if not sc.stop and q:
            f = t.flows[0]
            c_listed, s_listed = f.cproxy in t.chandlers, f.sproxy in t.shandlers
            c_reg, s_reg = bool(t.cmux.channels.get(f.chan)), bool(t.smux.channels.get(f.chan))
            if c_reg or s_reg or not f.app.saw_shut or not f.dst.saw_shut or c_listed or s_listed:
                report(ctx, sc, '%s:teardown:failed-flow-not-torn-down' % prop, 0,
                       '%s endpoint %s error, the other endpoint idle' % (which, fault),
                       'both sockets shut, both handlers dropped and the id free on both ends',
                       dict(client_handler=c_listed, server_handler=s_listed, client_id_held=c_reg, server_id_held=s_reg,
                            app_shut=f.app.saw_shut, dst_shut=f.dst.saw_shut))
            else:
                oracle_quiet(ctx, sc, prop)
        elif not sc.stop:
            report(ctx, sc, '%s:liveness:no-quiescence-within-bound' % prop, 0, 'drain', 'quiescent', 'still changing')
        oracle_alive(ctx, sc, prop, 'run')
        return sc.s.ins, sc.s.outs
    finally:
        sc.close()


def stop_after_eof(ctx, rng, prop, which):
    """One endpoint closes its sending side first (its end-of-stream crosses the tunnel) and later refuses the other
    endpoint's data (EPIPE): the STOP_SENDING that follows reaches a handler whose other direction is already
    finished.  Real select-loop passes only, and the tunnel is idle afterwards: the handler must be dropped by the
    pass that finishes the flow, not by some later unrelated wake-up.  `which` = the endpoint that closes and refuses."""
    o = Opts(nflows=1, steps=0)
    sc = Scenario(rng, o)
    try:
        t = sc.t
        full = Io('ok', 'd65536', 's65536', False)
        refuse = Io('ok', 'd65536', 'p', False)
        near, far = ('s', 'c') if which == 'dst' else ('c', 's')
        other = 'app' if which == 'dst' else 'dst'
        sc.do(('accept',))
        sc.drain()
        if sc.stop or not t.flows:
            return sc.s.ins, sc.s.outs
        sc.do(('de', 0) if which == 'dst' else ('ae', 0))
        sc.drain()
        sc.refused.add((0, which))
        sc.env_write(0, other, payload(rng, 100, 7))
        farq = t.cmux if far == 'c' else t.smux
        nearq = t.cmux if near == 'c' else t.smux
        sc.do(('round', far, len(nearq.outbuf), 'auto', full))       # the far end reads the data and frames it
        sc.do(('round', near, len(farq.outbuf), 'auto', refuse))     # the near end's write gets EPIPE: STOP_SENDING
        sc.do(('round', far, len(nearq.outbuf), 'auto', full))       # the far end handles it: the flow is finished
        sc.do(('round', near, len(farq.outbuf), 'auto', refuse))
        q = sc.drain()
        sc.do(('ae', 0) if which == 'dst' else ('de', 0))            # the other endpoint goes away at last
        q = sc.drain()
        if not sc.stop:
            oracle_eof_order(ctx, sc, prop, 'end')
            if q:
                oracle_teardown(ctx, sc, prop)
                oracle_quiet(ctx, sc, prop)
            else:
                report(ctx, sc, '%s:liveness:no-quiescence-within-bound' % prop, 0, 'drain', 'quiescent', 'still changing')
        oracle_alive(ctx, sc, prop, 'run')
        return sc.s.ins, sc.s.outs
    finally:
        sc.close()


def connect_with_followers(ctx, rng, prop, nbytes, nflows=1):
    """The application connects, sends `nbytes` (possibly none) and closes its sending side before the server has
    heard of the connection: CONNECT, the data and the end-of-stream reach the server in ONE read of the tunnel.  The
    handler `new_channel` creates in the middle of that pass must be served by the same pass (the frames that
    followed its CONNECT are already handled: nothing else will wake it).  Real select-loop passes only."""
    o = Opts(nflows=nflows, steps=0)
    sc = Scenario(rng, o)
    try:
        t = sc.t
        full = Io('ok', 'd65536', 's65536', False)
        for i in range(nflows):
            sc.do(('accept',))
            if nbytes:
                sc.env_write(i, 'app', payload(rng, nbytes, 11 + i))
            sc.do(('ae', i))
        for _ in range(3):
            sc.do(('round', 'c', 0, 'auto', full))            # the client frames the data and the end-of-stream
        sc.do(('round', 's', len(t.cmux.outbuf), 'auto', full))     # everything in one read at the server
        q = sc.drain()
        if not sc.stop:
            oracle_complete(ctx, sc, prop, q)
        for i in range(nflows):
            sc.env_write(i, 'dst', payload(rng, 50, 21 + i))
            sc.do(('de', i))
        q = sc.drain()
        if not sc.stop:
            oracle_eof_order(ctx, sc, prop, 'end')
            if q:
                oracle_complete(ctx, sc, prop, q)
                oracle_teardown(ctx, sc, prop)
                oracle_quiet(ctx, sc, prop)
            else:
                report(ctx, sc, '%s:liveness:no-quiescence-within-bound' % prop, 0, 'drain', 'quiescent', 'still changing')
        oracle_alive(ctx, sc, prop, 'run')
        return sc.s.ins, sc.s.outs
    finally:
        sc.close()


def eof_meets_connect(ctx, rng, prop, reply_len):
    """The application connects and closes its sending side without sending anything; the server's connect() is still
    in progress when CONNECT and the end-of-stream arrive, and completes in the very wake-up in which the server
    handler first looks at that end-of-stream.  The connection exists: the end-of-stream must reach the destination
    as a half-close, and the destination's reply must travel back whole.  (Had the handler seen the end-of-stream
    while the connect was still pending, giving the connect up would be the code's intended mechanism.)"""
    o = Opts(nflows=1, steps=0)
    sc = Scenario(rng, o)
    try:
        t = sc.t
        full = Io('ok', 'd65536', 's65536', False)
        sc.do(('accept',))
        sc.do(('ae', 0))
        for _ in range(2):
            sc.do(('round', 'c', 0, 'auto', full))            # the client frames the end-of-stream
        sc.do(('deliver', 's', 'ok'))                          # PING
        sc.do(('deliver', 's', 'e115:0'))                      # CONNECT: connect() in progress
        while t.cmux.outbuf and not sc.stop:
            sc.do(('deliver', 's', 'ok'))                      # the end-of-stream
        sc.do(('cb', 's', 0, full))                            # the wake-up in which the connect completes
        sc.bare.clear()
        sc.env_write(0, 'dst', payload(rng, reply_len, 5))
        sc.do(('de', 0))
        q = sc.drain()
        if not sc.stop:
            oracle_eof_order(ctx, sc, prop, 'end')
            oracle_complete(ctx, sc, prop, q)
            if q:
                oracle_teardown(ctx, sc, prop)
                oracle_quiet(ctx, sc, prop)
            else:
                report(ctx, sc, '%s:liveness:no-quiescence-within-bound' % prop, 0, 'drain', 'quiescent', 'still changing')
        oracle_alive(ctx, sc, prop, 'run')
        return sc.s.ins, sc.s.outs
    finally:
        sc.close()


def close_before_connect_hangs(ctx, rng, prop, nbytes):
    """The application connects and closes without having sent anything — and the server's connect() never completes
    (the destination does not answer).  The flow has nowhere to go: it must be torn down within bounded work on both
    ends (the pending connect given up, the end-of-stream sent back, handlers dropped, the id free), not left waiting
    for a connect that nobody needs any more.  Real select-loop passes; the connect stays in progress throughout.
    (With `nbytes` > 0 buffered for the destination the code keeps waiting for the connect, by design: the bytes are
    owed to the destination if it ever answers — only nbytes = 0 is judged.)"""
    o = Opts(nflows=1, steps=0)
    sc = Scenario(rng, o)
    try:
        t = sc.t
        full = Io('ok', 'd65536', 's65536', False)
        sc.do(('accept',))
        if nbytes:
            sc.env_write(0, 'app', payload(rng, nbytes, 3))
        sc.do(('ae', 0))
        for _ in range(2):
            sc.do(('round', 'c', 0, 'auto', full))
        sc.do(('deliver', 's', 'ok'))                          # PING
        sc.do(('deliver', 's', 'e115:0'))                      # CONNECT: connect() in progress
        while t.cmux.outbuf and not sc.stop:
            sc.do(('deliver', 's', 'ok'))
        sc.faulty.add(0)                                       # (what the application sent cannot arrive anywhere)
        q = sc.drain(conn='e115:0')
        if not sc.stop and t.flows:
            f = t.flows[0]
            c_listed, s_listed = f.cproxy in t.chandlers, f.sproxy in t.shandlers
            c_reg, s_reg = bool(t.cmux.channels.get(f.chan)), bool(t.smux.channels.get(f.chan))
            if not q or c_listed or s_listed or c_reg or s_reg or not f.app.saw_shut:
                report(ctx, sc, '%s:teardown:closed-before-connect-not-torn-down' % prop, 0,
                       'application closed, connect() never completes',
                       'quiescent, both handlers dropped, the id free on both ends, the application told (its socket shut)',
                       dict(quiescent=q, client_handler=c_listed, server_handler=s_listed, client_id_held=c_reg,
                            server_id_held=s_reg, app_shut=f.app.saw_shut))
            elif q:
                oracle_quiet(ctx, sc, prop)
        oracle_alive(ctx, sc, prop, 'run')
        return sc.s.ins, sc.s.outs
    finally:
        sc.close()


def reader_closed_keeps_sending(ctx, rng, prop, which):
    """One endpoint stops receiving (the tunnel's send to it fails with EPIPE) but keeps sending: that ends ONE
    direction; everything the endpoint sends afterwards must still reach its peer, followed by its end-of-stream.
    `which` = 'dst' or 'app' (the endpoint that stops receiving)."""
    o = Opts(nflows=1, steps=0)
    sc = Scenario(rng, o)
    try:
        t = sc.t
        full = Io('ok', 'd65536', 's65536', False)
        near, far = ('s', 'c') if which == 'dst' else ('c', 's')
        other = 'app' if which == 'dst' else 'dst'
        sc.do(('accept',))
        sc.do(('deliver', 's', 'ok'))
        sc.do(('deliver', 's', 'ok'))
        if sc.stop or not t.flows:
            return sc.s.ins, sc.s.outs
        sc.env_write(0, which, payload(rng, 3000, 2))       # the endpoint's own data, part 1
        sc.env_write(0, other, payload(rng, 1000, 1))       # data towards it, which it will refuse
        sc.do(('cb', far, 0, full))
        srcq = t.cmux if far == 'c' else t.smux
        while srcq.outbuf and not sc.stop:
            sc.do(('deliver', near, 'ok'))
        sc.refused.add((0, which))
        sc.do(('cb', near, 0, Io('ok', 'd65536', 'p', False)))  # reads part 1, the write towards the endpoint gets EPIPE
        sc.env_write(0, which, payload(rng, 2000, 3))       # part 2, sent after it stopped receiving
        sc.do(('cb', near, 0, full))
        q1 = sc.drain(on_round=lambda s_: oracle_eof_order(ctx, s_, prop, 'drain'))
        if q1 and not sc.stop:
            # one direction has ended, the other is still open: the flow is alive on both ends, so is its id
            oracle_ids_consistent(ctx, sc, prop)
        sc.do(('de', 0) if which == 'dst' else ('ae', 0))
        sc.do(('ae', 0) if which == 'dst' else ('de', 0))
        q = sc.drain(on_round=lambda s_: oracle_eof_order(ctx, s_, prop, 'final drain'))
        if not sc.stop:
            oracle_eof_order(ctx, sc, prop, 'end')
            oracle_complete(ctx, sc, prop, q)
            if q:
                oracle_ids_consistent(ctx, sc, prop)
                oracle_teardown(ctx, sc, prop)
                oracle_quiet(ctx, sc, prop)
        oracle_alive(ctx, sc, prop, 'run')
        return sc.s.ins, sc.s.outs
    finally:
        sc.close()


def stop_with_buffered_reply(ctx, rng, prop):
    """The destination answers early and then refuses the upload (EPIPE): the STOP_SENDING this causes reaches the
    client while it still holds earlier answer bytes for an application socket that would block, and more of the
    answer follows.  The answer direction is not the one that failed: the application must receive all of it."""
    o = Opts(nflows=1, steps=0)
    sc = Scenario(rng, o)
    try:
        t = sc.t
        full = Io('ok', 'd65536', 's65536', False)
        sc.do(('accept',))
        sc.do(('deliver', 's', 'ok'))
        sc.do(('deliver', 's', 'ok'))
        if sc.stop or not t.flows:
            return sc.s.ins, sc.s.outs
        sc.env_write(0, 'dst', payload(rng, 3000, 1))                  # answer, part 1
        sc.do(('cb', 's', 0, full))
        while t.smux.outbuf and not sc.stop:
            sc.do(('deliver', 'c', 'ok'))
        sc.do(('cb', 'c', 0, Io('ok', 'a', 'a', False)))               # the application socket would block
        sc.env_write(0, 'app', payload(rng, 1500, 2))                  # the upload the destination will refuse
        sc.do(('cb', 'c', 0, Io('ok', 'd65536', 'a', False)))
        while t.cmux.outbuf and not sc.stop:
            sc.do(('deliver', 's', 'ok'))
        sc.refused.add((0, 'dst'))
        sc.do(('cb', 's', 0, Io('ok', 'a', 'p', False)))               # EPIPE towards the destination
        sc.do(('pre', 's', 0))                                          # ... which asks the client to stop sending
        sc.env_write(0, 'dst', payload(rng, 2500, 3))                  # answer, part 2
        sc.do(('cb', 's', 0, Io('ok', 'd65536', 'p', False)))
        while t.smux.outbuf and not sc.stop:
            sc.do(('deliver', 'c', 'ok'))
        sc.do(('cb', 'c', 0, full))
        sc.do(('de', 0))
        sc.do(('ae', 0))
        q = sc.drain()
        if not sc.stop:
            oracle_prefix(ctx, sc, prop, 'end')
            oracle_complete(ctx, sc, prop, q)
        oracle_alive(ctx, sc, prop, 'run')
        return sc.s.ins, sc.s.outs
    finally:
        sc.close()


def odd_destinations(ctx, rng, prop):
    """Destinations in every textual form the client can put into a CONNECT message (IPv4, IPv6, scoped link-local
    IPv6 as getsockname reports it, IPv4-mapped): the server must open each of them and carry the bytes."""
    import socket as _socket
    forms = [(int(_socket.AF_INET), '192.0.2.7', 80), (int(_socket.AF_INET6), '2001:db8::7', 443),
             (int(_socket.AF_INET6), 'fe80::1%eth0', 22), (int(_socket.AF_INET6), 'fe80::2%1', 8080),
             (int(_socket.AF_INET6), '::ffff:192.0.2.9', 80), (int(_socket.AF_INET6), '::1', 65535)]
    o = Opts(nflows=len(forms), steps=0)
    sc = Scenario(rng, o)
    try:
        t = sc.t
        for (fam, ip, port) in forms:
            sc.do(('accept', fam, ip, port))
        q = sc.drain()
        if sc.stop or len(t.flows) < len(forms):
            oracle_alive(ctx, sc, prop, 'run')
            return sc.s.ins, sc.s.outs
        for i in range(len(forms)):
            sc.env_write(i, 'app', payload(rng, 300, 10 + i))
            sc.env_write(i, 'dst', payload(rng, 200, 40 + i))
        sc.drain()
        for i in range(len(forms)):
            sc.do(('ae', i))
            sc.do(('de', i))
        q = sc.drain()
        if not sc.stop:
            for i, f in enumerate(t.flows):
                if not f.s_ever:
                    report(ctx, sc, '%s:connect:destination-form-not-opened-by-the-server' % prop, i,
                           'destination %s' % (forms[i],), 'the server opens the connection the client asked for',
                           'no server-side handler was ever created; the application got %d bytes and %s'
                           % (len(f.app.delivered), 'end-of-stream' if f.app.saw_shut else 'nothing'))
                    break
            oracle_prefix(ctx, sc, prop, 'end')
            oracle_complete(ctx, sc, prop, q)
        oracle_alive(ctx, sc, prop, 'run')
        return sc.s.ins, sc.s.outs
    finally:
        sc.close()


def closed_app_streaming_dst(ctx, rng, prop):
    """The application goes away completely (end-of-stream, and writes to it fail with EPIPE) while the destination,
    which only saw a half-close, keeps streaming: the flow must end on BOTH ends — an id freed on the client while
    the server still has the flow open would later be handed to another connection."""
    o = Opts(nflows=1, steps=0)
    sc = Scenario(rng, o)
    try:
        t = sc.t
        full = Io('ok', 'd65536', 's65536', False)
        sc.do(('accept',))
        sc.do(('deliver', 's', 'ok'))
        sc.do(('deliver', 's', 'ok'))
        if sc.stop or not t.flows:
            return sc.s.ins, sc.s.outs
        sc.env_write(0, 'app', payload(rng, 10, 1))
        sc.do(('ae', 0))
        sc.drain()
        sc.refused.add((0, 'app'))
        for k in range(4):
            sc.env_write(0, 'dst', payload(rng, 3000, 20 + k))        # the destination keeps streaming
            sc.do(('cb', 's', 0, full))
            while t.smux.outbuf and not sc.stop:
                sc.do(('deliver', 'c', 'ok'))
            sc.do(('cb', 'c', 0, Io('ok', 'a', 'p', False)))            # the application is gone: EPIPE
            for _ in range(3):
                sc.do(('idle', 'c'))
                sc.do(('cb', 'c', 0, Io('ok', 'a', 'p', False)))
                while t.cmux.outbuf and not sc.stop:
                    sc.do(('deliver', 's', 'ok'))
                sc.do(('idle', 's'))
                sc.do(('cb', 's', 0, full))
        q = sc.drain()
        if not sc.stop and q:
            oracle_ids_consistent(ctx, sc, prop)
        oracle_alive(ctx, sc, prop, 'run')
        return sc.s.ins, sc.s.outs
    finally:
        sc.close()


def abort_then_new_flow(ctx, rng, prop, chunks):
    """An application aborts a download (EPIPE towards it) while frames of that flow are still in flight from
    the server; a new connection is accepted before they arrive.  Nothing of the old flow may reach the new one."""
    o = Opts(nflows=2, steps=0)
    sc = Scenario(rng, o)
    try:
        sc.do(('accept',))
        sc.do(('deliver', 's', 'ok'))
        sc.do(('deliver', 's', 'ok'))
        for k in range(chunks):
            sc.env_write(0, 'dst', payload(rng, 2048, 7 + k))
            sc.do(('cb', 's', 0, Io('ok', 'd2048', 'a', False)))
        # first frames reach the client, the application is gone: EPIPE
        while sc.t.smux.outbuf and not sc.stop:
            import struct
            (_a, _b, chan, cmd, _n) = struct.unpack('!ccHHH', sc.t.smux.outbuf[0][:8])
            sc.do(('deliver', 'c', 'ok'))
            if cmd == sc.t.ssnet.CMD_TCP_DATA:
                break
        sc.do(('ae', 0))
        sc.do(('cb', 'c', 0, Io('ok', 'd1', 'p', False)))
        sc.do(('idle', 'c'))
        sc.do(('cb', 'c', 0, Io('ok', 'd1', 'p', False)))
        sc.do(('idle', 'c'))
        sc.faulty.add(0)
        # a new connection arrives while the rest of the old flow's frames are still in flight
        sc.do(('accept',))
        t = sc.t
        if len(t.flows) > 1 and t.flows[1].chan == t.flows[0].chan and t.smux.channels.get(t.flows[0].chan):
            # the concrete instance of C06_fresh_before_wrap / C06_released_id_not_next: 65535 ids, two allocations
            report(ctx, sc, '%s:ids:handed-out-again-while-the-peer-still-has-the-old-flow-open' % prop, 1, 'second accept',
                   'an identifier the cursor has not come round to (MAX_CHANNEL ids, two allocations so far)',
                   'id %d again: the server still has the first flow registered under it, %d of its frames are on their '
                   'way to the client' % (t.flows[1].chan, len(t.smux.outbuf)))
        oracle_prefix(ctx, sc, prop, 'after abort')
        if len(sc.t.flows) > 1:
            sc.env_write(1, 'dst', b'fresh answer for the second connection')
        q = sc.drain(on_round=lambda s: oracle_prefix(ctx, s, prop, 'drain after abort'))
        for i in range(len(sc.t.flows)):
            sc.do(('ae', i))
            sc.do(('de', i))
        q = sc.drain(on_round=lambda s: oracle_prefix(ctx, s, prop, 'final drain after abort'))
        if not sc.stop:
            oracle_complete(ctx, sc, prop, q)
            if q:
                oracle_quiet(ctx, sc, prop)
        oracle_alive(ctx, sc, prop, 'run')
        return sc.s.ins, sc.s.outs
    finally:
        sc.close()


def continue_fairly(s, script_lines=(), max_rounds=600):
    """After the recorded steps of a replay: let both loops run on in the environment as it is, every socket
    answering fully, until nothing changes any more.  A recorded schedule is exact only for the code it was recorded
    on (a `round` step names how many frames had arrived THEN); on other code the same steps can simply stop early, and
    'at the end of the schedule bytes are missing' would be said of code that delivers them one pass later."""
    sc = Scenario.__new__(Scenario)
    sc.rng = None
    sc.o = Opts(latency=any(l.startswith('full ') for l in script_lines))
    sc.s, sc.t = s, s.t
    sc.faulty, sc.refused, sc.aborted = set(), set(), set()
    sc.wire, sc.nontrivial = [], set()
    sc._seen_c = sc._seen_s = 0
    sc.stop = False
    sc.bare = set()
    sc.followed = {'c': set(), 's': set()}
    sc.idle_bad, sc.mu_bad, sc.dead_bad, sc.wrote = [], [], [], {}
    return sc.drain(max_rounds=max_rounds)


def replay_torn_down(s, case):
    """Replay verdict for the '...-flow-not-torn-down' keys: the recorded steps, a fair continuation, then the flow the
    report names must be gone from both ends (handlers dropped, id free, sockets shut)."""
    continue_fairly(s, case.get('script', []))
    t = s.t
    if t.died:
        return True, 'process died: %s' % t.died
    i = case.get('flow') or 0
    if i >= len(t.flows):
        return False, 'the flow the report names does not exist on this tree'
    f = t.flows[i]
    st = dict(client_handler=f.cproxy in t.chandlers, server_handler=f.sproxy is not None and f.sproxy in t.shandlers,
              client_id_held=bool(t.cmux.channels.get(f.chan)), server_id_held=bool(t.smux.channels.get(f.chan)),
              app_shut=f.app.saw_shut, dst_shut=f.dst.saw_shut or not f.s_ever)
    bad = (st['client_handler'] or st['server_handler'] or st['client_id_held'] or st['server_id_held']
           or not st['app_shut'] or not st['dst_shut'])
    return bad, ('flow %d after the recorded schedule and a fair continuation: %r' % (i, st))


def flows_finish_in_one_pass(ctx, rng, prop, nflows, end):
    """Several flows, adjacent in the handler list, finish in the SAME pass of one end's loop (the peer's last data
    and end-of-stream for all of them arrive in one read), and then nothing happens any more: every one of them is
    torn down — handlers out of the list before the loop goes to sleep, ids free, sockets released."""
    o = Opts(nflows=nflows, steps=0)
    sc = Scenario(rng, o)
    try:
        t = sc.t
        full = Io('ok', 'd65536', 's65536', False)
        for _ in range(nflows):
            sc.do(('accept',))
        sc.drain()
        if sc.stop or len(t.flows) < nflows:
            return sc.s.ins, sc.s.outs
        near, far = ('c', 's') if end == 'c' else ('s', 'c')
        close_near, close_far = (('ae', 'de') if end == 'c' else ('de', 'ae'))
        side_far = 'dst' if end == 'c' else 'app'
        for i in range(nflows):
            sc.do((close_near, i))                 # this end's endpoints half-close first
        sc.drain()
        for i in range(nflows):
            sc.env_write(i, side_far, payload(rng, 300 + 17 * i, 40 + i))
            sc.do((close_far, i))
        farq = t.smux if far == 's' else t.cmux
        nearq = t.smux if near == 's' else t.cmux
        sc.do(('round', far, len(nearq.outbuf), 'auto', full))     # the far end frames data + EOF of every flow
        sc.do(('round', far, len(nearq.outbuf), 'auto', full))
        sc.do(('round', near, len(farq.outbuf), 'auto', full))     # ... and they all arrive in one read
        sc.do(('round', near, len(farq.outbuf), 'auto', full))     # the pass after: clean-up, then the loop waits
        sc.do(('round', near, len(farq.outbuf), 'auto', full))
        q = sc.drain()
        if not sc.stop:
            oracle_eof_order(ctx, sc, prop, 'end')
            oracle_complete(ctx, sc, prop, q)
            if q:
                oracle_teardown(ctx, sc, prop)
                oracle_quiet(ctx, sc, prop)
            else:
                report(ctx, sc, '%s:liveness:no-quiescence-within-bound' % prop, 0, 'drain', 'quiescent', 'still changing')
        oracle_alive(ctx, sc, prop, 'run')
        return sc.s.ins, sc.s.outs
    finally:
        sc.close()


def replay_script(lines, steps=None):
    """Re-run a recorded scenario on the real code; returns the Scenario-like object.  With `steps` (the recorded
    real-code steps) the run is exact, select-loop rounds included; `lines` alone (older replay files) re-runs the
    model-level rendering, which has no rounds."""
    verbose = 0
    platform = 0
    clock = 0
    if isinstance(lines, dict):
        steps = lines.get('steps')
        cfgv = lines.get('cfg') or []
        verbose = cfgv[4] if len(cfgv) > 4 else 0
        platform = cfgv[5] if len(cfgv) > 5 else 0
        clock = cfgv[6] if len(cfgv) > 6 else 0
        lines = lines['script']
    cfg = lines[0].split()
    maxchan, bufsize, chani = int(cfg[1]), int(cfg[2]), int(cfg[3])
    occ = [int(x) for x in cfg[4:]]
    s = ts.Script(maxchan, bufsize, chani, occ, verbose=verbose, platform=platform, clock=clock)
    wrote = {}
    if steps:
        for st in decode_steps(steps):
            if st[0] in ('aw', 'dw'):
                i, side = st[1], ('app' if st[0] == 'aw' else 'dst')
                if i < len(s.t.flows):
                    env = s.t.flows[i].app if side == 'app' else s.t.flows[i].dst
                    if not env.eof_in:
                        wrote[(i, side)] = wrote.get((i, side), b'') + st[2]
            if not s.do(st):
                break
        return s, wrote
    for line in lines[1:]:
        w = line.split()
        if w[0] == 'q' or (w[0] == 'pre' and w[2] == '99999'):
            if w[0] == 'pre':
                s.do(('idle', w[1]))
            continue
        if w[0] == 'accept':
            s.do(('accept',))
        elif w[0] == 'cb':
            s.do(('cb', w[1], int(w[2]), Io(w[3], w[4], w[5], w[6] == '1')))
        elif w[0] == 'pre':
            s.do(('pre', w[1], int(w[2])))
        elif w[0] == 'deliver':
            s.do(('deliver', w[1], w[2]))
        elif w[0] in ('rm', 'full'):
            s.do((w[0], w[1]))
        elif w[0] == 'foreign':
            from common import unhex
            s.do(('foreign', w[1], int(w[2]), int(w[3]), unhex(w[4])))
        elif w[0] in ('aw', 'dw'):
            from common import unhex
            b = unhex(w[2])
            i = int(w[1])
            side = 'app' if w[0] == 'aw' else 'dst'
            if i < len(s.t.flows):
                env = s.t.flows[i].app if side == 'app' else s.t.flows[i].dst
                if not env.eof_in:
                    wrote[(i, side)] = wrote.get((i, side), b'') + b
            s.do((w[0], i, b))
        elif w[0] in ('ae', 'de'):
            s.do((w[0], int(w[1])))
    return s, wrote
