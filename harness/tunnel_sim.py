"""Tunnel simulator: the REAL ssnet.Mux / MuxWrapper / SockWrapper / Proxy / runonce, the real
client.onaccept_tcp and the real closures of server.main (captured by running server.main up to
its first runonce) on scripted fake sockets.  One script line = one step; the same lines drive
the Lean model (Drivers/Tunnel.lean).  After every step both sides print the canonical state.
"""
import errno
import io
import struct
import sys

import common
from common import hexb


# the errno a would-block is reported with: EAGAIN on POSIX; on Windows a non-blocking socket reports WSAEWOULDBLOCK
# (10035), which is what `errno.EWOULDBLOCK` is there, while `errno.EAGAIN` stays 11
WOULD_BLOCK = [errno.EAGAIN]


class Stop(Exception):
    pass


def digest(b):
    """length + the last 12 bytes (cheap on both sides; a slicing error shifts the tail)."""
    return '%d:%s' % (len(b), bytes(b[-12:]).hex() or '-')


def chunks(buf):
    """A wrapper's buffer as a list of byte chunks, whatever container the code under test keeps it in (the
    pinned code keeps a list of chunks; a single bytes-like buffer reads as one chunk)."""
    if isinstance(buf, (bytes, bytearray, memoryview)):
        return [bytes(buf)] if len(buf) else []
    return [bytes(b) for b in buf]


def b01(v):
    return '1' if v else '0'


class Env:
    """One application / destination endpoint (survives the socket object)."""

    def __init__(self):
        self.pending = b''
        self.eof_in = False
        self.saw_shut = False
        self.consumed = b''
        self.delivered = b''
        self.closed = False

    def show(self):
        return 'p%de%ss%sc%sd%s' % (len(self.pending), b01(self.eof_in), b01(self.saw_shut),
                                    digest(self.consumed), digest(self.delivered))


class Io:
    def __init__(self, conn='ok', recv='a', send='a', shut_err=False):
        self.conn, self.recv, self.send, self.shut_err = conn, recv, send, shut_err

    def text(self):
        return '%s %s %s %s' % (self.conn, self.recv, self.send, b01(self.shut_err))


QUIET = Io('ok', 'a', 's65536', False)


class FakeSocket:
    family = 2
    _n = 0

    def __init__(self, env, name):
        FakeSocket._n += 1
        self.n = FakeSocket._n
        self.env = env
        self.name = name
        self.io = Io()
        self.log = []          # endpoint-visible events: ('data', n) / ('shutdown',)

    def __repr__(self):
        return 'Fake#%d' % self.n

    def fileno(self):
        return 3000 + self.n

    def _live(self):
        # a closed descriptor: every further operation fails with EBADF, as on a real socket
        if getattr(self.env, 'closed', False):
            raise OSError(errno.EBADF, 'Bad file descriptor (socket already closed)')

    def setblocking(self, b):
        self._live()

    def getpeername(self):
        return (self.name, 1234)

    def getsockname(self):
        return ('127.0.0.1', 12300)

    def getsockopt(self, level, opt):
        self._live()
        c = self.io.conn
        return int(c[1:].split(':')[1]) if c != 'ok' else 0

    def connect(self, addr):
        self._live()
        c = self.io.conn
        if c == 'ok':
            return
        e = int(c[1:].split(':')[0])
        raise OSError(e, 'scripted connect errno %d' % e)

    def recv(self, n):
        self._live()
        r = self.io.recv
        if r.startswith('x'):
            # 'x' = reset; 'x<errno>' = that errno (OSError picks the subclass Python would raise for it)
            raise OSError(int(r[1:]) if len(r) > 1 else errno.ECONNRESET, 'scripted error')
        if r == 'a':
            raise BlockingIOError(WOULD_BLOCK[0], 'scripted would-block')
        k = max(int(r[1:]), 1)
        env = self.env
        if not env.pending:
            if env.eof_in:
                return b''
            raise BlockingIOError(WOULD_BLOCK[0], 'nothing pending')
        out = env.pending[:k]
        env.pending = env.pending[k:]
        env.consumed += out
        return out

    def send(self, b):
        self._live()
        r = self.io.send
        if self.env.saw_shut and not r.startswith('x'):
            r = 'p'
        if r.startswith('x'):
            raise OSError(int(r[1:]) if len(r) > 1 else errno.ECONNRESET, 'scripted error')
        if r == 'p':
            raise BrokenPipeError(errno.EPIPE, 'scripted epipe')
        if r == 'a':
            raise BlockingIOError(WOULD_BLOCK[0], 'scripted would-block')
        k = min(int(r[1:]), len(b))
        self.env.delivered += bytes(b[:k])
        self.log.append(('data', k))
        return k

    def shutdown(self, how):
        self._live()
        self.env.saw_shut = True
        self.log.append(('shutdown',))
        if self.io.shut_err:
            raise OSError(errno.ENOTCONN, 'scripted shutdown error')

    def close(self):
        self.env.closed = True


class SockStub:
    """What the simulator keeps of a socket whose handler is gone: its event log."""

    def __init__(self, log):
        self.log = log


class DummyFile:
    def __init__(self, n):
        self.n = n
        self.data = b''          # bytes made readable for one real Mux.fill (see RealTunnel.round)

    def fileno(self):
        return self.n

    def read(self, n):
        d, self.data = self.data, b''
        return d

    def write(self, b):
        # the pipe takes nothing right now: a real Mux.flush leaves the queue as it is (the simulator moves frames)
        raise BlockingIOError(WOULD_BLOCK[0], 'pipe full')

    def flush(self):
        pass


class FakeListener:
    family = 2

    def __init__(self):
        self.next = None

    def accept(self):
        s = self.next
        return s, ('10.0.0.1', 40000 + s.n)


class FakeMethod:
    next_dst = None      # (ip text, port) the next accepted connection was dialled to, if the scenario says

    def get_tcp_dstip(self, sock):
        if self.next_dst is not None:
            d, self.next_dst = self.next_dst, None
            return d
        return ('192.0.2.%d' % (sock.n % 250 + 1), 80)


class SocketShim:
    """Stands in for the `socket` module inside ssnet: socket.socket(family) → scripted fake."""

    def __init__(self, real, factory):
        self._real = real
        self._factory = factory

    def socket(self, *a, **k):
        return self._factory(*a, **k)

    def __getattr__(self, n):
        return getattr(self._real, n)


class FlowRec:
    def __init__(self, chan):
        self.chan = chan
        self.app = Env()
        self.dst = Env()
        self.app_sock = None
        self.dst_sock = None
        self.cproxy = None
        self.sproxy = None
        self.s_ever = False
        self.connect_aborted = False


class BrokenStream:
    """A diagnostics stream that is gone (the terminal closed, the pipe's reader died): every write fails."""

    def write(self, s):
        raise IOError(errno.EIO, 'scripted: stderr is gone')

    def flush(self):
        raise IOError(errno.EIO, 'scripted: stderr is gone')


class RecordingStream:
    def __init__(self):
        self.written = []

    def write(self, s):
        self.written.append(s)
        return len(s)

    def flush(self):
        pass


# What the clocks do between the steps of a scenario: (wall step, monotonic step) per step, plus one jump of the wall
# clock / of both clocks after the given step.  0 = time stands still; 1 = half a second per step; 2 = 31 s per step
# (a slow peer: every timeout anybody might invent has run out by the next step); 3 = the wall clock is stepped forward
# an hour (NTP) after the third step; 4 = stepped back an hour; 5 = both clocks jump an hour (suspend / resume).
CLOCK_PROGRAMS = {0: (0.0, 0.0, None), 1: (0.5, 0.5, None), 2: (31.0, 31.0, None),
                  3: (0.01, 0.01, (3, 3600.0, 0.0)), 4: (0.01, 0.01, (3, -3600.0, 0.0)),
                  5: (0.01, 0.01, (3, 3600.0, 3600.0))}


class RealTunnel:
    def tick(self):
        dw, dm, jump = CLOCK_PROGRAMS[self.clock]
        self.nticks += 1
        self.now += dw
        self.mono += dm
        if jump and self.nticks == jump[0]:
            self.now += jump[1]
            self.mono += jump[2]

    def __init__(self, maxchan=65535, bufsize=32768, chani=0, extra_occ=(), verbose=0, platform=0, clock=0):
        """platform: 0 = POSIX errno numbering; 1 = the numbering of a platform where a would-block on a socket is
        reported as errno.EWOULDBLOCK = 10035 and differs from errno.EAGAIN (Windows).
        verbose: the verbosity both processes run at (0-3); 10 + v = verbosity v with a stderr that is gone.
        Whatever the verbosity and whatever happens to the diagnostics, the behaviour must be the same, and nothing but
        the Mux may write to the process's stdout (in the server that is the tunnel itself).
        clock: what the two clocks do while the scenario runs (CLOCK_PROGRAMS): a TCP flow's bytes and its end do not
        depend on what time it is, how long a step took, or on the wall clock being stepped."""
        import sshuttle.ssnet as ssnet
        import sshuttle.client as client
        import sshuttle.server as server
        import sshuttle.helpers as helpers
        self.ssnet, self.client, self.server, self.helpers = ssnet, client, server, helpers
        self.saved = dict(max=ssnet.MAX_CHANNEL, buf=ssnet.LATENCY_BUFFER_SIZE, socket=ssnet.socket,
                          nbio=ssnet.set_non_blocking_io, select=ssnet.select, ctime=client.time.time,
                          cmono=client.time.monotonic,
                          stderr=sys.stderr, stdout=sys.stdout, verbose=helpers.verbose)
        self.saved['ewouldblock'] = errno.EWOULDBLOCK
        self.saved['wb'] = WOULD_BLOCK[0]
        if platform == 1:
            errno.EWOULDBLOCK = 10035
            WOULD_BLOCK[0] = 10035
        helpers.verbose = verbose % 10
        sys.stderr = BrokenStream() if verbose >= 10 else io.StringIO()
        self.stdout_rec = RecordingStream()
        sys.stdout = self.stdout_rec
        ssnet.MAX_CHANNEL = maxchan
        ssnet.LATENCY_BUFFER_SIZE = bufsize
        ssnet.set_non_blocking_io = lambda fd: None
        self.clock, self.nticks = clock, 0
        self.now, self.mono = 1000.0, 77.25
        client.time.time = lambda: self.now
        client.time.monotonic = lambda: self.mono
        client.dnsreqs.clear()
        client.udp_by_src.clear()
        self.flows = []
        self.died = None
        self.bufsize = bufsize
        self.pending_dst_flow = None
        ssnet.socket = SocketShim(self.saved['socket'], self._new_dst_socket)
        # --- client end
        self.cmux = ssnet.Mux(DummyFile(900), DummyFile(901))
        self.cmux.chani = chani
        for c in extra_occ:
            self.cmux.channels[c] = lambda cmd, data: None
        self.cmux.got_routes = lambda data: None
        self.cmux.got_host_list = lambda data: None
        self.chandlers = [self.cmux]
        self.listener = FakeListener()
        self.method = FakeMethod()
        # --- server end: the real wiring of server.main, captured at its first runonce
        try:
            self.smux, self.shandlers = self._capture_server()
        except BaseException:
            self.close()
            raise
        self.real_got_udp_open = self.smux.got_udp_open      # kept for checks that put a datagram flow next to the streams
        self.smux.got_dns_req = None
        self.smux.got_udp_open = None
        self.real_got_host_req = self.smux.got_host_req      # kept for checks that drive the host-watch path
        self.smux.got_host_req = lambda data: None
        self.ready = ([], [], [])
        self.cur_handlers = None
        self.dead_at_select = []

        class SelShim:
            def __init__(s, real):
                s._real = real

            def select(s, r, w, x, *a):
                rr, ww, xx = self.ready
                # this is where the real loop may sleep for as long as nothing happens: a handler that finished
                # must have left the list by now (its sockets are closed only once nothing refers to it any more)
                if self.cur_handlers is not None:
                    dead = [h for h in self.cur_handlers if not getattr(h, 'ok', True)]
                    if dead:
                        self.dead_at_select.append(len(dead))
                # a tunnel read file is readable only while bytes are waiting in it
                return ([i for i in r if i in rr and (not isinstance(i, DummyFile) or i.data)],
                        [i for i in w if i in ww], [])

            def __getattr__(s, n):
                return getattr(s._real, n)
        ssnet.select = SelShim(self.saved['select'])

    def _capture_server(self):
        server, ssnet = self.server, self.ssnet
        captured = {}
        saved = dict(fileio=server.io.FileIO, runonce=ssnet.runonce, stdout=sys.stdout)

        def fake_runonce(handlers, mux, *a, **k):
            captured['h'], captured['m'] = handlers, mux
            raise Stop()

        class FakeIoMod:
            @staticmethod
            def FileIO(fd, mode='r'):
                return DummyFile(902 + fd)
        real_io = server.io
        server.io = FakeIoMod
        ssnet.runonce = fake_runonce
        sys.stdout = io.StringIO()
        try:
            try:
                server.main(latency_control=True, latency_buffer_size=self.bufsize, auto_hosts=False,
                            to_nameserver=None, auto_nets=False)
            except Stop:
                pass
        finally:
            server.io = real_io
            ssnet.runonce = saved['runonce']
            sys.stdout = saved['stdout']
        return captured['m'], captured['h']

    def close(self):
        ssnet, client = self.ssnet, self.client
        ssnet.MAX_CHANNEL = self.saved['max']
        ssnet.LATENCY_BUFFER_SIZE = self.saved['buf']
        ssnet.socket = self.saved['socket']
        ssnet.set_non_blocking_io = self.saved['nbio']
        ssnet.select = self.saved['select']
        client.time.time = self.saved['ctime']
        client.time.monotonic = self.saved['cmono']
        sys.stderr = self.saved['stderr']
        sys.stdout = self.saved['stdout']
        self.helpers.verbose = self.saved['verbose']
        errno.EWOULDBLOCK = self.saved['ewouldblock']
        WOULD_BLOCK[0] = self.saved['wb']
        client.dnsreqs.clear()
        client.udp_by_src.clear()

    # ------------------------------------------------------------ helpers
    def _new_dst_socket(self, *a, **k):
        f = self.pending_dst_flow
        s = FakeSocket(f.dst if f else Env(), 'dst')
        if f is not None:
            f.dst_sock = s
            s.io = self.pending_conn_io
        return s

    def _pop_frame(self, mux):
        p = mux.outbuf.pop(0)
        (s1, s2, chan, cmd, n) = struct.unpack('!ccHHH', p[:8])
        return chan, cmd, p[8:]

    def _guard(self, who, fn):
        if self.died:
            return
        try:
            fn()
        except Exception as e:  # noqa
            self.died = '%s: %s: %s' % (who, type(e).__name__, e)

    # ------------------------------------------------------------ steps
    def accept(self, dst=None):
        """dst = (family, ip text, port) the application dialled (default: an IPv4 documentation address)."""
        f = FlowRec(None)
        s = FakeSocket(f.app, 'app')
        if dst is not None:
            s.family = dst[0]
            self.method.next_dst = (dst[1], dst[2])
        f.app_sock = s
        self.listener.next = s
        n0 = len(self.chandlers)

        def go():
            self.client.onaccept_tcp(self.listener, self.method, self.cmux, self.chandlers)
        self._guard('client', go)
        if len(self.chandlers) == n0:
            return None      # discarded
        p = self.chandlers[-1]
        f.chan = p.wrap2.channel
        f.cproxy = p
        self.flows.append(f)
        # payload of the CONNECT frame just queued
        last = self.cmux.outbuf[-1]
        return last[8:]

    def cb(self, end, i, iov):
        if i >= len(self.flows):
            return
        f = self.flows[i]
        p = f.cproxy if end == 'c' else f.sproxy
        hl = self.chandlers if end == 'c' else self.shandlers
        if p is None or p not in hl:
            return
        sock = f.app_sock if end == 'c' else f.dst_sock
        sock.io = iov
        self._note_abort(end, f, p)
        self._guard('client' if end == 'c' else 'server', lambda: p.callback(sock))

    def _note_abort(self, end, f, p):
        # try_connect gives up a connect that is still pending once the write side is shut (ssnet.py:144-149):
        # the destination was never connected as far as the tunnel is concerned, so nothing it 'wrote' can arrive
        if end == 's':
            sw = p.wrap2
            if sw.connect_to is not None and sw.shut_write:
                f.connect_aborted = True

    def pre(self, end, i):
        if i >= len(self.flows):
            return 'wants=none'
        f = self.flows[i]
        p = f.cproxy if end == 'c' else f.sproxy
        hl = self.chandlers if end == 'c' else self.shandlers
        mux = self.cmux if end == 'c' else self.smux
        if p is None or p not in hl:
            return 'wants=none'
        r, w, x = [], [], []
        self._guard(end, lambda: p.pre_select(r, w, x))
        sock = f.app_sock if end == 'c' else f.dst_sock
        return 'wants=%s%s%s' % (b01(sock in r), b01(sock in w), b01(mux.wfile in w))

    def deliver(self, end, conn='ok'):
        src = self.cmux if end == 's' else self.smux
        dst = self.smux if end == 's' else self.cmux
        if not src.outbuf:
            return
        chan, cmd, data = self._pop_frame(src)
        if end == 's' and cmd == self.ssnet.CMD_TCP_CONNECT:
            cand = [f for f in self.flows if f.chan == chan and not f.s_ever]
            self.pending_dst_flow = cand[0] if cand else None
            self.pending_conn_io = Io(conn=conn)
            n0 = len(self.shandlers)
            self._guard('server', lambda: dst.got_packet(chan, cmd, data))
            if len(self.shandlers) > n0 and cand:
                cand[0].sproxy = self.shandlers[-1]
                cand[0].s_ever = True
            self.pending_dst_flow = None
        else:
            self._guard('client' if end == 'c' else 'server', lambda: dst.got_packet(chan, cmd, data))

    def _reap(self):
        """Object lifetime as in CPython: a handler that left the handler list is unreferenced, so its
        wrappers are finalised at once (their __del__ runs) and its socket object is released — which is what closes
        the descriptor.  The simulator must not keep them alive: once a handler is gone it keeps only a weak
        reference to that handler's socket (and the socket's event log)."""
        import gc
        import weakref
        self.listener.next = None
        for f in self.flows:
            if f.cproxy is not None and f.cproxy not in self.chandlers:
                f.cproxy = None
            if f.sproxy is not None and f.sproxy not in self.shandlers:
                f.sproxy = None
            for pa, sa, ra in (('cproxy', 'app_sock', 'app_ref'), ('sproxy', 'dst_sock', 'dst_ref')):
                sock = getattr(f, sa)
                if getattr(f, pa) is None and isinstance(sock, FakeSocket) and (pa == 'cproxy' or f.s_ever):
                    setattr(f, ra, weakref.ref(sock))
                    setattr(f, sa, SockStub(sock.log))
                sock = None
        gc.collect()

    def unreleased(self):
        """(flow index, 'app'|'dst') of sockets whose handler is gone but which something still references: the
        descriptor stays open, the endpoint is left hanging."""
        out = []
        for i, f in enumerate(self.flows):
            for ra, name in (('app_ref', 'app'), ('dst_ref', 'dst')):
                r = getattr(f, ra, None)
                if r is not None and r() is not None:
                    out.append((i, name))
        return out

    def rm(self, end):
        hl = self.chandlers if end == 'c' else self.shandlers
        for h in [h for h in hl if not h.ok]:
            hl.remove(h)
        h = None
        self._reap()

    def round_idle(self, end):
        """A real runonce with nothing ready: removes dead handlers, runs every pre_select."""
        hl = self.chandlers if end == 'c' else self.shandlers
        mux = self.cmux if end == 'c' else self.smux
        self.ready = ([], [], [])
        self.cur_handlers = hl
        try:
            self._guard(end, lambda: self.ssnet.runonce(hl, mux))
        finally:
            self.cur_handlers = None
        self._reap()

    def round(self, end, nframes, ready_flows, iov):
        """One REAL `ssnet.runonce` at `end`: the next `nframes` frames of the peer's queue arrive as bytes on
        the mux read file, and the endpoint sockets of `ready_flows` are readable and writable (they answer per
        `iov`).  Returns (frames delivered, flow indices in the order their Proxy.callback ran)."""
        hl, mux, src = (self.chandlers, self.cmux, self.smux) if end == 'c' else (self.shandlers, self.smux, self.cmux)
        k = 0
        while k < min(nframes, len(src.outbuf)):
            (_a, _b, _chan, cmd, _n) = struct.unpack('!ccHHH', src.outbuf[k][:8])
            if cmd == self.ssnet.CMD_TCP_CONNECT and not (ready_flows == 'auto' and end == 's'):
                break                      # outside a pass in the environment as it is, CONNECTs are delivered one by
                                           # one (they need a scripted connect result); inside one the connect succeeds
            k += 1
        data = b''.join(src.outbuf[:k])
        del src.outbuf[:k]
        socks, rsocks = [], []
        auto = (ready_flows == 'auto')
        for i, f in enumerate(self.flows):
            p = f.cproxy if end == 'c' else f.sproxy
            sock = f.app_sock if end == 'c' else f.dst_sock
            env = f.app if end == 'c' else f.dst
            if p is not None and p in hl and sock is not None:
                if auto:
                    # the environment as it is: readable iff something is pending or the endpoint closed; always
                    # writable; select hands back only what pre_select asked for
                    sock.io = iov
                    socks.append(sock)
                    if env.pending or env.eof_in:
                        rsocks.append(sock)
                elif i in ready_flows:
                    sock.io = iov          # select reports it; it answers per iov
                    socks.append(sock)
                    rsocks.append(sock)
                else:
                    sock.io = QUIET        # not reported: nothing to read, writable if the proxy tries
        for f in self.flows:
            p = f.cproxy if end == 'c' else f.sproxy
            if p is not None and p in hl:
                self._note_abort(end, f, p)
        mux.rfile.data = data
        # the tunnel's write file is writable whenever the Mux asks (it asks while its queue is non-empty): that
        # readiness gives every Proxy of this end a callback too — the loop's "flush wake-up"
        wready = list(socks) + ([mux.wfile] if auto else [])
        self.ready = (([mux.rfile] if data else []) + rsocks, wready, [])
        calls = []
        Proxy = self.ssnet.Proxy
        orig_cb = Proxy.callback

        def logged(p, sock):
            for i, f in enumerate(self.flows):
                if (f.cproxy if end == 'c' else f.sproxy) is p:
                    calls.append((i, (iov if (auto or i in ready_flows) else QUIET).text()))
                    break
            return orig_cb(p, sock)
        Proxy.callback = logged
        hooked = False
        if auto and end == 's':
            # a CONNECT handled inside the pass: the destination socket new_channel opens belongs to that flow, and the
            # handler it appends is that flow's server handler
            real_gp = mux.got_packet

            def gp(chan, cmd, pdata):
                if cmd != self.ssnet.CMD_TCP_CONNECT:
                    return real_gp(chan, cmd, pdata)
                cand = [f for f in self.flows if f.chan == chan and not f.s_ever]
                self.pending_dst_flow = cand[0] if cand else None
                self.pending_conn_io = iov
                n0 = len(self.shandlers)
                try:
                    return real_gp(chan, cmd, pdata)
                finally:
                    if len(self.shandlers) > n0 and cand:
                        cand[0].sproxy = self.shandlers[-1]
                        cand[0].s_ever = True
                    self.pending_dst_flow = None
            mux.got_packet = gp
            hooked = True
        order = [i for h in hl for i, f in enumerate(self.flows) if h is (f.cproxy if end == 'c' else f.sproxy)]
        self.cur_handlers = hl
        try:
            self._guard('client' if end == 'c' else 'server', lambda: self.ssnet.runonce(hl, mux))
        finally:
            self.cur_handlers = None
            Proxy.callback = orig_cb
            if hooked:
                del mux.got_packet
            self.ready = ([], [], [])
            mux.rfile.data = b''
        p = None
        self._reap()
        return k, order, calls

    def end_quiet(self, end):
        """`HQ` of every listed handler of one end, on the REAL objects (the conclusion of
        C02_pass_without_progress_is_quiet)."""
        for f in self.flows:
            p, hl, env, sock_first = ((f.cproxy, self.chandlers, f.app, True) if end == 'c'
                                      else (f.sproxy, self.shandlers, f.dst, False))
            if p is None or p not in hl:
                continue
            sw, mw = (p.wrap1, p.wrap2) if sock_first else (p.wrap2, p.wrap1)
            ok = (sw.connect_to is None and not b''.join(chunks(sw.buf)) and not b''.join(chunks(mw.buf)) and
                  (sw.shut_read or (not env.pending and not env.eof_in)) and
                  (not sw.shut_read or mw.shut_write) and (not mw.shut_read or sw.shut_write) and
                  (not sw.shut_write or mw.shut_read) and (not mw.shut_write or sw.shut_read))
            if not ok:
                return False
        return True

    def quiet(self):
        """'Nothing is pending' evaluated on the REAL objects (the Python twin of Quiet / quietB): queues drained,
        no handler connecting, both buffers of every listed handler empty, nothing to read, every flag that
        callback / pre_select would propagate already propagated."""
        if self.cmux.outbuf or self.smux.outbuf:
            return False
        for f in self.flows:
            for p, hl, env, sock_first in ((f.cproxy, self.chandlers, f.app, True), (f.sproxy, self.shandlers, f.dst, False)):
                if p is None or p not in hl:
                    continue
                sw, mw = (p.wrap1, p.wrap2) if sock_first else (p.wrap2, p.wrap1)
                ok = (sw.connect_to is None and not b''.join(chunks(sw.buf)) and not b''.join(chunks(mw.buf)) and
                      (sw.shut_read or (not env.pending and not env.eof_in)) and
                      (not sw.shut_read or mw.shut_write) and (not mw.shut_read or sw.shut_write) and
                      (not sw.shut_write or mw.shut_read) and (not mw.shut_write or sw.shut_read))
                if not ok:
                    return False
        return True

    def check_full(self, end):
        mux = self.cmux if end == 'c' else self.smux
        self._guard(end, mux.check_fullness)

    def foreign(self, end, chan, cmd, data):
        mux = self.cmux if end == 'c' else self.smux
        self._guard(end, lambda: mux.send(chan, cmd, data))

    def app_write(self, i, b):
        if i < len(self.flows) and not self.flows[i].app.eof_in:
            self.flows[i].app.pending += b

    def app_eof(self, i):
        if i < len(self.flows):
            self.flows[i].app.eof_in = True

    def dst_write(self, i, b):
        if i < len(self.flows) and not self.flows[i].dst.eof_in:
            self.flows[i].dst.pending += b

    def dst_eof(self, i):
        if i < len(self.flows):
            self.flows[i].dst.eof_in = True

    # ------------------------------------------------------------ canonical state
    def _show_mux(self, mux):
        last = '-'
        if mux.outbuf:
            p = mux.outbuf[-1]
            (s1, s2, chan, cmd, n) = struct.unpack('!ccHHH', p[:8])
            last = '%d.%d.%s' % (chan, cmd, digest(p[8:]))
        return 'n%d full%d too%s last=%s' % (len(mux.outbuf), mux.fullness, b01(mux.too_full), last)

    @staticmethod
    def _bufs(l):
        return ','.join(digest(b) for b in l) if l else '-'

    def _show_proxy(self, p, hl, sock_first):
        if p is None or p not in hl:
            return 'none'
        sw, mw = (p.wrap1, p.wrap2) if sock_first else (p.wrap2, p.wrap1)
        return 'sw(%s;r%sw%sc%sx%s)mw(%d;%s;r%sw%s)ok%s' % (
            self._bufs(chunks(sw.buf)), b01(sw.shut_read), b01(sw.shut_write), b01(sw.connect_to is not None), b01(sw.exc),
            mw.channel, self._bufs(chunks(mw.buf)), b01(mw.shut_read), b01(mw.shut_write), b01(p.ok))

    # ---- the termination measure of Spec/Measure.lean, counted on the real objects (same weights)
    def _q_mu(self, mux):
        n = 0
        for p in mux.outbuf:
            (_s1, _s2, _chan, cmd, ln) = struct.unpack('!ccHHH', p[:8])
            n += 2 + 3 * ln + ((3 + 3 * ln) if cmd == self.ssnet.CMD_PING else 0)
        return n

    def _h_mu(self, p, hl, sock_first):
        if p is None or p not in hl:
            return 0
        sw, mw = (p.wrap1, p.wrap2) if sock_first else (p.wrap2, p.wrap1)
        s_mu = (6 * sum(len(b) for b in chunks(sw.buf)) + len(chunks(sw.buf)) + (0 if sw.shut_read else 1) + (0 if sw.shut_write else 1)
                + (1 if sw.connect_to is not None else 0) + (0 if sw.exc else 1))
        w_mu = 2 * sum(len(b) for b in chunks(mw.buf)) + len(chunks(mw.buf)) + (0 if mw.shut_read else 3) + (0 if mw.shut_write else 3)
        return 1 + s_mu + w_mu + (1 if p.ok else 0)

    def mu(self):
        n = (0 if self.died else 1) + self._q_mu(self.cmux) + self._q_mu(self.smux)
        for f in self.flows:
            n += 8 * len(f.app.pending) + (0 if f.app.saw_shut else 1) + 8 * len(f.dst.pending) + (0 if f.dst.saw_shut else 1)
            n += self._h_mu(f.cproxy, self.chandlers, True) + self._h_mu(f.sproxy, self.shandlers, False)
            n += 0 if f.s_ever else 12
        return n

    def show(self):
        died = '-'
        if self.died:
            died = self.died
        s = 'died=%s chani=%d cm[%s] sm[%s] mu=%d' % (died if died == '-' else 'yes', self.cmux.chani,
                                                     self._show_mux(self.cmux), self._show_mux(self.smux), self.mu())
        for i, f in enumerate(self.flows):
            s += ' f%d ch%d C:%s S:%s app:%s dst:%s' % (
                i, f.chan, self._show_proxy(f.cproxy, self.chandlers, True),
                self._show_proxy(f.sproxy, self.shandlers, False), f.app.show(), f.dst.show())
        return s


def canon_model_line(line):
    """The model prints the reason after died=; the real side only knows that it died."""
    if line.startswith('died=') and not line.startswith('died=- '):
        rest = line.split(' chani=', 1)
        return 'died=yes chani=' + rest[1] if len(rest) == 2 else line
    return line


class Script:
    """Runs a list of step tuples on the real tunnel, producing model input + real output lines."""

    def __init__(self, maxchan=65535, bufsize=32768, chani=0, extra_occ=(), verbose=0, platform=0, clock=0):
        self.cfg = (maxchan, bufsize, chani, tuple(extra_occ), verbose, platform, clock)
        self.t = RealTunnel(maxchan, bufsize, chani, extra_occ, verbose, platform, clock)
        self.ins = ['init %d %d %d %s' % (maxchan, bufsize, chani, ' '.join(str(c) for c in extra_occ))]
        self.ins[0] = self.ins[0].rstrip()
        self.outs = [self.t.show()]
        self.steps = []

    def do(self, st):
        t = self.t
        k = st[0]
        extra = ''
        if t.died:
            return False      # the process is gone; the model freezes too
        t.tick()
        if k == 'idle':
            # a real runonce with nothing ready = remove dead handlers + every pre_select, in order
            end = st[1]
            t.round_idle(end)
            self.steps.append(st)
            self.ins.append('q rm %s' % end)
            for i in range(len(t.flows)):
                self.ins.append('q pre %s %d' % (end, i))
            self.ins.append('pre %s 99999' % end)      # prints the state (no such flow: no effect)
            self.outs.append(t.show() + ' wants=none')
            return True
        if k == 'round':
            _, end, nframes, ready_flows, iov = st
            live0 = [i for i, f in enumerate(t.flows)
                     if (f.cproxy if end == 'c' else f.sproxy) in (t.chandlers if end == 'c' else t.shandlers)]
            nf, order, calls = t.round(end, nframes, ready_flows, iov)
            self.steps.append(st)
            # the whole pass is the model's own `World.round` (Code/Loop.lean): it drops the finished handlers, runs
            # every pre_select, decides from what they asked for and from what the environment reports which
            # descriptors select returns, and makes the callbacks itself; the state after the pass and the number
            # of callbacks are compared with what the real runonce did
            rtxt = 'auto' if ready_flows == 'auto' else (','.join(str(i) for i in sorted(set(ready_flows))) or '-')
            self.ins.append('round %s %d %s %s' % (end, nf, rtxt, iov.text()))
            self.outs.append(t.show() + ' wants=none cbs=%d' % len(calls))
            return True
        if k == 'quiet':
            self.steps.append(st)
            self.ins.append('quiet')
            self.outs.append('quiet=%d' % (1 if t.quiet() else 0))
            return True
        if k == 'accept':
            payload = t.accept(tuple(st[1:4]) if len(st) >= 4 else None)
            line = 'accept %s' % hexb(payload if payload is not None else b'')
        elif k == 'cb':
            _, end, i, iov = st
            t.cb(end, i, iov)
            line = 'cb %s %d %s' % (end, i, iov.text())
        elif k == 'pre':
            _, end, i = st
            extra = ' ' + t.pre(end, i)
            line = 'pre %s %d' % (end, i)
        elif k == 'deliver':
            _, end, conn = st[:3]          # (a fourth element marks a delivery made by the drain itself)
            t.deliver(end, conn)
            line = 'deliver %s %s' % (end, conn)
        elif k == 'rm':
            t.rm(st[1])
            line = 'rm %s' % st[1]
        elif k == 'full':
            t.check_full(st[1])
            line = 'full %s' % st[1]
        elif k == 'foreign':
            _, end, chan, cmd, data = st
            t.foreign(end, chan, cmd, data)
            line = 'foreign %s %d %d %s' % (end, chan, cmd, hexb(data))
        elif k == 'aw':
            t.app_write(st[1], st[2])
            line = 'aw %d %s' % (st[1], hexb(st[2]))
        elif k == 'ae':
            t.app_eof(st[1])
            line = 'ae %d' % st[1]
        elif k == 'dw':
            t.dst_write(st[1], st[2])
            line = 'dw %d %s' % (st[1], hexb(st[2]))
        elif k == 'de':
            t.dst_eof(st[1])
            line = 'de %d' % st[1]
        else:
            raise ValueError(st)
        self.steps.append(st)
        self.ins.append(line)
        self.outs.append(t.show() + extra)
        return True

    def close(self):
        self.t.close()
