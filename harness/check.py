"""./check <ID> [--tier quick|thorough] [--replay <file>]   |   ./check --setup

Decides one property on /repo's current working tree:
  1. regenerate Generated.lean from the source, `lake build` the property's theorems;
  2. audit (banned tokens, #print axioms; thorough: leanchecker);
  3. correspondence run (real code vs. the Lean code model on the same inputs) and the
     implementation-level oracle (the executable spec evaluated on what the real code did);
  4. verdict, replay file(s), evidence file.
Exit 0 = held on everything explored; 1 = VIOLATION printed; 2 = harness trouble / time-out.
"""
import argparse
import importlib
import json
import os
import sys
import time
import traceback

HERE = os.path.dirname(os.path.abspath(__file__))
sys.path.insert(0, HERE)
import common  # noqa: E402
from common import Ctx  # noqa: E402

sys.path.insert(0, common.REPO)
sys.dont_write_bytecode = True


def setup():
    probs = common.regenerate_params()
    ok, out, secs = common.lake_build([])
    sys.stdout.write(out[-3000:])
    print('setup: lake build %s in %.0fs' % ('ok' if ok else 'FAILED', secs))
    return 0 if ok and not probs else 2


def prop_module(prop_id):
    return importlib.import_module('props.' + prop_id.lower())


def replay_path(prop_id, seed, n, tag=''):
    return os.path.join(common.REPLAY_DIR, '%s-%d-%d%s.json' % (prop_id, seed, n, tag))


def match_known(prop_id, key, known):
    for k in known:
        if k.get('property') == prop_id and k.get('status') == 'known' and k.get('key') == key:
            return k
    return None


def run_check(prop_id, tier, seed):
    t0 = time.time()
    ctx = Ctx(prop_id, tier, seed)
    mod = prop_module(prop_id)
    broken = []   # proof/translation obligations that no longer check

    # 1. translator + build
    probs = common.regenerate_params()
    for name, why in probs:
        broken.append(dict(kind='proof-break', theorem='Generated.' + name,
                           detail='parameter extraction failed: ' + why))
    targets = common.prop_modules(prop_id) + list(getattr(mod, 'EXTRA_TARGETS', []))
    ok, out, build_s = common.lake_build(targets)
    if not ok:
        errs = [l for l in out.split('\n') if 'error' in l][:12]
        broken.append(dict(kind='proof-break', theorem='lake build ' + ' '.join(targets),
                           detail='\n'.join(errs) or out[-1500:]))
        # drivers may still work if only a proof broke
        ok_code, _o, _s = common.lake_build(getattr(mod, 'DRIVER_TARGETS', []) or ['SshuttleModel.Basic'])
        ctx.model_available = ok_code and bool(getattr(mod, 'DRIVER_TARGETS', None))

    # 2. audit
    names, n_examples = ([], 0)
    axioms = {}
    try:
        names, n_examples = common.theorems_in(prop_id)
    except OSError as e:
        broken.append(dict(kind='proof-break', theorem='Props/%s.lean' % prop_id, detail=str(e)))
    hits = common.grep_audit(prop_id, [prop_id] + list(getattr(mod, 'DRIVERS', [])))
    if hits:
        broken.append(dict(kind='proof-break', theorem='audit: banned token', detail='\n'.join(hits[:10])))
    discharged = 0
    if ok and names:
        aok, axioms, raw = common.axiom_audit(prop_id, names)
        discharged = sum(1 for n in names if n in axioms and set(axioms[n]) <= common.ALLOWED_AXIOMS)
        if not aok:
            bad = [n for n in names if n not in axioms or not set(axioms[n]) <= common.ALLOWED_AXIOMS]
            broken.append(dict(kind='proof-break', theorem='axiom audit: ' + ', '.join(bad[:8]),
                               detail=raw[-1500:]))
    checker_cmd = 'cd lean && lake build %s && lake env lean .audit/Audit_%s.lean' % (' '.join(targets), prop_id)
    if ok and tier == 'thorough' and not os.environ.get('VERIF_NO_LEANCHECKER'):
        rc, lc_out = common.sh(['lake', 'env', 'leanchecker'] + common.prop_modules(prop_id),
                               cwd=common.LEAN_DIR, timeout=3000, env=common.lean_env())
        checker_cmd += ' && lake env leanchecker ' + ' '.join(common.prop_modules(prop_id))
        if rc != 0:
            broken.append(dict(kind='proof-break', theorem='leanchecker', detail=lc_out[-1500:]))

    if broken:
        ctx.boost = 4

    # 3. correspondence + oracle
    harness_error = None
    try:
        mod.run(ctx)
    except common.DriverError as e:
        ctx.model_available = False
        broken.append(dict(kind='corr-break', theorem='driver', detail=str(e)[-1500:]))
        try:
            ctx2 = ctx
            ctx2.boost = 4
            mod.run(ctx2)
        except Exception:  # noqa
            harness_error = traceback.format_exc()
    except Exception:  # noqa
        harness_error = traceback.format_exc()

    if ctx.corr_breaks and not ctx.violations and ctx.boost == 1 and hasattr(mod, 'search'):
        # the tie broke: look harder for a concrete failing input on the real code
        ctx.boost = 4
        try:
            mod.search(ctx)
        except Exception:  # noqa
            harness_error = traceback.format_exc()

    # 4. verdict
    known = common.load_known()
    lines = []
    exit_code = 0
    new_violations = []
    known_hit = {}
    for v in ctx.violations:
        k = match_known(prop_id, v['key'], known)
        if k:
            known_hit.setdefault(v['key'], k)
        else:
            new_violations.append(v)
    for key, k in sorted(known_hit.items()):
        lines.append('KNOWN-FINDING: property=%s %s [%s]' % (prop_id, k.get('what', ''), key))
    n = 0
    seen_keys = set()
    # replay files of an earlier run of this property and seed are not this run's
    import glob
    for old_file in glob.glob(os.path.join(common.REPLAY_DIR, '%s-%d-*.json' % (prop_id, seed))):
        try:
            os.remove(old_file)
        except OSError:
            pass
    for v in new_violations:
        if v['key'] in seen_keys:
            continue
        seen_keys.add(v['key'])
        path = replay_path(prop_id, seed, n)
        common.write_json(path, dict(property=prop_id, harness='props/%s.py' % prop_id.lower(), **v))
        lines.append('VIOLATION property=%s replay=%s' % (prop_id, path))
        n += 1
        exit_code = 1
        if n >= 5:
            break
    if not new_violations and (broken or ctx.corr_breaks):
        path = replay_path(prop_id, seed, 0, '-unproved')
        common.write_json(path, dict(
            property=prop_id, kind='proof-break' if broken else 'corr-break',
            harness='props/%s.py' % prop_id.lower(), key='%s:tie-broken' % prop_id,
            broken_obligations=broken, correspondence_breaks=ctx.corr_breaks[:5],
            note='the theorem(s) or the model/code correspondence named here no longer check on the '
                 'current tree; the failing-input search on the real code found nothing'))
        lines.append('VIOLATION property=%s replay=%s no-failing-input-found' % (prop_id, path))
        exit_code = 1
    if harness_error:
        sys.stderr.write(harness_error)
        lines.append('HARNESS-ERROR property=%s (see stderr)' % prop_id)
        if exit_code == 0:
            exit_code = 2

    # 5. evidence
    obligations = len(names) + n_examples
    ev = dict(
        property_id=prop_id, tier=tier, seed=seed, level='proof',
        coverage=dict(
            obligations=max(obligations, 1),
            discharged=(discharged + n_examples) if ok else 0,
            checker_cmd=checker_cmd,
            trusted_base=common.TRUSTED_BASE + list(getattr(mod, 'TRUSTED_EXTRA', [])),
            theorems=names, examples=n_examples,
            axioms_used=sorted({a for v in axioms.values() for a in v}),
            partial_theorems=[n for n in names if n.endswith('_partial')],
            evaluations=ctx.evaluations,
            distinct_nontrivial=len(ctx.nontrivial),
            rule=getattr(mod, 'RULE', ''),
            samples=ctx.samples or ['(no case generated)'],
            input_distribution=ctx.dist,
            correspondence_breaks=len(ctx.corr_breaks),
            broken_obligations=[b['theorem'] for b in broken],
            known_findings_hit=sorted(known_hit),
            model_available=ctx.model_available,
            build_s=round(build_s, 1),
            notes=ctx.notes,
        ),
        assumptions=list(getattr(mod, 'ASSUMPTIONS', [])),
        wall_s=round(time.time() - t0, 2),
        violations=len(new_violations) + (1 if (not new_violations and (broken or ctx.corr_breaks)) else 0),
    )
    common.write_json(os.path.join(common.EVIDENCE_DIR, prop_id + '.json'), ev)
    for l in lines:
        print(l)
    print('%s tier=%s seed=%d: theorems=%d examples=%d discharged=%d evaluations=%d distinct=%d '
          'corr_breaks=%d violations=%d known=%d wall=%.1fs exit=%d'
          % (prop_id, tier, seed, len(names), n_examples, discharged, ctx.evaluations,
             len(ctx.nontrivial), len(ctx.corr_breaks), len(new_violations), len(known_hit),
             time.time() - t0, exit_code))
    return exit_code


def run_replay(prop_id, path):
    with open(path) as f:
        rep = json.load(f)
    mod = prop_module(prop_id)
    if rep.get('kind') in ('proof-break', 'corr-break') and 'case' not in rep:
        common.regenerate_params()
        ok, out, _ = common.lake_build(common.prop_modules(prop_id))
        ctx = Ctx(prop_id, 'quick', 0)
        ctx.model_available = ok
        mod.run(ctx)
        still = (not ok) or bool(ctx.corr_breaks) or bool(ctx.violations)
        print('replay %s: obligations %s' % (path, 'STILL BROKEN' if still else 'check again'))
        return 1 if still else 0
    ctx = Ctx(prop_id, 'quick', 0)
    fails, info = mod.replay(ctx, rep)
    print('replay %s: %s -- %s' % (path, 'STILL FAILS' if fails else 'passes', info))
    return 1 if fails else 0


def main():
    ap = argparse.ArgumentParser()
    ap.add_argument('prop', nargs='?')
    ap.add_argument('--tier', default=os.environ.get('VERIF_TIER', 'quick'), choices=['quick', 'thorough'])
    ap.add_argument('--replay')
    ap.add_argument('--setup', action='store_true')
    a = ap.parse_args()
    if a.setup:
        return setup()
    if not a.prop:
        ap.error('property id required')
    seed = int(os.environ.get('VERIF_SEED', '0') or 0)
    if a.replay:
        return run_replay(a.prop, a.replay)
    try:
        return run_check(a.prop, a.tier, seed)
    except Exception:  # noqa
        traceback.print_exc()
        return 2


if __name__ == '__main__':
    sys.exit(main())
