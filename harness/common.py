"""Shared machinery of every check: build + audit of the Lean side, driver processes,
bookkeeping of what a run covered, known findings, replays, evidence, verdict."""
import hashlib
import json
import os
import random
import re
import subprocess
import sys
import time

HERE = os.path.dirname(os.path.abspath(__file__))
VERIF = os.path.dirname(HERE)
LEAN_DIR = os.path.join(VERIF, 'lean')
REPO = os.environ.get('VERIF_REPO', '/repo')
# evidence/ describes /repo itself; a run against a scratch copy of the repository (VERIF_REPO=<worktree>, used to
# evaluate seeded changes) writes its record next to the replays instead, so that it never replaces the committed one
EVIDENCE_DIR = os.path.join(VERIF, 'evidence') if os.path.realpath(REPO) == '/repo' else os.path.join(VERIF, 'replays', 'evidence-of-scratch-repo')
REPLAY_DIR = os.path.join(VERIF, 'replays')
KNOWN_FINDINGS = os.path.join(VERIF, 'known_findings')   # one committed file per property

ALLOWED_AXIOMS = {'propext', 'Classical.choice', 'Quot.sound'}
BANNED = re.compile(r'\bsorry\b|\badmit\b|^\s*axiom\s|native_decide|bv_decide|implemented_by|'
                    r'\bunsafe\s|maxHeartbeats\s+0|@\[extern')

TRUSTED_BASE = [
    "Lean 4.33.0 kernel and elaborator (thorough tier: leanchecker re-check of the property's .olean files)",
    "axioms allowed in property theorems: propext, Classical.choice, Quot.sound (audited with #print axioms on every run); no native_decide, bv_decide, sorry, own axioms",
    "harness/extract_params.py (constants, tables, format strings regenerated from the working tree into Generated.lean)",
    "the Python correspondence harness and its fakes at the OS boundary (sockets, pipes, subprocess, clock, files)",
    "the environment models listed in DESIGN.md section 1 (modelled, not verified)",
]


def sh(cmd, cwd=None, timeout=None, env=None, input=None):
    p = subprocess.run(cmd, cwd=cwd, stdout=subprocess.PIPE, stderr=subprocess.STDOUT,
                       timeout=timeout, env=env, input=input, text=True)
    return p.returncode, p.stdout


def lean_env():
    e = dict(os.environ)
    e.pop('LEAN_PATH', None)
    return e


# ---------------------------------------------------------------- Lean side

def regenerate_params():
    if HERE not in sys.path:
        sys.path.insert(0, HERE)
    import extract_params
    extract_params.REPO = REPO
    return extract_params.main()


def lake_build(targets, timeout=1500):
    t0 = time.time()
    rc, out = sh(['lake', 'build'] + list(targets), cwd=LEAN_DIR, timeout=timeout, env=lean_env())
    return rc == 0, out, time.time() - t0


def strip_comments(text):
    # remove /- ... -/ (nested) and -- ... comments
    out = []
    i = 0
    depth = 0
    n = len(text)
    while i < n:
        if text.startswith('/-', i):
            depth += 1
            i += 2
        elif depth and text.startswith('-/', i):
            depth -= 1
            i += 2
        elif depth:
            if text[i] == '\n':
                out.append('\n')
            i += 1
        elif text.startswith('--', i):
            j = text.find('\n', i)
            if j < 0:
                break
            i = j
        else:
            out.append(text[i])
            i += 1
    return ''.join(out)


def lean_files():
    for root, _dirs, files in os.walk(LEAN_DIR):
        if '.lake' in root.split(os.sep):
            continue
        for f in files:
            if f.endswith('.lean'):
                yield os.path.join(root, f)


def module_path(mod):
    return os.path.join(LEAN_DIR, *mod.split('.')) + '.lean'


def import_closure(roots):
    """Project files reachable from the given module names / file paths through `import`."""
    seen = {}
    todo = list(roots)
    while todo:
        r = todo.pop()
        path = r if r.endswith('.lean') else module_path(r)
        if path in seen or not os.path.exists(path):
            continue
        with open(path, encoding='utf-8') as f:
            txt = f.read()
        seen[path] = txt
        for m in re.finditer(r'^\s*import\s+(SshuttleModel[\w.]*)', txt, re.M):
            todo.append(m.group(1))
    return seen


def grep_audit(prop_id=None, drivers=()):
    """Banned tokens in the files the property's theorems and drivers are built from."""
    hits = []
    if prop_id is None:
        files = {p: open(p, encoding='utf-8').read() for p in lean_files()}
    else:
        roots = prop_modules(prop_id)
        roots += [os.path.join(LEAN_DIR, 'Drivers', d + '.lean') for d in drivers]
        files = import_closure(roots)
    for path, raw in sorted(files.items()):
        txt = strip_comments(raw)
        for ln, line in enumerate(txt.split('\n'), 1):
            if BANNED.search(line):
                hits.append('%s:%d: %s' % (os.path.relpath(path, VERIF), ln, line.strip()[:120]))
    return hits


def prop_modules(prop_id):
    """The Lean modules holding a property's theorems: Props/<ID>.lean and any Props/<ID>_*.lean (theorems of this
    property that rest on another property's file, e.g. C01's last sentence on the C02 machinery)."""
    import glob
    d = os.path.join(LEAN_DIR, 'SshuttleModel', 'Props')
    extra = sorted(os.path.basename(x)[:-5] for x in glob.glob(os.path.join(d, prop_id + '_*.lean')))
    return ['SshuttleModel.Props.' + m for m in [prop_id] + extra]


def theorems_in(prop_id):
    """(full theorem names, number of `example`s) in Props/<ID>.lean and Props/<ID>_*.lean."""
    names, examples = [], 0
    for k, mod in enumerate(prop_modules(prop_id)):
        path = module_path(mod)
        if k and not os.path.exists(path):
            continue
        n, e = _theorems_in_file(path)
        names += n
        examples += e
    return names, examples


def _theorems_in_file(path):
    with open(path, encoding='utf-8') as f:
        txt = strip_comments(f.read())
    ns = []
    names = []
    examples = 0
    for line in txt.split('\n'):
        m = re.match(r'\s*namespace\s+(\S+)', line)
        if m:
            ns.append(m.group(1))
            continue
        m = re.match(r'\s*end\s+(\S+)\s*$', line)
        if m and ns and ns[-1] == m.group(1):
            ns.pop()
            continue
        m = re.match(r'\s*(?:@\[[^\]]*\]\s*)?(?:private\s+|protected\s+)?theorem\s+(\S+)', line)
        if m:
            names.append('.'.join(ns + [m.group(1)]))
        elif re.match(r'\s*example\b', line):
            examples += 1
    return names, examples


def axiom_audit(prop_id, names):
    """Run `#print axioms` for every theorem; returns (ok, {name: [axioms]}, raw)."""
    d = os.path.join(LEAN_DIR, '.audit')
    os.makedirs(d, exist_ok=True)
    path = os.path.join(d, 'Audit_%s.lean' % prop_id)
    with open(path, 'w') as f:
        for m in prop_modules(prop_id):
            f.write('import %s\n' % m)
        for n in names:
            f.write('#print axioms %s\n' % n)
    rc, out = sh(['lake', 'env', 'lean', path], cwd=LEAN_DIR, timeout=900, env=lean_env())
    res = {}
    cur = None
    for m in re.finditer(r"'([^']+)' (depends on axioms: \[([^\]]*)\]|does not depend on any axioms)", out):
        name = m.group(1)
        axs = [a.strip() for a in (m.group(3) or '').replace('\n', ' ').split(',') if a.strip()]
        res[name] = axs
    ok = rc == 0 and all(n in res for n in names) and \
        all(set(a) <= ALLOWED_AXIOMS for a in res.values())
    return ok, res, out


# Drivers that are also built as native executables (their imports are Mathlib-free).  The same
# Lean definitions, compiled by Lean's own compiler instead of interpreted: 50-100x faster on long
# schedules.  Falls back to the interpreter when the executable cannot be built.
NATIVE_DRIVERS = {'Tunnel': 'tunnel_driver'}
_native_ready = {}


def native_driver(driver):
    exe = NATIVE_DRIVERS.get(driver)
    if not exe or os.environ.get('VERIF_NO_NATIVE'):
        return None
    if exe not in _native_ready:
        try:
            p = subprocess.run(['lake', 'build', exe], cwd=LEAN_DIR, stdout=subprocess.PIPE,
                               stderr=subprocess.STDOUT, timeout=900, env=lean_env(), text=True)
            path = os.path.join(LEAN_DIR, '.lake', 'build', 'bin', exe)
            _native_ready[exe] = path if (p.returncode == 0 and os.path.exists(path)) else None
        except Exception:  # noqa
            _native_ready[exe] = None
    return _native_ready[exe]


class LeanBatch:
    """Run a driver file over a list of input lines (batch)."""

    def __init__(self, driver):
        self.name = driver
        self.driver = os.path.join('Drivers', driver + '.lean')

    def run(self, lines, timeout=900):
        data = '\n'.join(lines) + '\n'
        exe = native_driver(self.name)
        cmd = [exe] if exe else ['lake', 'env', 'lean', '--run', self.driver]
        p = subprocess.run(cmd, cwd=LEAN_DIR,
                           input=data, stdout=subprocess.PIPE, stderr=subprocess.PIPE,
                           timeout=timeout, env=lean_env(), text=True)
        if p.returncode != 0:
            raise DriverError('driver %s exited %d: %s' % (self.driver, p.returncode, p.stderr[-2000:]))
        out = p.stdout.split('\n')
        if out and out[-1] == '':
            out.pop()
        return out


class LeanProc:
    """Interactive driver: one line in, N lines out (the driver answers `#flush` by flushing)."""

    def __init__(self, driver):
        self.p = subprocess.Popen(['lake', 'env', 'lean', '--run', os.path.join('Drivers', driver + '.lean')],
                                  cwd=LEAN_DIR, stdin=subprocess.PIPE, stdout=subprocess.PIPE,
                                  stderr=subprocess.PIPE, env=lean_env(), text=True, bufsize=1)

    def ask(self, line, nout=1):
        self.p.stdin.write(line + '\n#flush\n')
        self.p.stdin.flush()
        out = []
        for _ in range(nout):
            l = self.p.stdout.readline()
            if not l:
                raise DriverError('driver died: ' + self.p.stderr.read()[-2000:])
            out.append(l.rstrip('\n'))
        return out

    def close(self):
        try:
            self.p.stdin.close()
            self.p.wait(timeout=10)
        except Exception:  # noqa
            self.p.kill()


class DriverError(Exception):
    pass


# ---------------------------------------------------------------- run context

class Ctx:
    def __init__(self, prop_id, tier, seed):
        self.prop_id = prop_id
        self.tier = tier
        self.seed = seed
        self.rng = random.Random(seed)
        self.evaluations = 0
        self.nontrivial = set()
        self.samples = []
        self.dist = {}
        self.violations = []      # oracle violations on the real code (concrete replay)
        self.corr_breaks = []     # model/implementation disagreements
        self.notes = []
        self.model_available = True
        self.boost = 1            # >1 when a proof/correspondence broke: search harder
        self.t0 = time.time()

    @property
    def thorough(self):
        return self.tier == 'thorough'

    def scale(self, quick, thorough):
        return (thorough if self.thorough else quick) * self.boost

    def count(self, n=1):
        self.evaluations += n

    def mark(self, canon, nontrivial=True):
        """Record one distinct case (by its canonical representation)."""
        if nontrivial:
            h = hashlib.sha1(repr(canon).encode('utf-8', 'replace')).digest()[:10]
            self.nontrivial.add(h)

    def hist(self, key, n=1):
        self.dist[key] = self.dist.get(key, 0) + n

    def sample(self, obj, limit=6):
        if len(self.samples) < limit:
            self.samples.append(obj)

    def violation(self, key, case, expected, observed, note='', kind='input'):
        self.violations.append(dict(key=key, kind=kind, case=case, expected=expected,
                                    observed=observed, note=note))

    def corr_break(self, stream, case, impl, model, note=''):
        self.corr_breaks.append(dict(stream=stream, case=case, impl=impl, model=model, note=note))

    def elapsed(self):
        return time.time() - self.t0


def load_known():
    """Committed known-findings files (never written at run time): known_findings/<ID>.json,
    each a list of {property, key, status: known|fixed, what, witness, commit?}."""
    out = []
    if os.path.isdir(KNOWN_FINDINGS):
        for fn in sorted(os.listdir(KNOWN_FINDINGS)):
            if fn.endswith('.json'):
                with open(os.path.join(KNOWN_FINDINGS, fn)) as f:
                    out.extend(json.load(f))
    return out


def jsonable(o):
    if isinstance(o, bytes):
        return {'hex': o.hex()}
    if isinstance(o, (set, frozenset)):
        return sorted(jsonable(x) for x in o)
    if isinstance(o, tuple):
        return [jsonable(x) for x in o]
    if isinstance(o, list):
        return [jsonable(x) for x in o]
    if isinstance(o, dict):
        return {str(k): jsonable(v) for k, v in o.items()}
    if isinstance(o, (int, float, str, bool)) or o is None:
        return o
    return repr(o)


def write_json(path, obj):
    os.makedirs(os.path.dirname(path), exist_ok=True)
    tmp = path + '.tmp'
    with open(tmp, 'w') as f:
        json.dump(jsonable(obj), f, indent=1, sort_keys=True)
        f.write('\n')
    os.replace(tmp, path)


def hexb(b):
    return b.hex() if b else '-'


def unhex(s):
    return b'' if s == '-' else bytes.fromhex(s)
