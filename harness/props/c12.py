"""C12 — interception exists only alongside a verified, live tunnel.

The real `client.main` (its tail `try: return _main(...) finally: fw.done() ...` and the whole of
`client._main`, with the real `Mux`, the real `ssnet.runonce`, the real `onroutes`/`serverready`/
`onhostlist`/`check_ssh_alive` closures and the real `FirewallClient.start/check/sethostip/done`)
is run in-process on a scripted world: every call that crosses the process boundary is a *stub
call* that is recorded and may raise a scripted exception.  The recorded call sequence is
  * compared event by event with the trace produced by `Code/ClientMain.lean` (correspondence), and
  * judged by an oracle written from the property text (independent of the model).
"""
import errno
import gc
import io
import os
import signal
import socket
import struct
import subprocess
import sys
import threading
import types

import common
from common import hexb

RULE = ("a case = (script, fault map): the script fixes mode (foreground/daemon, udp/dns listeners, seed hosts, "
        "auto-nets, latency control), the segmentation of the server's start-of-stream bytes, the first "
        "serverproc.poll() result, per loop iteration the ssh liveness answer, the tunnel bytes arriving "
        "(sync string / ROUTES / HOST_LIST / PING / data / garbage, cut anywhere; ROUTES early, late, twice or "
        "never; EOF), the write grant and an incoming connection, the helper's reply line / exit status, and "
        "how the session ends (SIGINT, SIGTERM, ssh death with any status, with or without EOF on its stdout; "
        "non-frame bytes on the tunnel while ssh stays alive; the platform's answer for a dead ssh: in daemon mode "
        "kill(pid,0) raises ESRCH, EPERM or another OSError, in foreground mode poll() gives any status including 0 "
        "and signal values — each must end the session in that iteration, and a live ssh must never be declared dead); the fault map makes the k-th stub "
        "call raise one of 9 exception kinds (Fatal, OSError EPIPE/ECONNRESET/EAGAIN/EIO, KeyboardInterrupt, "
        "SystemExit, AssertionError, Exception) — ALL k of the run x all kinds for every script; a second stream "
        "runs the real FirewallClient (__init__/setup/start/done) over a real socketpair against a helper "
        "stand-in thread and judges, on the real descriptor, that the helper reads EOF however the session "
        "ends (and that READY follows the helper's STARTED; a helper that exits after GO without STARTED, "
        "with poll() answering 0 as after ECHILD or None-then-status, ends the session); plus random "
        "double faults (one in the body, one in the finally part); the helper's end of the channel: the real "
        "firewall.main() reads the dialogue the real FirewallClient wrote for every combination of IPv4/IPv6 "
        "subnets and name servers, then EOF / HOST lines / a bad line / a cut, with a fault at each of its own "
        "steps (each family's set-up and restore, hosts file, resolver cache, STARTED write) and pairs of them — "
        "every family that was set up must have its restore attempted; the real ssh.connect() with a real child "
        "standing in for ssh (sync string + ROUTES, idle or busy, then exit 0 / exit 255 / SIGKILL), real socketpair, "
        "real select, real listeners, under a 20 s watchdog (a failing case is re-run once with 40 s before it is reported) — the client must end with Fatal and close the helper "
        "channel; init strings next to the genuine one (every "
        "single-byte substitution by digits/sign/underscore/blank/CR/LF/TAB/NUL, truncations, other spellings "
        "of the version) each followed by a good ROUTES frame, and each with nothing after the 12 bytes (the ssh "
        "pipe is a BLOCKING stream: a read on the exhausted stream of a live ssh never returns and is a verdict, "
        "on the ended stream of a dead ssh it is EOF); every case runs at a verbosity level from the rotation "
        "[0,0,3,0,2,0,13,1] shifted by the seed (13 = level 3 with a stderr that raises EIO) — behaviour must not "
        "depend on it; non-trivial = the run got past ssh.connect; "
        "distinct = distinct canonical input line")
MANIFEST = dict(
    level_text=("Machine-checked Lean 4 theorems over a statement-by-statement model of client._main and the "
                "try/finally tail of client.main as a trace-producing program in an exception monad in which every "
                "boundary call may raise any exception kind at any position (arbitrary fault map, arbitrary "
                "segmentation of the tunnel bytes, arbitrary helper replies, arbitrary liveness answers, daemon or "
                "foreground). One trace theorem for every history (C12_trace_rules): no ROUTES..GO dialogue before "
                "the init string was accepted and a ROUTES frame arrived, at most one dialogue, READY only after "
                "STARTED was read back with the helper alive; every acceptance was of exactly the regenerated "
                "literal SYNC_EXPECTED, and the compared string is the tail of the bytes read (C12_accept_only_"
                "genuine, C12_accept_iff_literal: near-miss spellings are not accepted); after the probe that saw "
                "ssh gone no further pass, probe, tunnel or helper traffic and no READY, and close follows in that "
                "pass; exactly one pfile.close() on every path and nothing on the channel after it. Every entry "
                "into runonce (the only blocking point) is immediately preceded by the liveness probe "
                "(C12_probe_before_every_pass; loop body and check_ssh_alive pinned to the source text, so a cached "
                "or rate-limited probe breaks a pin). Dead ssh at start-up ends with an exception and nothing sent "
                "to the helper. Proofs by invariants carried through the program by induction on its structure and "
                "a monitor-soundness lemma by induction on the trace. Tied to the code on every run by executing "
                "the real client.main on scripted stubs with exhaustive single-fault injection and comparing the "
                "real call sequence with the model's trace event by event, plus oracles on the real sequence, a "
                "real FirewallClient over a real socketpair, timed histories and near-miss handshake strings."),
    level_note=("Trusted: Lean kernel; axioms propext/Classical.choice/Quot.sound only; the harness and its stubs "
                "(ssh.connect, the ssh pipe, select, serverproc, os.kill with zombie semantics, the helper "
                "pipe/process, sdnotify.send, daemonize/daemon_cleanup, sys.stdout.flush, the fake clock); "
                "pfile.close() releases the descriptor even when its flush raises and the helper sees EOF then "
                "(CPython io + kernel; probed with a real socketpair on every run); SIGKILL/os._exit/foreground "
                "SIGTERM close the descriptor via the kernel, not via finally (outside the proof). Composition with "
                "C04: PfileClose => helper reads EOF => restore is C04's theorem. Decided by correspondence/oracle "
                "only (no theorem): the host-list and auto-nets parsing, Mux.fill/callback and runonce internals, "
                "the real-descriptor EOF, the 2 s scenario-time bound for rules outliving ssh, corrupted tunnel "
                "bytes releasing the helper. The monadic start-up reads are proved to compute C07's "
                "Handshake.handshake on the same segments (Lemmas/ClientMainLink.lean), so C12_bad_handshake "
                "(Props/C12_Handshake.lean) is stated on the bytes the server sent. Observation outside the "
                "statement (not judged): tunnel EOF with ssh still reported alive does not end the loop (witness "
                "C12_tunnel_eof_loop_continues)."),
    technique="Lean 4 proof (Hoare-style invariants over an exception/trace monad, finally rule, trace monitor "
              "soundness) + differential execution of the real client.main with exhaustive fault injection",
)
DRIVER_TARGETS = ['SshuttleModel.Code.ClientMain', 'SshuttleModel.Spec.ClientTrace']
ASSUMPTIONS = [
    "stub calls are the only points where the outside world acts on client.main; an exception can surface at "
    "any of them (asynchronous KeyboardInterrupt/SystemExit between two bytecodes are represented by the "
    "nearest stub call)",
    "pfile.close() releases the descriptor even if the buffered flush inside it raises (CPython io semantics)",
    "process death (SIGKILL, os._exit, unhandled SIGTERM in foreground mode) closes the descriptor without "
    "running finally — environment, exercised in C04",
    "select is truthful: it reports the ssh pipe readable iff bytes or EOF are pending, writable iff the "
    "script grants a write",
    "tcp_listener.v4 is never None (main asserts IPv4 support)",
    "process table: in foreground mode ssh is a child of the client; once it has exited, kill(pid, 0) keeps "
    "succeeding (zombie) until Popen.poll() collects the status; after daemonize() ssh is an orphan that init "
    "reaps at once, so kill(pid, 0) raises ESRCH",
    "a corrupted tunnel stream must release the helper within 2 further loop rounds (on the unchanged code: "
    "none, the AssertionError of Mux.handle leaves _main at once)",
]

FAKE_PID = 0x3ffffff0
KINDS = ['fatal', 'os32', 'os104', 'os11', 'os5', 'kbint', 'sysexit', 'assert', 'other']


class _Bug(BaseException):
    """Harness misuse (never part of a scripted world)."""


class _Stuck(BaseException):
    """The driven loop would never end: it went to sleep with nothing that could ever wake it, or used
    up its pass budget, or ran into the wall-clock watchdog.  Aborts the run; the oracle decides."""


T0 = 1700000000.0          # fake clock origin (s)
TICK = 0.001               # every top-level select costs this much fake time
WATCHDOG_S = 20            # wall clock per run (shrinks after the first hit, see watchdog_seconds)
REALSSH_WATCHDOG_S = 20.0  # wall clock for a session against a real stand-in ssh child (doubled on the retry)
EOF_READ_BUDGET = 300      # reads of the ssh pipe after it reached EOF
CALL_BUDGET = 60000        # boundary calls per run
EVENT_BUDGET = 200000      # trace entries per run
_watchdog_hits = [0]


# Verbosity is a dimension of every scenario: behaviour must not depend on it.  13 = level 3 with a
# stderr whose write() raises EIO.  The rotation is shifted by the check's seed.
LEVELS = [0, 0, 3, 0, 2, 0, 13, 1]
_rot = dict(seed=0, n=0)


def next_level():
    lv = LEVELS[(_rot['n'] + _rot['seed']) % len(LEVELS)]
    _rot['n'] += 1
    return lv


class EioStderr:
    def write(self, s):
        raise OSError(errno.EIO, 'Input/output error')

    def flush(self):
        raise OSError(errno.EIO, 'Input/output error')


def hs_complete(stream):
    """Two NULs and 12 more bytes are there: the start-up never has to read past the end."""
    i = stream.find(b'\0')
    j = stream.find(b'\0', i + 1) if i >= 0 else -1
    return j >= 0 and len(stream) - (j + 1) >= len(b'SSHUTTLE0001')


def watchdog_seconds():
    return WATCHDOG_S if _watchdog_hits[0] == 0 else (3 if _watchdog_hits[0] < 3 else 1)
LEFT_OVER_S = 2.0          # fake seconds the rules may outlive ssh


def make_exc(kind, helpers):
    if kind == 'fatal':
        return helpers.Fatal('injected')
    if kind.startswith('os'):
        return OSError(int(kind[2:]), 'injected')
    if kind == 'kbint':
        return KeyboardInterrupt()
    if kind == 'sysexit':
        return SystemExit(1)
    if kind == 'assert':
        return AssertionError('injected')
    return Exception('injected')


def kind_of(e, helpers):
    if isinstance(e, helpers.Fatal):
        return 'fatal'
    if isinstance(e, OSError):
        return 'os%d' % (e.errno or 0)
    if isinstance(e, KeyboardInterrupt):
        return 'kbint'
    if isinstance(e, SystemExit):
        return 'sysexit'
    if isinstance(e, AssertionError):
        return 'assert'
    if isinstance(e, _Bug):
        raise e
    if isinstance(e, _Stuck):
        return 'stuck'
    return 'other'


# ------------------------------------------------------------------ scripted world

class World:
    """One run: event log, stub-call counter, fault map, the scripted answers."""

    def __init__(self, script, faults, helpers):
        self.s = script
        self.faults = faults
        self.helpers = helpers
        self.events = []
        self.calls = 0
        self.polled0 = False
        self.iter = -1            # current loop iteration (advanced by the liveness stub)
        self.chunks = [bytes(c) for c in script['hs'] if c]   # ssh pipe: bytes in flight
        self.eof = False
        self.grant = None
        self.acceptable = False
        self.consumed_hs = b''    # bytes handed to the handshake reads
        self.consumed_mux = b''   # bytes handed to Mux.fill
        self.info = []            # oracle side notes: (event index, what)
        self.closed = False
        self.dead_rv = None       # exit status once the scripted world has let ssh exit
        self.reaped = False       # a poll()/waitpid of the parent has collected that status
        self.daemonized = False   # after daemonize() ssh is no longer our child (init reaps it at once)
        self.probed = -1          # last loop iteration whose liveness probe reached the world
        self.now = T0             # fake clock, advanced by the scenario only
        self.timed = 'history' in script
        self.queue = [tuple(x) for x in script.get('history', [])]   # (dt_ms, kind, arg) still to happen
        self.stuck = None         # (reason, number of events recorded when the run was aborted)
        self.death_time = None
        self.close_time = None
        self.passes = 0
        self.probe_times = []
        self.eof_reads = 0        # reads of the ssh pipe that found it at EOF
        self.in_log = 0           # inside helpers.log(): its sys.stdout.flush() is not a call of _main
        self.level = 0
        # the ssh pipe is a BLOCKING stream: once the scripted start-of-stream bytes are used up, a read
        # returns b'' only if the stream really ended (ssh closed its stdout / exited); otherwise the
        # read would never return.  Default: the stream ends there unless it holds a complete handshake.
        self.hs_eof = script.get('hs_eof', (not hs_complete(b''.join(script['hs']))) or script['poll0'] is not None)

    def give_up(self, reason, what):
        if not self.stuck:
            self.stuck = (reason, len(self.events))
        raise _Stuck(what)

    def call(self, ev):
        idx = self.calls
        self.calls += 1
        if idx > CALL_BUDGET or len(self.events) > EVENT_BUDGET:
            self.give_up('calls', 'boundary-call budget used up')
        self.events.append(ev)
        k = self.faults.get(idx)
        if k:
            raise make_exc(k, self.helpers)

    def mark(self, ev):
        if len(self.events) > EVENT_BUDGET:
            self.give_up('calls', 'trace budget used up')
        self.events.append(ev)

    # liveness stub: also the clock of the scripted world
    def advance(self):
        self.iter += 1
        steps = self.s['steps']
        if self.iter >= len(steps):
            raise make_exc(self.s['end'], self.helpers)
        st = steps[self.iter]
        self.now += st.get('dt', 0) / 1000.0
        a = st['arrive']
        if a == 'E':
            self.eof = True
        elif a:
            self.chunks.append(bytes(a))
        self.grant = st['grant']
        self.acceptable = bool(st['accept'])
        if st['alive'] is not None and self.dead_rv is None:
            self.dead_rv = st['alive']
            self.death_time = self.now
        return self.dead_rv

    def probe(self):
        """A liveness probe reached the world: poll()/kill() of the loop."""
        self.probe_times.append(self.now)
        if self.timed:
            return self.dead_rv
        rv = self.advance()
        self.probed = self.iter
        return rv

    def happen(self, dt, kind, arg):
        """One event of a timed history."""
        self.now += dt / 1000.0
        if kind == 'data':
            self.chunks.append(common.unhex(arg) if isinstance(arg, str) else bytes(arg))
        elif kind == 'accept':
            self.acceptable = True
        elif kind == 'death':
            self.dead_rv = arg
            self.death_time = self.now
            self.eof = True          # the dying ssh closes its stdout
            self.info.append((len(self.events), 'death', self.now))
        elif kind == 'sigint':
            raise KeyboardInterrupt()
        elif kind == 'sigterm':
            raise SystemExit(1)
        else:
            raise _Bug('unknown history event %r' % (kind,))


class PipeR:
    """ssh's stdout as an unbuffered socket file."""

    def __init__(self, w):
        self.w = w

    def fileno(self):
        return 1000

    def read(self, n=-1):
        w = self.w
        if not w.chunks and not w.polled0 and not w.hs_eof:
            w.call('hsread')
            w.give_up('block', 'read() on the exhausted stream of a live ssh: would block for ever')
        if not w.chunks:
            # a stream that has ended answers b'' for ever; code that keeps asking never ends
            w.eof_reads += 1
            if w.eof_reads > EOF_READ_BUDGET:
                w.give_up('eof-reads', 'the ssh pipe was read %d times after it had reached EOF' % w.eof_reads)
        w.call('mread' if w.polled0 else 'hsread')
        if not w.chunks:
            if w.polled0 and not w.eof:
                if w.passes == 0:
                    # still in start-up: the descriptor is blocking (Mux.fill has not switched it yet)
                    w.give_up('block', 'read() on the exhausted stream of a live ssh: would block for ever')
                raise BlockingIOError(errno.EAGAIN, 'Resource temporarily unavailable')
            if w.polled0:
                w.info.append((len(w.events) - 1, 'muxeof', None))
            return b''
        c = w.chunks[0]
        out, rest = c[:n], c[n:]
        if rest:
            w.chunks[0] = rest
        else:
            w.chunks.pop(0)
        if w.polled0:
            w.consumed_mux += out
            w.info.append((len(w.events) - 1, 'mread', len(w.consumed_mux)))
        else:
            w.consumed_hs += out
        return out


class PipeW:
    def __init__(self, w):
        self.w = w

    def fileno(self):
        return 1001

    def write(self, b):
        w = self.w
        w.call('mwrite')
        if w.grant is None:
            raise _Bug('mux write although not writable')
        return min(w.grant, len(b))


class SshProc:
    pid = FAKE_PID

    def __init__(self, w):
        self.w = w

    def poll(self):
        w = self.w
        if not w.polled0:
            w.call('poll')
            w.polled0 = True
            return w.s['poll0']
        w.call('poll')
        rv = w.probe()
        if rv is not None:
            w.reaped = True       # Popen.poll() = waitpid(WNOHANG): the zombie is collected
        return rv


class HelperProc:
    def __init__(self, w):
        self.w = w
        self._rc = None

    def poll(self):
        self.w.call('fwpoll')
        self.npoll = getattr(self, 'npoll', 0) + 1
        if self.npoll > 1 and 'hpoll_later' in self.w.s:
            return self.w.s['hpoll_later']      # foreground race: None first, the exit status afterwards
        return self.w.s['hpoll']

    def wait(self):
        self.w.call('wait')
        if self._rc is not None:      # subprocess.Popen.wait() returns a known returncode at once
            return self._rc
        return self.w.s['wait']

    @property
    def returncode(self):
        return self._rc

    @returncode.setter
    def returncode(self, v):
        self.w.mark('rc0')
        self._rc = v


class Pfile:
    def __init__(self, w):
        self.w = w
        self.section = None

    def write(self, b):
        b = bytes(b)
        if b == b'ROUTES\n':
            ev = 'fwROUTES'
        elif b == b'NSLIST\n':
            ev = 'fwNSLIST'
        elif b.startswith(b'PORTS '):
            ev = 'fwPORTS'
        elif b.startswith(b'GO '):
            ev = 'fwGO'
        elif b.startswith(b'HOST '):
            ev = 'fwHOST'
        elif b.count(b',') == 5:
            ev = 'fwroute'
        elif b.count(b',') == 1:
            ev = 'fwns'
        else:
            ev = 'fw?' + hexb(b)
        if ev == 'fwROUTES':
            self.w.info.append((len(self.w.events), 'start', len(self.w.consumed_mux)))
        self.w.call(ev)
        return len(b)

    def flush(self):
        self.w.call('fwflush')

    def readline(self, *a):
        self.w.call('fwreadline')
        self.w.info.append((len(self.w.events) - 1, 'line', self.w.s['line']))
        return self.w.s['line']

    def close(self):
        # the descriptor is released even when the flush inside close() raises
        self.w.closed = True
        self.w.close_time = self.w.now
        self.w.call('close')


class ListenSock:
    family = 2

    def __init__(self, w, no):
        self.w = w
        self.no = no

    def fileno(self):
        return 1100 + self.no

    def accept(self):
        self.w.call('accept')
        if self.w.timed:
            self.w.acceptable = False
        return ConnSock(self.w), ('127.0.0.1', 40000)

    def getsockname(self):
        return ('127.0.0.1', 12300)


class ConnSock:
    family = 2
    n = 0

    def __init__(self, w):
        ConnSock.n += 1
        self.no = ConnSock.n

    def fileno(self):
        return 2000 + self.no

    def getpeername(self):
        return ('127.0.0.1', 40000)

    def getsockname(self):
        return ('127.0.0.1', 12300)

    def setblocking(self, b):
        pass

    def close(self):
        pass

    def shutdown(self, how):
        pass

    def recv(self, n):
        raise BlockingIOError(errno.EAGAIN, 'would block')

    def send(self, b):
        raise BlockingIOError(errno.EAGAIN, 'would block')


class FakeSelect:
    error = OSError

    def __init__(self, w):
        self.w = w

    def ready(self, r, wl):
        w = self.w
        rr = []
        for s in r:
            if isinstance(s, PipeR) and (w.chunks or w.eof):
                rr.append(s)
            elif isinstance(s, ListenSock) and s.no == 0 and w.acceptable:
                rr.append(s)
        ww = [s for s in wl if isinstance(s, PipeW) and w.grant is not None]
        return rr, ww

    def select(self, r, wl, x, timeout=None):
        w = self.w
        w.call('sel' if timeout is None else 'selmux')
        if timeout is not None:
            rr, ww = self.ready(r, wl)
            return rr, ww, []
        w.now += TICK
        if not w.timed:
            # the scripted step of this round normally comes with the liveness probe; a loop that did not
            # probe in this round still gets its step (and, when the script is used up, its end signal) here
            while w.iter < w.passes - 1:
                w.advance()
            rr, ww = self.ready(r, wl)
            return rr, ww, []
        # timed history: a blocked select returns only when something happens
        while True:
            rr, ww = self.ready(r, wl)
            if rr or ww:
                return rr, ww, []
            if not w.queue:
                w.stuck = ('sleep', len(w.events))
                raise _Stuck('select() with nothing ready and nothing that could ever become ready')
            dt, kind, arg = w.queue.pop(0)
            w.happen(dt, kind, arg)


class Stdout:
    def __init__(self, w):
        self.w = w

    def write(self, s):
        return len(s)

    def flush(self):
        if self.w.in_log:
            return                # helpers.log() flushes stdout before it writes: not a call of _main
        self.w.call('outflush')


class HelperStandIn:
    """The far end of the real control channel: what `Popen(argv, stdout=s1, stdin=s1)` would have
    started.  Speaks the helper's side of the dialogue on a dup of the descriptor the child would have
    inherited, in a thread, and records what it saw (hSTARTED / hDIED / hEOF / hTIMEOUT) in the event log."""
    WAIT = 0.6       # how long the client side may take to deliver EOF once it is done

    def __init__(self, w, argv, stdout=None, stdin=None, env=None, preexec_fn=None):
        self.w = w
        self.returncode = None
        self.pid = 0x3ffffff1
        self.sock = socket.socket(fileno=os.dup(stdout.fileno()))
        self.thread = threading.Thread(target=self.serve, daemon=True)
        self.thread.start()

    def serve(self):
        w = self.w
        mode = w.s.get('helper', 'ok')
        self.sock.settimeout(5.0)
        f = self.sock.makefile('rwb')
        try:
            f.write(b'READY fake\n')
            f.flush()
            while True:
                line = f.readline()
                if not line:
                    w.mark('hEOF0')          # client went away before GO: nothing to restore
                    return
                if line.startswith(b'GO '):
                    break
            if mode == 'die':
                w.mark('hDIED')              # set-up failed: exits without ever writing STARTED
                return
            w.mark('hSTARTED')
            f.write(b'STARTED\n')
            f.flush()
            while True:
                line = f.readline()
                if not line:
                    w.mark('hEOF')           # this is what makes the real helper restore the rules
                    return
        except (OSError, ValueError):
            w.mark('hTIMEOUT')
        finally:
            try:
                f.close()
            except OSError:
                pass
            self.sock.close()

    def poll(self):
        w = self.w
        if w.s.get('helper', 'ok') == 'die' and any(e == 'hDIED' for e in w.events):
            self.npoll = getattr(self, 'npoll', 0) + 1
            if self.npoll > 1 and 'hpoll_later' in w.s:
                return w.s['hpoll_later']
            return w.s['hpoll']              # as the OS would answer (daemon: ECHILD -> 0; race: None)
        return self.returncode

    def wait(self):
        self.w.mark('wait')
        if self.returncode is not None:      # subprocess.Popen.wait() with a known returncode
            return self.returncode
        self.thread.join(self.WAIT)
        if self.thread.is_alive():
            self.w.mark('waitHUNG')          # the real client would sit in waitpid() for ever
        return 0


def _mods():
    import sshuttle.ssnet as ssnet
    import sshuttle.client as client
    import sshuttle.helpers as helpers
    import sshuttle.ssh as ssh
    import sshuttle.sdnotify as sdnotify
    from sshuttle.methods import BaseMethod
    if not hasattr(ssnet, '_c12_real_set_non_blocking_io'):
        ssnet._c12_real_set_non_blocking_io = ssnet.set_non_blocking_io
    ssnet.set_non_blocking_io = lambda fd: None   # fake files have no real descriptor
    return ssnet, client, helpers, ssh, sdnotify, BaseMethod


def run_real(script, faults, realfw=False, level=None, realssh=False, watchdog_s=None):
    """Run the real client.main on the scripted world.  Returns (events, outcome, world).
    `realfw`: the real FirewallClient (__init__/setup/start/done) over a real socketpair to a
    HelperStandIn instead of the recording subclass."""
    ssnet, client, helpers, ssh, sdnotify, BaseMethod = _mods()
    w = World(script, faults, helpers)
    w.level = next_level() if level is None else level
    instances = []
    standins = []
    real_log = helpers.log

    def wlog(msg):
        w.in_log += 1
        try:
            real_log(msg)
        finally:
            w.in_log -= 1
    OrigFw, OrigListener, OrigMux = client.FirewallClient, client.MultiListener, ssnet.Mux

    class Method(BaseMethod):
        @staticmethod
        def get_supported_features():
            f = BaseMethod.get_supported_features()
            f.udp = bool(script['udp'])
            return f

        @staticmethod
        def get_tcp_dstip(sock):
            return ('10.9.8.7', 80)

    class RecFw(OrigFw):
        def __init__(self, method_name, sudo_pythonpath):
            self.auto_nets = []
            self.method = Method('fake')
            self.method.set_firewall(self)
            self.p = HelperProc(w)
            self.pfile = Pfile(w)
            self.argv = ['fw']

        def start(self):
            OrigFw.start(self)
            w.mark('started')

    class RealFw(OrigFw):
        def __init__(self, method_name, sudo_pythonpath):
            instances.append(self)
            OrigFw.__init__(self, method_name, sudo_pythonpath)

        def start(self):
            OrigFw.start(self)
            w.mark('started')

    def popen(argv, **kw):
        h = HelperStandIn(w, argv, **kw)
        standins.append(h)
        return h

    nlisten = [0]

    class RecListener(OrigListener):
        def bind(self, a6, a4):
            self.bind_called = True
            self.v6 = None
            self.v4 = ListenSock(w, nlisten[0])
            nlisten[0] += 1

        def listen(self, backlog):
            pass

        def print_listening(self, what):
            pass

        def add_handler(self, handlers, callback, method, mux):
            w.call('addh%d' % {client.onaccept_tcp: 0, client.onaccept_udp: 1, client.ondns: 2}[callback])
            OrigListener.add_handler(self, handlers, callback, method, mux)

    class RecMux(OrigMux):
        def got_packet(self, channel, cmd, data):
            if cmd == ssnet.CMD_ROUTES:
                w.mark('routes')
            OrigMux.got_packet(self, channel, cmd, data)

    real_runonce = ssnet.runonce
    count = [0]

    budget = 4 * (len(script['steps']) + len(script.get('history', []))) + 3000

    def runonce(handlers, mux):
        w.mark('run%d' % count[0])
        count[0] += 1
        w.passes = count[0]
        if count[0] > budget:
            w.stuck = ('budget', len(w.events))
            raise _Stuck('pass budget of %d used up' % budget)
        return real_runonce(handlers, mux)

    def on_alarm(signum, frame):
        _watchdog_hits[0] += 1
        if not w.stuck:
            w.stuck = ('watchdog', len(w.events))
        raise _Stuck('wall-clock watchdog')

    def connect(*a, **k):
        w.call('connect')
        return SshProc(w), PipeR(w), PipeW(w)

    real_connect = ssh.connect
    children = []

    def connect_real(*a, **k):
        # the REAL ssh.connect(): real socketpair, real Popen of the stand-in child
        w.mark('connect')
        p, rfile, wfile = real_connect(*a, **k)
        children.append(p)
        real_poll = p.poll

        def poll():
            rv = real_poll()
            w.mark('poll' if rv is None else 'poll=%d' % rv)
            w.probe_times.append(w.now)
            if not w.polled0:
                w.polled0 = True
            return rv
        p.poll = poll
        return p, rfile, wfile

    def notify(*messages):
        if b'READY=1' in messages:
            w.call('ready')
        elif b'STOPPING=1' in messages:
            w.call('stop')
        else:
            w.call('notify?')
        return False

    real_kill = os.kill

    def kill(pid, sig):
        if pid == FAKE_PID and sig == 0:
            w.call('kill')
            rv = w.probe()
            # kernel semantics: the pid of an exited child stays valid (zombie) until its parent reaps it,
            # so kill(pid, 0) succeeds; an orphan (after daemonize) is reaped by init at once -> ESRCH
            # Which errno the probe of a DEAD ssh answers with is up to the platform: ESRCH when the pid is
            # free, EPERM when it was recycled by another user's process or a container/LSM policy denies
            # signalling, or something else; the scenario chooses (`kill_errno`).
            if rv is not None and (w.daemonized or w.reaped):
                en = w.s.get('kill_errno', errno.ESRCH)
                raise OSError(en, os.strerror(en))
            return None
        return real_kill(pid, sig)

    saved = dict(
        FirewallClient=client.FirewallClient, MultiListener=client.MultiListener, Mux=client.Mux,
        log=client.log, check_daemon=client.check_daemon, daemonize=client.daemonize,
        daemon_cleanup=client.daemon_cleanup)
    s_connect, s_runonce, s_select, s_sslog, s_send = ssh.connect, ssnet.runonce, ssnet.select, ssnet.log, sdnotify.send
    s_stdout, s_stderr, s_prefix, s_verbose = sys.stdout, sys.stderr, helpers.logprefix, helpers.verbose
    s_sub, s_admin, s_getm = client.ssubprocess, client.is_admin_user, client.get_method
    s_time = client.time
    client.time = types.SimpleNamespace(time=lambda: w.now, sleep=lambda n: None)
    if script.get('history') is not None:
        w.grant = 4096
    old_alarm = signal.signal(signal.SIGALRM, on_alarm)
    signal.setitimer(signal.ITIMER_REAL, watchdog_seconds())
    client.FirewallClient = RecFw
    if realfw:
        client.FirewallClient = RealFw
        client.ssubprocess = types.SimpleNamespace(Popen=popen, PIPE=subprocess.PIPE)
        client.is_admin_user = lambda: True
        client.get_method = lambda name: Method('fake')
    client.MultiListener = RecListener
    client.Mux = RecMux
    s_hlog = helpers.log
    helpers.log = wlog
    client.log = wlog
    client.check_daemon = lambda pidfile: None
    def daemonize():
        w.call('daemonize')
        w.daemonized = True
    client.daemonize = daemonize
    client.daemon_cleanup = lambda: w.call('cleanup')
    ssh.connect = connect
    ssnet.runonce = runonce
    ssnet.select = FakeSelect(w)
    ssnet.log = wlog
    sdnotify.send = notify
    os.kill = kill
    if realssh:
        # real ssh.connect, real child, real descriptors, real select, real listeners, real clock
        ssh.connect = connect_real
        ssnet.select = s_select
        os.kill = real_kill
        client.time = s_time
        client.MultiListener = OrigListener
        ssnet.set_non_blocking_io = ssnet._c12_real_set_non_blocking_io
        signal.setitimer(signal.ITIMER_REAL, watchdog_s or REALSSH_WATCHDOG_S)
    # order matters: a garbage collection in between must not log to the real stderr
    sys.stderr = EioStderr() if w.level == 13 else io.StringIO()
    sys.stdout = Stdout(w)
    helpers.verbose = 3 if w.level == 13 else w.level
    client.dnsreqs.clear()
    client.udp_by_src.clear()
    try:
        try:
            rv = client.main(
                None, ('127.0.0.1', 0), script.get('ssh_cmd'), 'host', None, bool(script['lat']), 32768, False,
                [(2, '10.0.0.%d' % (i + 1)) for i in range(script['ns'])],
                'fake', (['h%d' % i for i in range(script['seed'])] if script['seed'] is not None else None),
                False, bool(script['auto']),
                [(2, '10.%d.0.0' % i, 16, 0, 0) for i in range(script['inc'])],
                [(2, '10.%d.9.0' % i, 24, 0, 0) for i in range(script['exc'])],
                bool(script['daemon']), None, '/nonexistent/pid', None, None, False, False, None, '0x01')
            outcome = 'ret'
            if rv is not None:
                outcome = 'ret%r' % (rv,)
        except BaseException as e:  # noqa
            outcome = 'exc=' + kind_of(e, helpers)
    finally:
        for k, v in saved.items():
            setattr(client, k, v)
        signal.setitimer(signal.ITIMER_REAL, 0)
        signal.signal(signal.SIGALRM, old_alarm)
        ssnet.set_non_blocking_io = lambda fd: None
        w.child_status = []
        for p in children:
            try:
                p.kill()
            except OSError:
                pass
            try:
                w.child_status.append(subprocess.Popen.wait(p, timeout=5))
            except Exception:  # noqa
                w.child_status.append('?')
        client.ssubprocess, client.is_admin_user, client.get_method = s_sub, s_admin, s_getm
        client.time = s_time
        ssh.connect, ssnet.runonce, ssnet.select, ssnet.log, sdnotify.send = \
            s_connect, s_runonce, s_select, s_sslog, s_send
        os.kill = real_kill
        helpers.verbose = s_verbose
        sys.stdout, sys.stderr, helpers.logprefix = s_stdout, s_stderr, s_prefix
        helpers.log = s_hlog
    if realfw:
        # the client is done; give the far end a moment (daemon mode does not wait for it), take the
        # verdict, then release whatever the client side still holds and collect the thread
        for h in standins:
            h.thread.join(HelperStandIn.WAIT)
        w.verdict_events = list(w.events)
        w.helper_alive = [h.thread.is_alive() for h in standins]
        for fw in instances:
            for v in list(vars(fw).values()):
                for x in (v if isinstance(v, (list, tuple)) else [v]):
                    if isinstance(x, socket.socket) or hasattr(x, 'readline'):
                        try:
                            x.close()
                        except OSError:
                            pass
            if getattr(fw, 'method', None) is not None:
                fw.method.firewall = None
        del instances[:]
        gc.collect()
        for h in standins:
            h.thread.join(6.0)
    return w.events, outcome, w


def oracle_realfw(script, faults, events, outcome, w):
    """The property on the real descriptor: whatever ended the session, the helper reads EOF."""
    bad = []
    ev = w.verdict_events
    if any(w.helper_alive) or 'waitHUNG' in ev or 'hTIMEOUT' in ev:
        bad.append(('C12:real-fd:helper-no-eof',
                    'after client.main has ended (for any reason) the helper reads EOF on its control channel',
                    'helper stand-in still blocked in read %.1fs after client.main ended with %s; trace: %s'
                    % (HelperStandIn.WAIT, outcome, ' '.join(ev))))
    if 'ready' in ev and ('hSTARTED' not in ev or ev.index('hSTARTED') > ev.index('ready')):
        bad.append(('C12:ready-before-confirm', 'READY=1 only after the helper wrote STARTED',
                    'ready without/before the helper\'s STARTED; trace: %s' % ' '.join(ev)))
    if 'hDIED' in ev:
        i = ev.index('hDIED')
        later = [e for e in ev[i:] if e.startswith('run') or e == 'started']
        if later:
            bad.append(('C12:loop-after-unconfirmed-start',
                        'a helper that exits after GO without STARTED ends the session (Fatal out of fw.start())',
                        'after the helper died: %s; trace: %s' % (','.join(later), ' '.join(ev))))
    return bad


# ------------------------------------------------------------------ model input line

def opt(v):
    return 'N' if v is None else str(v)


def script_line(s, faults):
    steps = ';'.join('%s/%s/%s/%d' % (opt(None if st['alive'] is None else abs(st['alive'])), 'N' if st['arrive'] is None else
                                        ('E' if st['arrive'] == 'E' else hexb(st['arrive'])),
                                        opt(st['grant']), 1 if st['accept'] else 0) for st in s['steps']) or '-'
    hs = ','.join(hexb(c) for c in s['hs'] if c) or '-'
    seed = 'N' if s['seed'] is None else str(len('\n'.join('h%d' % i for i in range(s['seed']))))
    fl = ','.join('%d:%s' % (k, v) for k, v in sorted(faults.items())) or '-'
    return ('run d=%d u=%d l=%d a=%d seed=%s inc=%d exc=%d ns=%d hs=%s p0=%s line=%s hp=%s wt=%d end=%s steps=%s faults=%s'
            % (s['daemon'], s['udp'], s['lat'], s['auto'], seed, s['inc'], s['exc'] + 1, s['ns'], hs,
               opt(s['poll0']), hexb(s['line']), opt(s['hpoll']), s['wait'], s['end'], steps, fl))


# ------------------------------------------------------------------ the property, on the real call sequence

SYNC = b'SSHUTTLE0001'


def hs_ok(stream):
    """The bytes contain <anything> NUL <anything> NUL SSHUTTLE0001 (decided by the bytes alone)."""
    i = stream.find(b'\0')
    if i < 0:
        return False
    j = stream.find(b'\0', i + 1)
    if j < 0:
        return False
    return stream[j + 1:j + 1 + len(SYNC)] == SYNC


def frames_in(stream):
    """Complete frames at the start of `stream` (independent decoder)."""
    out = []
    pos = 0
    while len(stream) - pos >= 8:
        if stream[pos:pos + 2] != b'SS':
            break
        chan, cmd, n = struct.unpack('!HHH', stream[pos + 2:pos + 8])
        if len(stream) - pos - 8 < n:
            break
        out.append((chan, cmd, stream[pos + 8:pos + 8 + n]))
        pos += 8 + n
    return out


CMD_ROUTES = 0x4207
ROUNDS_BOUND = 2


def stream_corrupt(stream):
    """At a frame boundary at least 8 bytes are present and they do not start a frame."""
    pos = 0
    while len(stream) - pos >= 8:
        if stream[pos:pos + 2] != b'SS':
            return True
        n = struct.unpack('!H', stream[pos + 6:pos + 8])[0]
        if len(stream) - pos - 8 < n:
            return False
        pos += 8 + n
    return False


def oracle(script, faults, events, outcome, w):
    """Returns a list of (key, expected, observed)."""
    bad = []
    ev = events
    pf_use = [i for i, e in enumerate(ev) if e.startswith('fw') and e != 'fwpoll']
    writes = [i for i, e in enumerate(ev) if e.startswith('fw') and e not in ('fwpoll', 'fwflush', 'fwreadline')]
    starts = [i for i, e in enumerate(ev) if e == 'fwROUTES']
    all_hs = b''.join(script['hs'])
    # R1: the helper is asked to start only after sync string + ROUTES frame, and once
    if starts:
        if not hs_ok(w.consumed_hs) or script['poll0'] is not None:
            bad.append(('C12:start-before-handshake', 'fw.start() only after the init string matched and ssh was alive',
                        'first helper line at event %d; bytes read before: %r, poll0=%r' % (starts[0], w.consumed_hs, script['poll0'])))
        snap = [x for x in w.info if x[1] == 'start']
        got = frames_in(w.consumed_mux[:snap[0][2]]) if snap else []
        if not any(c == CMD_ROUTES for (_ch, c, _d) in got):
            bad.append(('C12:start-before-routes', 'fw.start() only after a ROUTES frame was received',
                        'first helper line at event %d; frames received before: %r' % (starts[0], [(c, m) for c, m, _ in got])))
        if len(starts) > 1:
            bad.append(('C12:start-twice', 'at most one start dialogue', 'fwROUTES at events %r' % starts))
    # R2: READY only after the helper confirmed
    for i, e in enumerate(ev):
        if e == 'ready':
            conf = [x for x in w.info if x[1] == 'line' and x[0] < i and x[2] == b'STARTED\n']
            go = [j for j in range(i) if ev[j] == 'fwGO']
            if not conf or not go or go[0] > conf[0][0] or script['hpoll']:
                bad.append(('C12:ready-before-confirm', 'READY=1 only after GO was sent, STARTED was read back and the helper was alive',
                            'ready at event %d; readline results before it: %r; helper poll=%r'
                            % (i, [x[2] for x in w.info if x[1] == 'line' and x[0] < i], script['hpoll'])))
    # R8: the helper never confirmed (readline gave something else than STARTED, e.g. EOF because it
    # exited after GO) => fw.start() must not return, the loop must not go on
    for x in w.info:
        if x[1] == 'line' and x[2] != b'STARTED\n':
            later = [e for e in ev[x[0]:] if e.startswith('run') or e == 'started']
            if later:
                bad.append(('C12:loop-after-unconfirmed-start',
                            'a reply other than STARTED (EOF included) raises out of fw.start(); no further loop round',
                            'readline returned %r at event %d (helper poll answers %r then %r); afterwards: %s'
                            % (x[2], x[0], script['hpoll'], script.get('hpoll_later', script['hpoll']), ','.join(later))))
            break
    # R3: wrong/missing handshake or dead ssh => Fatal, nothing sent to the helper
    if not hs_ok(all_hs) or script['poll0'] is not None:
        if writes:
            bad.append(('C12:bad-handshake-but-helper-used', 'no line is written to the helper',
                        'helper writes at events %r' % writes[:5]))
        if not faults and outcome != 'exc=fatal':
            bad.append(('C12:bad-handshake-not-fatal', 'exc=fatal', outcome))
    # R4: on every path the control channel is closed, last
    closes = [i for i, e in enumerate(ev) if e == 'close']
    if len(closes) != 1 or not w.closed:
        bad.append(('C12:pfile-not-closed', 'exactly one pfile.close() on every path',
                    'close events: %r; outcome %s; tail of trace: %s' % (closes, outcome, ' '.join(ev[-6:]))))
    elif any(i > closes[0] for i in pf_use):
        bad.append(('C12:pfile-used-after-close', 'close is the last pfile event',
                    'close at %d, later use at %r' % (closes[0], [i for i in pf_use if i > closes[0]])))
    # R5: ssh has exited by the liveness probe of iteration i => no runonce at i (the probe must notice:
    # foreground ssh is a child whose status only poll() collects; kill(pid, 0) on the zombie succeeds)
    for it, st in enumerate(script['steps']):
        if st['alive'] is not None and w.probed >= it:
            if 'run%d' % it in ev:
                bad.append(('C12:runonce-after-ssh-death', 'no runonce in the iteration whose liveness probe ran after ssh exited',
                            'run%d present although ssh had exited with %r before the probe of iteration %d (%s mode)'
                            % (it, st['alive'], it, 'daemon' if script['daemon'] else 'foreground')))
            if not faults and outcome != 'exc=fatal':
                bad.append(('C12:ssh-death-not-fatal', 'exc=fatal', outcome))
            break
    # R10: a LIVE ssh is never declared dead: a session in which ssh never exits, nothing is faulted and the
    # last thing before the finally part is a liveness probe that is not the scripted end must not be Fatal
    if not faults and w.dead_rv is None and script['poll0'] is None and outcome == 'exc=fatal' and \
            script['end'] != 'fatal' and not w.stuck:
        body = [e for e in ev[:closes[0]] if e != 'rc0'] if closes else []
        if body and body[-1] in ('poll', 'kill') and len(w.probe_times) >= 1 and \
                (w.timed or w.iter < len(script['steps'])):
            bad.append(('C12:live-ssh-declared-dead', 'a liveness probe of a running ssh does not end the session',
                        'Fatal right after probe no. %d although ssh was alive; tail of trace: %s'
                        % (len(w.probe_times), ' '.join(ev[-8:]))))
    # R7: a corrupted tunnel stream (>= 8 bytes at a frame boundary that are not a frame header) with ssh
    # still alive must release the helper within ROUNDS_BOUND further loop rounds
    corrupt_at = None
    for x in w.info:
        if x[1] == 'mread' and stream_corrupt(w.consumed_mux[:x[2]]):
            corrupt_at = x[0]
            break
    if corrupt_at is not None and starts:
        frm = max(corrupt_at, starts[0])
        later = [e for e in ev[frm:] if e.startswith('run')]
        if len(later) > ROUNDS_BOUND:
            bad.append(('C12:tunnel-corrupt:helper-not-released',
                        'after non-frame bytes on the tunnel the session ends (pfile closed) within %d loop rounds' % ROUNDS_BOUND,
                        'corrupt header read at event %d; %d further rounds (%s) with the helper started and pfile open'
                        % (corrupt_at, len(later), ','.join(later))))
    # R9: the loop must end.  Going to sleep for ever / using up the pass budget / the watchdog is a verdict,
    # never a time-out of the check; and the rules must not outlive ssh by more than LEFT_OVER_S (fake time)
    started = bool(starts)
    if w.stuck:
        reason, at = w.stuck
        before = ev[:at]
        open_then = 'close' not in before
        how = {'sleep': 'went to sleep in select() with nothing that could wake it',
               'budget': 'used up its pass budget', 'watchdog': 'ran into the wall-clock watchdog',
               'eof-reads': 'kept reading the ssh pipe after it had reached EOF (%d reads)' % w.eof_reads,
               'calls': 'used up its boundary-call budget',
               'block': 'blocked for ever in read() on the exhausted stream of a live ssh'}[reason]
        tail = ' '.join(before[-12:])
        if w.passes == 0:
            bad.append(('C12:handshake-never-ends',
                        'a server stream that ends before the handshake is complete gives Fatal and the control channel is closed',
                        'start-up %s; stream %r; verbosity %d; %d boundary calls, pfile %s; last events: %s'
                        % (how, [hexb(c) for c in script['hs']], w.level, w.calls, 'open' if open_then else 'closed', tail)))
        elif w.dead_rv is not None and started and open_then:
            bad.append(('C12:stuck-after-ssh-death',
                        'once ssh has exited the main loop ends and the control channel is closed',
                        'ssh exited with %r at t=%.3fs; the loop then %s at t=%.3fs after %d passes (liveness probes at %s) '
                        'with the helper started and pfile open'
                        % (w.dead_rv, (w.death_time or T0) - T0, how,
                           w.now - T0, w.passes, ['%.3f' % (t - T0) for t in w.probe_times][-4:])))
        else:
            bad.append(('C12:loop-does-not-end', 'every scripted session ends',
                        'aborted (%s) after %d passes at t=%.3fs; ssh dead=%r helper started=%r; last events: %s'
                        % (how, w.passes, w.now - T0, w.dead_rv, started, tail)))
    elif w.death_time is not None and started and w.close_time is not None and not faults:
        if starts[0] < closes[0] if closes else False:
            if w.close_time - max(w.death_time, 0) > LEFT_OVER_S and \
                    any(x[1] in ('death',) for x in w.info):
                bad.append(('C12:rules-left-over-dead-tunnel',
                            'the control channel is closed within %.0f s (scenario time) of ssh exiting' % LEFT_OVER_S,
                            'ssh exited at t=%.3fs, pfile.close() at t=%.3fs (liveness probes at %s)'
                            % (w.death_time - T0, w.close_time - T0, ['%.3f' % (t - T0) for t in w.probe_times][-4:])))
    return bad


# ------------------------------------------------------------------ script generation

def fr(chan, cmd, data):
    return struct.pack('!ccHHH', b'S', b'S', chan, cmd, len(data)) + data


def gen_script(rng, ssnet, flavour):
    s = dict(daemon=rng.randrange(2), udp=rng.randrange(2), lat=rng.randrange(2), auto=rng.randrange(2),
             seed=rng.choice([None, None, 0, 1, 3]), inc=rng.randrange(3), exc=rng.randrange(2), ns=rng.randrange(2),
             poll0=None, line=b'STARTED\n', hpoll=rng.choice([None, None, 0]), wait=rng.choice([0, 0, 0, 1, 99]))
    s['end'] = rng.choice(['kbint', 'kbint', 'sysexit', 'fatal', 'other', 'os5'])
    # start-of-stream
    noise1 = bytes(rng.randrange(1, 256) for _ in range(rng.choice([0, 0, 2, 7])))
    noise2 = bytes(rng.randrange(1, 256) for _ in range(rng.choice([0, 0, 1])))
    sync = SYNC
    good = True
    if flavour == 'badhs':
        good = False
        k = rng.randrange(6)
        if k == 0:
            sync = b'SSHUTTLE0002'
        elif k == 1:
            sync = SYNC[:rng.randrange(0, 12)]
        elif k == 2:
            sync = b''
            noise2 = None
        elif k == 3:
            sync = b'\0' + SYNC
        elif k == 4:
            sync = b'sshuttle0001'
        else:
            good = True
            s['poll0'] = rng.choice([0, 1, 97, 98, 99, 127, 255])
    head = noise1 + b'\0' + ((noise2 + b'\0' + sync) if noise2 is not None else b'')
    # tunnel frames
    routes_payload = rng.choice([b'', b'2,10.1.0.0,16\n', b'2,10.1.0.0,16\n10,fd00::,64\n2,192.168.7.0,24\n',
                                 b' 2,1.2.3.0, 24 \n\n', b'2,1.2.3.0\n', b'x,1.2.3.0,24\n', b'2,\xff.2.3.0,24\n',
                                 b'2,1.2.3.0,2_4\n', b'+2,1.2.3.0,-0\n', b'2,1.2.3.0,24,9\n', b'2,1.2.3.0,\n'])
    hostlist = rng.choice([b'alpha,10.0.0.1\n', b'a-b.c_d,1.2.3.4\nzz,9.9.9.9\n', b'  \n', b'nocomma\n',
                           b'bad/name,1.2.3.4\n', b'ok,1.2.3.x\n', b'h1,1.1.1.1 h2,2.2.2.2\tq,3.3.3.3', b',1.2.3.4\n', b'a,1.2.3\n',
                           b'a,1.2.3.4.5\nb,1.2.3.4\n', b'a,1234.1.1.1\n', b'a,1.2.3.4,5\n', b'a,1..3.4\n',
                           b'n' * 253 + b',1.2.3.4\n', b'n' * 254 + b',1.2.3.4\nok,999.0.00.1\n',
                           b'b\xc3\xbccher,1.2.3.4\nweb/srv,1.2.3.4\nfine,10.0.0.7\n'])
    pool = {
        'routes': fr(0, ssnet.CMD_ROUTES, routes_payload),
        'hosts': fr(0, ssnet.CMD_HOST_LIST, hostlist),
        'ping': fr(0, ssnet.CMD_PING, b'rt' * rng.randrange(0, 4)),
        'pong': fr(0, ssnet.CMD_PONG, b''),
        'data': fr(rng.choice([1, 2, 300]), ssnet.CMD_TCP_DATA, b'x' * rng.randrange(0, 9)),
        'late': fr(rng.choice([200, 65535]), rng.choice([ssnet.CMD_TCP_EOF, ssnet.CMD_TCP_STOP_SENDING, ssnet.CMD_UDP_DATA, 0x4fff]), b'q'),
        'connect': fr(rng.choice([1, 7]), ssnet.CMD_TCP_CONNECT, b'2,1.2.3.4,80'),
        'exit': fr(0, ssnet.CMD_EXIT, b''),
        'hostreq': fr(0, ssnet.CMD_HOST_REQ, b'x'),
        'garbage': bytes(rng.randrange(256) for _ in range(rng.randrange(1, 12))),
    }
    if flavour == 'routes-never':
        order = [rng.choice(['ping', 'hosts', 'data', 'pong', 'late']) for _ in range(rng.randrange(0, 4))]
    elif flavour == 'routes-twice':
        order = ['routes'] + [rng.choice(['ping', 'hosts', 'data']) for _ in range(rng.randrange(0, 2))] + ['routes']
    elif flavour == 'routes-late':
        order = [rng.choice(['ping', 'hosts', 'data', 'pong', 'connect', 'late']) for _ in range(rng.randrange(1, 4))] + ['routes'] + \
                [rng.choice(['hosts', 'ping', 'data']) for _ in range(rng.randrange(0, 3))]
    elif flavour == 'mixed':
        order = [rng.choice(list(pool)) for _ in range(rng.randrange(1, 6))]
    else:
        order = ['routes'] + [rng.choice(['hosts', 'ping', 'data', 'pong']) for _ in range(rng.randrange(0, 3))]
    tunnel = b''.join(pool[k] for k in order)
    nsteps = rng.randrange(0, 6)
    # cut the tunnel bytes into nsteps+1 pieces: piece 0 travels with the start-of-stream bytes
    cuts = sorted(rng.randrange(0, len(tunnel) + 1) for _ in range(nsteps)) if tunnel else [0] * nsteps
    pieces = [tunnel[a:b] for a, b in zip([0] + cuts, cuts + [len(tunnel)])]
    if rng.random() < 0.5 and good and s['poll0'] is None:
        first = pieces[0]
    else:
        first = b''
        if nsteps:
            pieces[1] = pieces[0] + pieces[1]
        pieces[0] = b''
    stream0 = head + first
    n = len(stream0)
    ncuts = rng.choice([0, 1, 2, 3, n])
    cs = sorted(set(rng.randrange(1, n) for _ in range(ncuts))) if n > 1 else []
    s['hs'] = [stream0[a:b] for a, b in zip([0] + cs, cs + [n])]
    steps = []
    die_at = rng.randrange(nsteps) if (nsteps and flavour == 'sshdeath') else None
    eof_at = rng.randrange(nsteps) if (nsteps and rng.random() < 0.15) else None
    for i in range(nsteps):
        arrive = pieces[i + 1] or None
        if eof_at is not None and i == eof_at:
            arrive = 'E'
        elif eof_at is not None and i > eof_at:
            arrive = None
        if i == die_at and rng.random() < 0.5:
            arrive = 'E'
        steps.append(dict(alive=(rng.choice([0, 1, 255, -15, -9, 143]) if i == die_at else None), arrive=arrive,
                          grant=rng.choice([None, None, 0, 1, 5, 100, 4096]),
                          accept=1 if rng.random() < 0.2 else 0))
    if flavour == 'corrupt':
        steps.append(dict(alive=None, arrive=bytes(rng.randrange(256) for _ in range(rng.randrange(8, 30))),
                          grant=rng.choice([None, 100]), accept=0))
        for _ in range(rng.randrange(3, 5)):
            steps.append(dict(alive=None, arrive=None, grant=None, accept=rng.randrange(2)))
    s['steps'] = steps
    if flavour == 'sshdeath':
        s['kill_errno'] = rng.choice([errno.ESRCH, errno.EPERM, errno.EPERM, errno.EINVAL, errno.EACCES])
    if flavour == 'helper':
        s['line'] = rng.choice([b'', b'', b'STARTED', b'ERROR\n', b'STARTED\n', b'started\n'])
        s['hpoll'] = rng.choice([None, 0, 0, 1, 99])
        if s['hpoll'] is None and rng.random() < 0.5:
            s['hpoll_later'] = rng.choice([1, 99])
    if flavour == 'bigseed':
        s['seed'] = rng.choice([9000, 20000])
        s['lat'] = 1
    return s


FLAVOURS = ['normal', 'normal', 'routes-late', 'routes-never', 'routes-twice', 'mixed', 'badhs', 'badhs',
            'sshdeath', 'sshdeath', 'helper', 'mixed', 'corrupt', 'bigseed', 'normal']


def negative_alive(s):
    return any(st['alive'] is not None and st['alive'] < 0 for st in s['steps'])


class Case:
    __slots__ = ('script', 'faults', 'line', 'out', 'level')


def eof_loop_continues(ev, w):
    """Observation outside the statement of C12 (not judged): the Mux read EOF after the helper was started
    and runonce was entered again afterwards (client._main never tests mux.ok)."""
    eofs = [x[0] for x in w.info if x[1] == 'muxeof']
    starts = [i for i, e in enumerate(ev) if e == 'fwROUTES']
    return bool(eofs and starts and starts[0] < eofs[0] and any(e.startswith('run') for e in ev[eofs[0]:]))


def run_case(ctx, script, faults, cases):
    ev, outcome, w = run_real(script, faults)
    ctx.count()
    if eof_loop_continues(ev, w):
        ctx.hist('tunnel-eof-loop-continues')
    for key, exp, obs in oracle(script, faults, ev, outcome, w):
        if len(ctx.violations) < 400:
            ctx.violation(key, case=dict(script=ser_script(script), faults={str(k): v for k, v in faults.items()},
                                         level=w.level),
                          expected=exp, observed=obs + ' | trace: ' + ' '.join(ev[:120]) +
                          (' ... ' if len(ev) > 120 else ' ') + outcome, kind='faults')
    c = Case()
    c.script, c.faults = script, faults
    c.line = script_line(script, faults)
    c.out = ' '.join(ev + [outcome])
    c.level = w.level
    cases.append(c)
    return ev, outcome, w


def ser_script(s):
    d = dict(s)
    d['hs'] = [hexb(c) for c in s['hs']]
    d['line'] = hexb(s['line'])
    d['steps'] = [dict(st, arrive=(st['arrive'] if st['arrive'] in (None, 'E') else hexb(st['arrive']))) for st in s['steps']]
    return d


def deser_script(d):
    s = dict(d)
    s['hs'] = [common.unhex(c) for c in d['hs']]
    s['line'] = common.unhex(d['line'])
    s['steps'] = [dict(st, arrive=(st['arrive'] if st['arrive'] in (None, 'E') else common.unhex(st['arrive'])))
                  for st in d['steps']]
    return s


def fixed_scripts(ssnet):
    """Hand-written boundary scripts (run first)."""
    base = dict(daemon=0, udp=0, lat=1, auto=0, seed=None, inc=1, exc=0, ns=0, poll0=None, line=b'STARTED\n',
                hpoll=None, wait=0, end='kbint')
    sync = b'\0\0' + SYNC
    r = fr(0, ssnet.CMD_ROUTES, b'2,10.0.0.0,8\n')
    out = []
    # the ordinary session, foreground and daemon, ROUTES in the first read after the handshake
    for d in (0, 1):
        out.append(dict(base, daemon=d, end='sysexit' if d else 'kbint', hs=[sync],
                        steps=[dict(alive=None, arrive=r, grant=4096, accept=0),
                               dict(alive=None, arrive=None, grant=None, accept=1),
                               dict(alive=None, arrive=fr(0, ssnet.CMD_HOST_LIST, b'h,1.2.3.4\n'), grant=4096, accept=0)]))
    # sync string split 6 + 8 (F01), ROUTES glued to the sync string, ssh dies at iteration 1
    out.append(dict(base, hs=[sync[:6], sync[6:] + r], auto=1, ns=1, udp=1,
                    steps=[dict(alive=None, arrive=None, grant=None, accept=0),
                           dict(alive=255, arrive=None, grant=None, accept=0)]))
    # wrong init string; ssh already dead with 255; nothing at all
    out.append(dict(base, hs=[b'\0\0SSHUTTLE0002' + r], steps=[dict(alive=None, arrive=None, grant=1, accept=0)]))
    out.append(dict(base, hs=[sync + r], poll0=255, steps=[dict(alive=None, arrive=None, grant=1, accept=0)]))
    out.append(dict(base, hs=[], daemon=1, steps=[]))
    # connection and HOST_LIST before ROUTES; ROUTES twice
    out.append(dict(base, hs=[sync], daemon=1, end='sysexit',
                    steps=[dict(alive=None, arrive=fr(0, ssnet.CMD_HOST_LIST, b'early,1.1.1.1\n'), grant=None, accept=1),
                           dict(alive=None, arrive=r[:3], grant=7, accept=1),
                           dict(alive=None, arrive=r[3:] + r, grant=None, accept=0)]))
    # helper does not confirm / helper already gone
    out.append(dict(base, hs=[sync + r], line=b'', hpoll=99, steps=[dict(alive=None, arrive=None, grant=None, accept=0)]))
    out.append(dict(base, hs=[sync + r], line=b'STARTED', steps=[dict(alive=None, arrive=None, grant=None, accept=0)]))
    # tunnel EOF while ssh is still reported alive
    out.append(dict(base, hs=[sync + r],
                    steps=[dict(alive=None, arrive=None, grant=4096, accept=0), dict(alive=None, arrive='E', grant=None, accept=0),
                           dict(alive=None, arrive=None, grant=None, accept=0), dict(alive=0, arrive=None, grant=None, accept=0)]))
    quiet = dict(alive=None, arrive=None, grant=None, accept=0)
    # the helper exits after GO without STARTED: readline gives EOF; poll() answers as the OS would —
    # daemon mode: not our child any more, ECHILD, Popen reports 0; foreground race: None first, status later
    out.append(dict(base, daemon=1, end='sysexit', hs=[sync + r], line=b'', hpoll=0,
                    steps=[dict(quiet), dict(quiet), dict(quiet)]))
    out.append(dict(base, hs=[sync + r], line=b'', hpoll=None, hpoll_later=1,
                    steps=[dict(quiet), dict(quiet), dict(quiet)]))
    # non-frame bytes on the tunnel after the helper was started, ssh stays alive for 4 more rounds
    for d in (0, 1):
        out.append(dict(base, daemon=d, end='sysexit' if d else 'kbint', hs=[sync + r],
                        steps=[dict(quiet, grant=4096), dict(quiet, arrive=b'bash: line 1: exec: python3: not found\n'),
                               dict(quiet), dict(quiet, accept=1), dict(quiet), dict(quiet)]))
    # same, garbage glued to a good frame and cut inside the bad header
    out.append(dict(base, hs=[sync], steps=[dict(quiet, arrive=r + fr(0, ssnet.CMD_PING, b'x') + b'Conn', grant=9),
                                            dict(quiet, arrive=b'ection closed by remote host\r\n'),
                                            dict(quiet), dict(quiet), dict(quiet), dict(quiet)]))
    # what the platform answers for a dead ssh: daemon — ESRCH / EPERM / another OSError; foreground — any
    # exit status including 0 and signal (negative) values; the script would go on for 3 more rounds
    for en in (errno.ESRCH, errno.EPERM, errno.EINVAL):
        out.append(dict(base, daemon=1, end='sysexit', hs=[sync + r], kill_errno=en,
                        steps=[dict(quiet, grant=4096), dict(quiet, alive=1), dict(quiet), dict(quiet, accept=1), dict(quiet)]))
    for rv in (0, -15, -9, 255):
        out.append(dict(base, hs=[sync + r],
                        steps=[dict(quiet, grant=4096), dict(quiet, alive=rv), dict(quiet), dict(quiet, accept=1), dict(quiet)]))
    # foreground / daemon: ssh exits (stdout reaches EOF) in iteration 1, the script would go on for 4 rounds
    for d in (0, 1):
        out.append(dict(base, daemon=d, end='sysexit' if d else 'kbint', hs=[sync + r],
                        steps=[dict(quiet, grant=4096), dict(quiet, alive=255, arrive='E'),
                               dict(quiet), dict(quiet, accept=1), dict(quiet), dict(quiet)]))
    return out


def near_handshake_scripts(ssnet):
    """Init strings next to the genuine one, each followed by a good ROUTES frame: every single-byte
    substitution by a digit, sign, underscore, blank, CR/LF/TAB or NUL at every position, every truncation,
    other spellings of the version number, and the genuine string itself.  Only the genuine 12 bytes may
    lead to the helper dialogue and READY."""
    base = dict(daemon=0, udp=0, lat=1, auto=0, seed=None, inc=1, exc=0, ns=0, poll0=None, line=b'STARTED\n',
                hpoll=None, wait=0, end='kbint')
    r = fr(0, ssnet.CMD_ROUTES, b'2,10.0.0.0,8\n')
    quiet = dict(alive=None, arrive=None, grant=None, accept=0)
    variants = [SYNC]
    subs = b'0123456789+-_ \r\n\t\0'
    for i in range(len(SYNC)):
        for c in subs:
            v = SYNC[:i] + bytes([c]) + SYNC[i + 1:]
            if v != SYNC:
                variants.append(v)
    for tail in [b'+001', b'-001', b'0_01', b' 001', b'001 ', b'001\n', b'1\r\n ', b'1   ', b' 1  ', b'  +1', b'01\t\n',
                 b'1_00', b'0002', b'0010', b'1e00', b'0x01', b'0o01', b'1.00', b'\xd9\xa1  ', b'00\xc2\xb9']:
        variants.append(SYNC[:8] + tail)
    out = []
    for v in variants:
        out.append(dict(base, hs=[b'\0\0' + v + r], steps=[dict(quiet, grant=4096), dict(quiet)]))
    # the same strings with NOTHING after the 12 bytes: ssh is alive and the stream just pauses, so any
    # further read during start-up would block for ever; the ROUTES frame arrives in the first loop round
    for v in variants:
        out.append(dict(base, hs=[b'\0\0' + v], steps=[dict(quiet, arrive=r, grant=4096), dict(quiet)]))
    for n in range(len(SYNC)):
        out.append(dict(base, hs=[b'\0\0' + SYNC[:n]], steps=[dict(quiet, arrive=r), dict(quiet)]))
    return out


def gen_cases(ctx):
    ssnet = _mods()[0]
    rng = ctx.rng
    cases = []
    for s in near_handshake_scripts(ssnet):
        ev, outcome, w = run_case(ctx, s, {}, cases)
        ctx.hist('near-handshake')
        if 'fwROUTES' in ev:
            ctx.hist('near-handshake:accepted')
    scripts = fixed_scripts(ssnet)
    nrand = ctx.scale(8, 220)
    for i in range(nrand):
        scripts.append(gen_script(rng, ssnet, FLAVOURS[i % len(FLAVOURS)]))
    for si, s in enumerate(scripts):
        ev, outcome, w = run_case(ctx, s, {}, cases)
        n = w.calls
        ctx.hist('scripts')
        ctx.hist('script:%s' % ('daemon' if s['daemon'] else 'foreground'))
        ctx.hist('baseline:' + outcome)
        if 'fwROUTES' in ev:
            ctx.hist('baseline:helper-started')
        if 'ready' in ev:
            ctx.hist('baseline:ready-sent')
        fin0 = ev.index('close') if 'close' in ev else len(ev)
        ncalls_body = sum(1 for e in ev[:fin0] if not is_marker(e))
        # every fault position x every kind
        kinds = KINDS
        if si >= len(fixed_scripts(ssnet)) and not ctx.thorough:
            pass
        for k in range(n):
            for kind in kinds:
                run_case(ctx, s, {k: kind}, cases)
                ctx.hist('single-fault')
        # double faults: one in the body, one in the finally part
        for _ in range(ctx.scale(12, 40)):
            if ncalls_body == 0:
                break
            k1 = rng.randrange(ncalls_body)
            f = {k1: rng.choice(KINDS)}
            ev1, _o, w1 = run_real(s, f)
            if 'close' not in ev1:
                continue
            nb = sum(1 for e in ev1[:ev1.index('close')] if not is_marker(e))
            if w1.calls > nb:
                f[rng.randrange(nb, w1.calls)] = rng.choice(KINDS)
            if rng.random() < 0.3 and w1.calls > nb + 1:
                f[rng.randrange(nb, w1.calls)] = rng.choice(KINDS)
            run_case(ctx, s, f, cases)
            ctx.hist('multi-fault')
    return cases


def is_marker(e):
    return e in ('routes', 'started', 'rc0') or e.startswith('run')


def compare(ctx, cases):
    if not ctx.model_available:
        ctx.notes.append('model driver unavailable: correspondence skipped, oracle only')
        return
    lines = [c.line for c in cases]
    # second stream: the Lean specification monitor judges the traces of the real code
    mon_idx = []
    for i, c in enumerate(cases):
        toks = c.out.split()[:-1]
        if any(t.startswith('fw?') or t == 'notify?' for t in toks):
            continue
        mon_idx.append(i)
        s = c.script
        if hs_ok(b''.join(s['hs'])) and s['poll0'] is None and 'poll' in toks:
            # position of the model-only marker: right after the first poll, when that call did not raise
            j = toks.index('poll')
            ncalls = sum(1 for e in toks[:j + 1] if not is_marker(e))
            if (ncalls - 1) not in c.faults and len(toks) > j + 1:
                toks = toks[:j + 1] + ['hsok'] + toks[j + 1:]
        lines.append('mon ' + ' '.join(toks))
    outs = common.LeanBatch('C12').run(lines)
    if len(outs) != len(lines):
        ctx.corr_break('C12', case=None, impl='%d lines' % len(lines), model='%d lines' % len(outs),
                       note='driver output length differs')
        return
    for c, mo in zip(cases, outs):
        if mo != c.out:
            ctx.corr_break('client-main', case=[c.line], impl=c.out, model=mo)
            if len(ctx.corr_breaks) > 20:
                return
    for i, mo in zip(mon_idx, outs[len(cases):]):
        if not mo.startswith('ok=1'):
            c = cases[i]
            ctx.violation('C12:spec-monitor', case=dict(script=ser_script(c.script), faults={str(k): v for k, v in c.faults.items()},
                                                        level=getattr(c, 'level', 0)),
                          expected='the Lean specification monitor accepts the trace of the real code (ok=1)',
                          observed=mo + ' | trace: ' + c.out, kind='faults')


def env_probe(ctx):
    """Environment assumption behind the `close` event, probed on real objects: the control channel is
    `s2.makefile('rwb')` of a socketpair whose socket object is dropped (FirewallClient.__init__); closing
    the file gives the peer EOF, and releases the descriptor even when the flush inside close() raises."""
    import socket
    s1, s2 = socket.socketpair()
    pfile = s2.makefile('rwb')
    del s2
    pfile.write(b'ROUTES\n')
    pfile.close()
    s1.settimeout(2)
    got = b''
    while True:
        b = s1.recv(100)
        if not b:
            break
        got += b
    s1.close()
    ok_a = got == b'ROUTES\n'
    s1, s2 = socket.socketpair()
    pfile = s2.makefile('rwb')
    fd = s2.fileno()
    del s2
    s1.close()
    pfile.write(b'x' * 10)
    raised = False
    try:
        pfile.close()
    except OSError:
        raised = True
    try:
        os.fstat(fd)
        released = False
    except OSError:
        released = True
    ctx.hist('env-probe')
    ctx.count()
    if not (ok_a and raised and released):
        ctx.violation('C12:env:close-does-not-release', case=dict(probe='socketpair'),
                      expected='peer reads the data then EOF; close() with a failing flush raises and still releases the descriptor',
                      observed=dict(data_then_eof=ok_a, flush_raised=raised, descriptor_released=released), kind='input')


def realfw_scripts(ssnet):
    base = dict(daemon=0, udp=0, lat=1, auto=0, seed=None, inc=1, exc=0, ns=0, poll0=None, line=b'STARTED\n',
                hpoll=None, wait=0, end='kbint')
    sync = b'\0\0' + SYNC
    r = fr(0, ssnet.CMD_ROUTES, b'2,10.0.0.0,8\n')
    quiet = dict(alive=None, arrive=None, grant=None, accept=0)
    out = []
    for d in (0, 1):
        # ordinary session that ends because ssh exits after readiness
        out.append(dict(base, daemon=d, hs=[sync + r], steps=[dict(quiet, grant=4096), dict(quiet, alive=1, arrive='E')]))
        # helper exits after GO without STARTED (daemon: poll() -> 0; foreground race: None, later 1)
        out.append(dict(base, daemon=d, hs=[sync + r], helper='die', hpoll=(0 if d else None), hpoll_later=(0 if d else 1),
                        steps=[dict(quiet), dict(quiet)]))
    out.append(dict(base, hs=[sync], end='kbint',
                    steps=[dict(quiet, arrive=r), dict(quiet, arrive=fr(0, ssnet.CMD_HOST_LIST, b'h,1.2.3.4\n')), dict(quiet)]))
    out.append(dict(base, hs=[b'\0\0SSHUTTLE0002'], steps=[dict(quiet)]))        # bad handshake: EOF before GO
    return out


def timed_histories(ssnet, rng, thorough):
    """Histories with an explicit time base: (dt_ms since the previous event, kind, arg).  ssh dies
    0 ms / 10 ms / 999 ms / 1 s / 5 s after the event that caused the previous liveness check, during the
    first, second or n-th sleep; afterwards nothing happens at all, or ^C an hour later, or a connection 5 s later."""
    base = dict(daemon=0, udp=0, lat=1, auto=0, seed=None, inc=1, exc=0, ns=0, poll0=None, line=b'STARTED\n',
                hpoll=None, wait=0, end='kbint', steps=[])
    sync = b'\0\0' + SYNC
    r = fr(0, ssnet.CMD_ROUTES, b'2,10.0.0.0,8\n')
    ping = hexb(fr(0, ssnet.CMD_PING, b'x'))
    out = []
    for d in (0, 1):
        for nth in (1, 2, 4):
            for gap in (0, 10, 999, 1000, 5000):
                for tail in ('nothing', 'sigint', 'accept'):
                    if not thorough and rng.random() < 0.5 and not (gap == 10 and tail == 'nothing'):
                        continue
                    h = []
                    for k in range(nth - 1):
                        h.append((rng.choice([0, 3, 400, 1500]), rng.choice(['data', 'data', 'accept']), ping))
                        if h[-1][1] == 'accept':
                            h[-1] = (h[-1][0], 'accept', None)
                    h.append((gap, 'death', rng.choice([0, 1, 255])))
                    if tail == 'sigint':
                        h.append((3600 * 1000, 'sigterm' if d else 'sigint', None))
                    elif tail == 'accept':
                        h.append((5000, 'accept', None))
                        h.append((3600 * 1000, 'sigterm' if d else 'sigint', None))
                    out.append(dict(base, daemon=d, hs=[sync + r], history=h,
                                    kill_errno=rng.choice([errno.ESRCH, errno.EPERM, errno.EINVAL])))
    return out


def timed_stream(ctx):
    ssnet = _mods()[0]
    nbad = 0
    for s in timed_histories(ssnet, ctx.rng, ctx.thorough):
        if nbad >= 4:
            break
        ev, outcome, w = run_real(s, {})
        ctx.count()
        ctx.hist('timed-history')
        ctx.mark(('timed', ser_script(s)), nontrivial=True)
        for key, exp, obs in oracle(s, {}, ev, outcome, w):
            nbad += 1
            ctx.violation(key, case=dict(timed=True, script=ser_script(s), faults={}, level=w.level), expected=exp,
                          observed=obs + ' | history: %r | trace: %s %s' % (s['history'], ' '.join(ev[-40:]), outcome),
                          kind='history')
        ctx.sample(dict(stream='timed history', history=s['history'], daemon=s['daemon'],
                        real_code_trace=' '.join(ev[-25:]) + ' ' + outcome), limit=9)


# ------------------------------------------------------------------ the helper's end of the channel

HELPER_SITES = ['setup6', 'setup4', 'ready', 'flush_start', 'started_write', 'rewrite_hosts',
                'restore6', 'restore4', 'restore_hosts', 'flush_end']
HELPER_KINDS = ['os5', 'fatal', 'other']
AF4, AF6 = 2, 10


def client_dialogue(client, fams):
    """What the real FirewallClient.setup()/start() writes for a session that intercepts the given
    families (sub4/sub6: subnets, ns4/ns6: name servers)."""
    class Cap:
        def __init__(self):
            self.buf = b''

        def write(self, b):
            self.buf += bytes(b)

        def flush(self):
            pass

        def readline(self):
            return b'STARTED\n'

    class P:
        def poll(self):
            return None

    fw = client.FirewallClient.__new__(client.FirewallClient)
    fw.auto_nets = []
    fw.pfile = Cap()
    fw.p = P()
    fw.argv = ['fw']
    inc = ([(AF4, '10.1.0.0', 16, 0, 0), (AF4, '192.168.7.0', 24, 80, 443)] if fams['sub4'] else []) + \
          ([(AF6, 'fd00::', 64, 0, 0)] if fams['sub6'] else [])
    exc = ([(AF4, '127.0.0.1', 32, 0, 0)] if fams['sub4'] else []) + ([(AF6, '::1', 128, 0, 0)] if fams['sub6'] else [])
    ns = ([(AF4, '10.1.0.53')] if fams['ns4'] else []) + ([(AF6, 'fd00::53')] if fams['ns6'] else [])
    v4 = fams['sub4'] or fams['ns4']
    v6 = fams['sub6'] or fams['ns6']
    fw.setup(inc, exc, ns, 12300 if v6 else 0, 12300 if v4 else 0, 12299 if fams['ns6'] else 0,
             12299 if fams['ns4'] else 0, False, None, None, '0x01')
    fw.start()
    return fw.pfile.buf


def run_helper(case):
    """Drive the real firewall.main() with the dialogue the real client wrote, a tail, and faults at the
    helper's own boundary (the method's set-up/restore, the hosts file, the resolver cache, its stdout).
    Returns the recorded history."""
    ssnet, client, helpers, ssh, sdnotify, BaseMethod = _mods()
    import sshuttle.firewall as firewall
    fams, tail, faults = case['fams'], case['tail'], case['faults']
    if 'level' not in case:
        case['level'] = next_level()
    level = case['level']
    log = []
    nflush = [0]

    def hit(site):
        k = faults.get(site)
        if k:
            log.append('!%s' % site)
            raise make_exc(k, helpers)

    class Method:
        name = 'fake'

        def is_supported(self):
            return True

        def setup_firewall(self, port, dnsport, nslist, family, subnets, udp, user, group, tmark):
            log.append('setup%d' % (6 if family == AF6 else 4))
            hit('setup%d' % (6 if family == AF6 else 4))

        def wait_for_firewall_ready(self, pid):
            hit('ready')
            raise NotImplementedError()

        def firewall_command(self, line):
            return False

        def restore_firewall(self, port, family, udp, user, group):
            log.append('restore%d' % (6 if family == AF6 else 4))
            hit('restore%d' % (6 if family == AF6 else 4))

    class Out:
        def write(self, b):
            if bytes(b).startswith(b'STARTED'):
                hit('started_write')
                log.append('STARTED')
            return len(b)

        def flush(self):
            pass

    def rewrite(hostmap, port):
        log.append('hosts+')
        hit('rewrite_hosts')

    def restore_hosts(hostmap, port):
        log.append('hosts-')
        hit('restore_hosts')

    def flush_dns():
        nflush[0] += 1
        hit('flush_start' if nflush[0] == 1 else 'flush_end')

    data = client_dialogue(client, fams)
    if tail == 'eof':
        pass
    elif tail == 'host-eof':
        data += b'HOST alpha,10.0.0.1\nHOST beta,10.0.0.2\n'
    elif tail == 'badcmd':
        data += b'HOST alpha,10.0.0.1\nFROBNICATE\n'
    elif tail == 'cut':
        data = data[:data.rindex(b'GO ')]
    saved = (firewall.setup_daemon, firewall.get_method, firewall.rewrite_etc_hosts, firewall.restore_etc_hosts,
             firewall.flush_systemd_dns_cache, helpers.logprefix, helpers.verbose, sys.stderr)
    firewall.setup_daemon = lambda: (io.BytesIO(data), Out())
    firewall.get_method = lambda name: Method()
    firewall.rewrite_etc_hosts = rewrite
    firewall.restore_etc_hosts = restore_hosts
    firewall.flush_systemd_dns_cache = flush_dns
    sys.stderr = EioStderr() if level == 13 else io.StringIO()
    helpers.verbose = 3 if level == 13 else level
    try:
        try:
            firewall.main('fake', False)
            log.append('ret')
        except BaseException as e:  # noqa
            log.append('exc=' + kind_of(e, helpers))
    finally:
        helpers.verbose = saved[6]
        (firewall.setup_daemon, firewall.get_method, firewall.rewrite_etc_hosts, firewall.restore_etc_hosts,
         firewall.flush_systemd_dns_cache, helpers.logprefix, helpers.verbose, sys.stderr) = saved
    return log


def oracle_helper(case, log):
    """When the control channel ends (EOF, a bad line, a failing step) the helper takes down the
    interception of EVERY family it started to set up — a failure while restoring one family must not
    leave the other one installed — and gives the hosts file back if it touched it."""
    bad = []
    for fam in (4, 6):
        s_, r_ = 'setup%d' % fam, 'restore%d' % fam
        if s_ in log and not any(e == r_ for e in log[log.index(s_):]):
            other = 6 if fam == 4 else 4
            bad.append(('C12:helper-end:family-not-restored',
                        'after the control channel ended, restore_firewall() is attempted for every family that was set up',
                        'IPv%d was set up but its restore was never attempted (faults %r; IPv%d restore %s); history: %s'
                        % (fam, case['faults'], other,
                           'failed' if '!restore%d' % other in log else 'n/a', ' '.join(log))))
    if 'hosts+' in log and 'hosts-' not in log[log.index('hosts+'):]:
        bad.append(('C12:helper-end:hosts-not-restored', 'the hosts file is given back when it was touched',
                    'history: %s' % ' '.join(log)))
    return bad


def helper_cases(ctx):
    out = []
    combos = [dict(sub4=a, sub6=b, ns4=c, ns6=d) for a in (0, 1) for b in (0, 1) for c in (0, 1) for d in (0, 1)
              if a or b or c or d]
    for fams in combos:
        for tail in ('eof', 'host-eof', 'badcmd', 'cut'):
            out.append(dict(fams=fams, tail=tail, faults={}))
            for site in HELPER_SITES:
                for kind in (HELPER_KINDS if ctx.thorough or tail == 'eof' else HELPER_KINDS[:1]):
                    out.append(dict(fams=fams, tail=tail, faults={site: kind}))
            # two faults: each family's restore together with another shutdown step
            for a, b in (('restore6', 'restore_hosts'), ('restore4', 'flush_end'), ('restore6', 'restore4'),
                         ('setup4', 'restore6'), ('setup6', 'restore4')):
                out.append(dict(fams=fams, tail=tail, faults={a: 'os5', b: 'other'}))
    return out


def helper_stream(ctx):
    """The other end of `PfileClose`: the real firewall.main() reads the real client's dialogue, then EOF."""
    nbad = 0
    for case in helper_cases(ctx):
        log = run_helper(case)
        ctx.count()
        ctx.hist('helper-end')
        dual = (case['fams']['sub4'] or case['fams']['ns4']) and (case['fams']['sub6'] or case['fams']['ns6'])
        if dual:
            ctx.hist('helper-end:dual-family')
        ctx.mark(('helper', repr(sorted(case['fams'].items())), case['tail'], sorted(case['faults'].items())),
                 nontrivial=True)
        for key, exp, obs in oracle_helper(case, log):
            nbad += 1
            if nbad <= 6:
                ctx.violation(key, case=dict(helper_end=True, **case), expected=exp, observed=obs, kind='faults')
    ctx.sample(dict(stream='helper end of the channel', case=case, real_code_history=' '.join(log)), limit=10)


# ------------------------------------------------------------------ the real ssh.connect() and a real child

STANDIN = '''
import os, sys, time, struct, signal
o = sys.stdout.buffer
o.write(bytes.fromhex(%(hello)r)); o.flush()
t = time.time() + %(idle)r
while time.time() < t:
    if %(busy)r:
        o.write(bytes.fromhex(%(ping)r)); o.flush()
    time.sleep(0.01)
m = %(mode)r
if m == "kill9":
    os.kill(os.getpid(), signal.SIGKILL)
os._exit(0 if m == "exit0" else 255)
'''


def realssh_cases(ssnet, seed, thorough):
    hello = (b'\0\0' + SYNC + fr(0, ssnet.CMD_ROUTES, b'2,10.0.0.0,8\n')).hex()
    ping = fr(0, ssnet.CMD_PING, b'keepalive').hex()
    allc = [('exit0', 0), ('exit255', 1), ('kill9', 0), ('exit0', 1), ('exit255', 0), ('kill9', 1)]
    if not thorough:
        k = (seed % 2) * 3
        allc = allc[k:k + 3]
    out = []
    for mode, busy in allc:
        code = STANDIN % dict(hello=hello, idle=0.12, busy=busy, ping=ping, mode=mode)
        import shlex
        cmd = '%s -c %s' % (shlex.quote(sys.executable), shlex.quote(code))
        out.append(dict(daemon=0, udp=0, lat=1, auto=0, seed=None, inc=1, exc=0, ns=0, poll0=None, line=b'STARTED\n',
                        hpoll=None, wait=0, end='kbint', hs=[], steps=[], ssh_cmd=cmd, standin=dict(mode=mode, busy=busy)))
    return out


def oracle_realssh(s, ev, outcome, w, watchdog_s=None):
    bad = []
    wd = watchdog_s or REALSSH_WATCHDOG_S
    st = s['standin']
    what = 'stand-in ssh (%s, %s tunnel) exit status %r' % (st['mode'], 'busy' if st['busy'] else 'idle', w.child_status)
    if 'ready' not in ev and not w.stuck and outcome != 'exc=fatal':
        bad.append(('C12:real-ssh:session-did-not-start', 'the session reaches READY against the stand-in ssh',
                    '%s; outcome %s; trace: %s' % (what, outcome, ' '.join(ev[-30:]))))
    if w.stuck or outcome != 'exc=fatal' or 'close' not in ev:
        bad.append(('C12:real-ssh:death-not-noticed',
                    'after the real ssh child has exited the client ends with Fatal within %.0f s and closes the helper channel'
                    % wd,
                    '%s; client %s, outcome %s, pfile %s; tail of trace: %s'
                    % (what, ('aborted by the watchdog (%s)' % w.stuck[0]) if w.stuck else 'ended', outcome,
                       'closed' if ('close' in ev and not w.stuck) else 'open at that time', ' '.join(ev[-14:]))))
    return bad


def realssh_stream(ctx):
    """The ssh-side sibling of the real-helper stream: the REAL ssh.connect() starts a real child that
    speaks the sync string and a ROUTES frame, stays idle or busy, then exits 0 / 255 / is SIGKILLed; real
    select, real descriptors.  The client must notice and close the helper channel."""
    ssnet = _mods()[0]
    fds0 = nfds()
    for s in realssh_cases(ssnet, ctx.seed, ctx.thorough):
        ev, outcome, w = run_real(s, {}, realssh=True)
        ctx.count()
        ctx.hist('real-ssh')
        ctx.hist('real-ssh:%s:%s' % (s['standin']['mode'], 'busy' if s['standin']['busy'] else 'idle'))
        ctx.mark(('realssh', repr(s['standin'])), nontrivial=True)
        bad = oracle_realssh(s, ev, outcome, w)
        retried = False
        if bad:
            # a real child and a real select under a wall-clock bound: a loaded machine must not turn into a
            # false alarm — the case is run once more with the watchdog doubled and reported only if it fails again
            retried = True
            ctx.hist('real-ssh:retried')
            first = '; '.join(b[0] for b in bad)
            ev, outcome, w = run_real(s, {}, realssh=True, level=w.level, watchdog_s=2 * REALSSH_WATCHDOG_S)
            ctx.count()
            bad = oracle_realssh(s, ev, outcome, w, watchdog_s=2 * REALSSH_WATCHDOG_S)
            ctx.notes.append('real-ssh case %r: first run reported %s; retry with a %.0f s watchdog %s'
                             % (s['standin'], first, 2 * REALSSH_WATCHDOG_S, 'failed again' if bad else 'passed'))
        for key, exp, obs in bad:
            ctx.violation(key, case=dict(realssh=True, script=ser_script(s), faults={}, level=w.level, retried=retried,
                                         watchdog_s=2 * REALSSH_WATCHDOG_S),
                          expected=exp, observed=obs + ' (second run, watchdog doubled)', kind='history')
        if bad:
            break      # one confirmed case is enough; every further one would cost two more watchdog periods
        ctx.sample(dict(stream='real ssh.connect + real child', standin=s['standin'],
                        real_code_trace=' '.join(ev[-16:]) + ' ' + outcome), limit=12)
    gc.collect()
    if nfds() > fds0 + 1:
        ctx.notes.append('real-ssh stream: descriptors %d -> %d' % (fds0, nfds()))


def nfds():
    return len(os.listdir('/proc/self/fd'))


def realfw_stream(ctx):
    """Real FirewallClient over a real socketpair: the helper must read EOF however the session ends."""
    ssnet = _mods()[0]
    fds0, thr0 = nfds(), threading.active_count()
    nbad = 0
    for s in realfw_scripts(ssnet):
        ev, outcome, w = run_real(s, {}, realfw=True)
        todo = [{}]
        ncalls = w.calls
        kinds = KINDS if ctx.thorough else ['fatal', 'kbint', 'other', 'os5']
        todo += [{k: kind} for k in range(ncalls) for kind in kinds]
        for f in todo:
            if nbad >= 3:
                break
            ev, outcome, w = run_real(s, f, realfw=True)
            ctx.count()
            ctx.hist('real-fd')
            ctx.mark(('realfw', ser_script(s), sorted(f.items())), nontrivial=(0 not in f))
            for key, exp, obs in oracle_realfw(s, f, ev, outcome, w):
                nbad += 1
                ctx.violation(key, case=dict(realfw=True, script=ser_script(s), faults={str(k): v for k, v in f.items()},
                                             level=w.level),
                              expected=exp, observed=obs, kind='faults')
        ctx.sample(dict(stream='real FirewallClient over a socketpair', script=ser_script(s), real_code_trace=' '.join(ev) + ' ' + outcome), limit=8)
    gc.collect()
    if nfds() != fds0 or threading.active_count() != thr0:
        ctx.notes.append('real-fd stream left descriptors/threads behind: fds %d -> %d, threads %d -> %d'
                         % (fds0, nfds(), thr0, threading.active_count()))


def run(ctx):
    _rot['seed'], _rot['n'] = ctx.seed, 0
    env_probe(ctx)
    realfw_stream(ctx)
    timed_stream(ctx)
    helper_stream(ctx)
    realssh_stream(ctx)
    cases = gen_cases(ctx)
    for c in cases:
        ctx.mark(c.line, nontrivial=(0 not in c.faults))
    for c in cases[:3] + [c for c in cases if len(c.faults) == 1][40:42] + [c for c in cases if len(c.faults) > 1][:1]:
        ctx.sample(dict(input=c.line[:400], real_code_trace=c.out[:600]))
    if ctx.dist.get('tunnel-eof-loop-continues'):
        ctx.notes.append('observation outside the statement of C12 (not a violation): in %d runs the tunnel reached EOF '
                         'after the helper was started while ssh was still reported alive, and runonce was entered '
                         'again (client._main never tests mux.ok); Lean witness C12_tunnel_eof_loop_continues'
                         % ctx.dist['tunnel-eof-loop-continues'])
    compare(ctx, cases)


def replay(ctx, rep):
    case = rep['case']
    if case.get('helper_end'):
        log = run_helper(case)
        bad = oracle_helper(case, log)
        return bool(bad), 'history: %s; oracle: %s' % (' '.join(log), '; '.join(b[0] for b in bad) or 'silent')
    if case.get('probe'):
        c2 = common.Ctx('C12', 'quick', 0)
        env_probe(c2)
        return bool(c2.violations), 'environment probe: %r' % (c2.violations[:1] or 'as assumed')
    s = deser_script(case['script'])
    faults = {int(k): v for k, v in case['faults'].items()}
    level = case.get('level', 0)
    if case.get('realssh'):
        wd = case.get('watchdog_s')
        ev, outcome, w = run_real(s, {}, realssh=True, level=level, watchdog_s=wd)
        bad = oracle_realssh(s, ev, outcome, w, watchdog_s=wd)
        return bool(bad), 'trace: %s %s; oracle: %s' % (' '.join(ev[-20:]), outcome,
                                                        '; '.join('%s (%s)' % (b[0], b[2][:200]) for b in bad) or 'silent')
    if case.get('realfw'):
        ev, outcome, w = run_real(s, faults, realfw=True, level=level)
        bad = oracle_realfw(s, faults, ev, outcome, w)
        return bool(bad), 'trace: %s %s; oracle: %s' % (' '.join(w.verdict_events), outcome,
                                                        '; '.join('%s (%s)' % (b[0], b[2][:200]) for b in bad) or 'silent')
    ev, outcome, w = run_real(s, faults, level=level)
    bad = oracle(s, faults, ev, outcome, w)
    key = rep.get('key')
    same = [b for b in bad if key is None or b[0] == key or key == 'C12:spec-monitor']
    return bool(same), 'trace: %s%s %s; oracle: %s' % (' '.join(ev[:80]), ' ...' if len(ev) > 80 else '', outcome, '; '.join('%s (%s)' % (b[0], b[2][:160]) for b in bad) or 'silent')
