"""C19 — remote host names cannot corrupt the hosts file nor get lost in transit.

The whole path is driven with the real code, stage by stage, each stage's real output being the
next stage's input:
  scanner   real hostwatch.found_host / read_host_cache / _check_etc_hosts (module globals reset per
            case, `open` of the two input files replaced, sys.stdout captured);
  server    the real `hostwatch_ready` closure taken out of `server.main` (run with stubs up to its
            main loop) on a fake socket returning scripted chunk sizes, writing to a real Mux;
  client    a real Mux taken out of `client._main` with the real `onhostlist` closure and a real
            FirewallClient.sethostip writing to a recording file;
  helper    the real `firewall.main` loop and the real `rewrite_etc_hosts` on a scratch hosts file.
Each stage is compared with `Code/HostPipeline.lean`; the oracle is evaluated on the real code only.
"""
import inspect
import io
import os
import re
import shutil
import struct
import sys
import tempfile

import common
from common import hexb

RULE = ("cases = (a) pipelines: scanner inputs (direct found_host calls, cache-file text, remote hosts-file bytes) "
        "and whole hw_main sessions with a fake resolver that fails like the real one; record histories per name; "
        "with names containing separators, newlines, '#', spaces, commas, NUL, non-ASCII letters and digits, "
        "dots in every position, lengths {1,63,106,107,253,254,5000,70000}, addresses likewise; the emitted "
        "stream cut into reads of {1, 2, 1..5 (a record spans three and more reads), line length +-1, 4096, random}; "
        "a scratch hosts file with foreign lines, among them the marked lines of other sshuttle instances whose "
        "ports are digit-prefixes / -suffixes / -infixes of this session's port (and vice versa); "
        "(b) arbitrary host-list payloads handed to the client; (c) arbitrary scanner streams handed to the "
        "server under arbitrary chunkings (including over-long lines); (d) the pre-existing hosts file in every "
        "encoding (ASCII, UTF-8, Latin-1 bytes, stray continuation bytes, NUL, UTF-16) x the helper's locale (UTF-8, "
        "C/ASCII), compared byte for byte; (e) scale: thousands of long records (hundreds of KiB) pending at once on "
        "the hostwatch socket, recv honouring the size asked for; (f) time: between the scanner reads of a case a "
        "virtual clock (every reference the relay's module holds to the time module) moves by 0 / 0.2 s / 5 s / 20 s / "
        "15 min / a backward step, read after read. Every case runs at a verbosity level from the rotation [0,0,3,0,2,0,13,1] shifted by the seed "
        "(13 = level 3 with a failing stderr), set around every call into the real code; the level is part of the replay. "
        "Non-trivial = at least one record was "
        "emitted / skipped / delivered; distinct = distinct canonical input")
MANIFEST = dict(
    level_text=("Machine-checked Lean 4 theorems over a statement-by-statement model of hostwatch.found_host, the "
                "server's hostwatch_ready reassembly, the client's onhostlist/sethostip and the helper's HOST loop "
                "and hosts-line format: for every scanner input everything emitted is a representable record "
                "(C19_scanner_emits_valid), for every chunking of the scanner's stream the payloads carry exactly "
                "its complete lines (C19_reassembly, C19_reassembly_no_stop) and, end to end (C19_chain: for every sequence "
                "of found_host calls with arbitrary names and address texts and every cutting of the scanner's output "
                "into reads of 1..4096 bytes, HOST_LIST frames crossing the tunnel intact by C07), the updates the helper "
                "finally acts on are exactly the records the scanner emitted, each once, in order, verbatim, all "
                "representable; for every byte string as payload (C19_never_fatal, total) and for every payload a server could send the client raises nothing and writes "
                "only well-formed HOST lines (C19_client_never_fatal) whose hosts-file lines have the shape "
                "address, name, padding, marker (C19_line_shape). The model is tied to the code on every run by a "
                "stage-by-stage differential run of the real functions plus an end-to-end oracle on a scratch file."),
    level_note=("Trusted: Lean kernel; axioms propext/Classical.choice/Quot.sound only; the correspondence harness; "
                "the Mux transport between server and client (C07); the file-system effects of rewrite_etc_hosts "
                "beyond the marked lines (C14); DNS/reverse-DNS libraries and netstat output (scanner inputs are "
                "arbitrary strings). Holds for the repaired code (fix commits 6af5614, 69bf1f6, 80ba208)."),
    technique="Lean 4 proof (induction over chunks with the leftover invariant) + staged differential correspondence",
)
DRIVER_TARGETS = ['SshuttleModel.Code.HostPipeline']
ASSUMPTIONS = [
    "the scanner's stdout is a reliable byte stream to the server; recv returns 1..4096 bytes per read",
    "HOST_LIST frames cross the tunnel intact and in order (C07)",
    "the helper's stdin is a reliable byte stream (C13)",
    "the remote hosts file and cache file are decoded as UTF-8 (the harness' locale)",
]

NAME_RE = re.compile(r'[-A-Za-z0-9_.]+\Z', re.ASCII)
QUAD_RE = re.compile(r'[0-9]{1,3}\.[0-9]{1,3}\.[0-9]{1,3}\.[0-9]{1,3}\Z', re.ASCII)


class _Stop(Exception):
    pass


ROTATION = [0, 0, 3, 0, 2, 0, 13, 1]     # verbosity per case; 13 = level 3 with a stderr whose write() fails
LEVEL = [0]
CASE_NO = [0]


def next_level(ctx, fixed=None):
    """Verbosity is a dimension of every case: the level comes from ROTATION, shifted by the seed (so over
    eight seeds every directed case has run at every level); it is stored in the replay case.  The oracle
    does not know the level: what arrives must not depend on it."""
    if fixed is None:
        fixed = ROTATION[(CASE_NO[0] + ctx.seed) % len(ROTATION)]
        CASE_NO[0] += 1
    LEVEL[0] = fixed
    ctx.hist('verbosity:%d' % fixed)
    return fixed


TIME_STEPS = [0, 0.2, 5, 20, 900, -30]    # seconds the virtual clock moves between two scanner reads


def next_clock(ctx, fixed=None):
    """Time is a dimension of the server relay: between the reads of a case a virtual clock advances by
    TIME_STEPS, read after read, starting at an offset that rotates with the case number and the seed."""
    if fixed is None:
        fixed = (CASE_NO[0] + ctx.seed) % len(TIME_STEPS)
    ctx.hist('clock-offset:%d' % fixed)
    return fixed


class virtual_time:
    """`with virtual_time(fn, now):` — every reference the function's module holds to the `time` module
    (whatever it is called there) or to time.time / time.monotonic is replaced by a clock reading `now`."""

    def __init__(self, fn, now):
        self.g = fn.__globals__
        self.now = now

    def __enter__(self):
        import time as real
        clk = lambda: self.now  # noqa
        self.saved = {}
        for k, v in list(self.g.items()):
            if v is real:
                self.saved[k] = v
                self.g[k] = _Proxy(real, time=clk, monotonic=clk, perf_counter=clk,
                                   time_ns=lambda: int(self.now * 1e9), monotonic_ns=lambda: int(self.now * 1e9))
            elif v in (real.time, real.monotonic, real.perf_counter):
                self.saved[k] = v
                self.g[k] = clk

    def __exit__(self, *a):
        self.g.update(self.saved)
        return False


class EioStderr:
    def write(self, s):
        raise OSError(5, 'Input/output error')

    def flush(self):
        pass


def v_stderr():
    return EioStderr() if LEVEL[0] == 13 else io.StringIO()


class at_level:
    """`with at_level():` — sshuttle.helpers.verbose and sys.stderr set for the current case around a call
    into the real code (scanner, server relay, client onhostlist, FirewallClient, helper), restored afterwards."""

    def __enter__(self):
        import sshuttle.helpers as helpers
        self.saved = (helpers, helpers.verbose, sys.stderr)
        helpers.verbose = LEVEL[0] % 10
        sys.stderr = v_stderr()

    def __exit__(self, *a):
        helpers, helpers.verbose, sys.stderr = self.saved[0], self.saved[1], self.saved[2]
        return False


class _Proxy:
    """A module with a few names replaced."""

    def __init__(self, real, **over):
        self.__dict__['_real'] = real
        self.__dict__.update(over)

    def __getattr__(self, n):
        return getattr(self._real, n)


def cps(s):
    return '_'.join(str(ord(ch)) for ch in s) if s else 'e'


# ------------------------------------------------------------------ stage 1: scanner

class Scanner:
    def __init__(self, encoding, tmpdir):
        import sshuttle.hostwatch as hostwatch
        import sshuttle.helpers as helpers
        self.hw = hostwatch
        self.helpers = helpers
        self.files = {}
        self.raw = io.BytesIO()
        self.out = io.TextIOWrapper(self.raw, encoding=encoding, newline='\n', write_through=True)
        self.calls = []        # (name, ip, bytes emitted) of every top-level found_host call
        self.error = None
        self.depth = 0
        self.cachefile = os.path.join(tmpdir, 'cache.hosts')
        self.saved = (hostwatch.found_host, hostwatch.CACHEFILE, hostwatch.hostnames, hostwatch.queue,
                      hostwatch.SHOULD_WRITE_CACHE, hostwatch.CACHE_WRITE_FAILED, sys.stdout, sys.stderr,
                      helpers.verbose)
        orig = hostwatch.found_host
        sc = self

        def wrapper(name, ip):
            top = sc.depth == 0
            pos = sc.raw.tell()
            sc.depth += 1
            try:
                return orig(name, ip)
            finally:
                sc.depth -= 1
                if top:
                    with sc.raw.getbuffer() as view:
                        sc.calls.append((name, ip, bytes(view[pos:])))

        def fake_open(path, *a, **kw):
            if path in sc.files:
                data = sc.files[path]
                if data is None:
                    raise FileNotFoundError(2, 'No such file', path)
                return io.TextIOWrapper(io.BytesIO(data), encoding='utf-8', errors=kw.get('errors', 'strict'))
            return open(path, *a, **kw)

        hostwatch.found_host = wrapper
        hostwatch.open = fake_open
        hostwatch.CACHEFILE = self.cachefile
        hostwatch.hostnames = {}
        hostwatch.queue = {}
        hostwatch.SHOULD_WRITE_CACHE = False
        hostwatch.CACHE_WRITE_FAILED = False
        helpers.verbose = LEVEL[0] % 10
        sys.stdout = self.out
        sys.stderr = v_stderr()

    def close(self):
        hw = self.hw
        (hw.found_host, hw.CACHEFILE, hw.hostnames, hw.queue, hw.SHOULD_WRITE_CACHE, hw.CACHE_WRITE_FAILED,
         sys.stdout, sys.stderr, self.helpers.verbose) = self.saved
        try:
            del hw.open
        except AttributeError:
            pass

    def run(self, ops):
        """ops: ('found', name, ip) | ('cache', bytes) | ('etc', bytes)"""
        hw = self.hw
        try:
            for op in ops:
                if op[0] == 'found':
                    hw.found_host(op[1], op[2])
                elif op[0] == 'cache':
                    self.files[self.cachefile] = op[1]
                    hw.read_host_cache()
                elif op[0] == 'etc':
                    self.files['/etc/hosts'] = op[1]
                    hw._check_etc_hosts()
                elif op[0] == 'hwmain':
                    self.run_hw_main(op[1])
        except Exception as e:  # noqa
            self.error = type(e).__name__
            if isinstance(e, TypeError) and 'without null' in str(e):
                self.error = 'TypeError:embedded-null'
        return self.raw.getvalue()

    def run_hw_main(self, spec):
        """The real hw_main loop (seed hosts, cache, /etc/hosts, netstat, DNS and reverse DNS jobs, several
        passes over the queue) with the resolver, netstat and the stdin test replaced at the OS boundary.
        The fake resolver fails like the real one: names are IDNA-encoded first (UnicodeError for an empty
        or over-long label), a NUL is a TypeError, unknown names are gaierror/herror."""
        import socket as real_socket
        hw = self.hw
        fwd, rev = spec['fwd'], spec['rev']

        def check_arg(fn, x):
            """The argument conversion of the real socket.gethostbyname / gethostbyaddr.  When the text
            cannot be converted (NUL, a label that IDNA rejects: empty, longer than 63, ...), the REAL function
            is called: it raises during the conversion, before any lookup, so what the code under test sees is
            exactly CPython's exception (UnicodeError, TypeError, ValueError ...), not an imitation."""
            convertible = '\0' not in x
            if convertible:
                try:
                    x.encode('idna')
                except UnicodeError:
                    convertible = False
            if not convertible:
                try:
                    getattr(real_socket, fn)(x)
                except OSError:
                    pass        # the real conversion accepted it after all: an ordinary failed lookup
                else:
                    return
                raise real_socket.gaierror(-2, 'Name or service not known')

        def gethostbyname(name):
            check_arg('gethostbyname', name)
            if name in fwd:
                return fwd[name]
            if re.match(r'[0-9]{1,3}(\.[0-9]{1,3}){3}\Z', name, re.ASCII):
                return name
            raise real_socket.gaierror(-2, 'Name or service not known')

        def gethostbyaddr(ip):
            check_arg('gethostbyaddr', ip)
            if ip in rev:
                return (rev[ip], [], [ip])
            raise real_socket.herror(1, 'Unknown host')

        class P:
            def __init__(self, *a, **k):
                self.stdout = io.BytesIO(spec['netstat'].encode('ascii'))

            def wait(self):
                return 0

        passes = [0]

        def still_ok(timeout):
            if timeout == 1:
                passes[0] += 1
                return passes[0] < spec.get('passes', 4)
            return True

        saved = (hw.socket, hw.ssubprocess, hw._stdin_still_ok, self.helpers.logprefix)
        hw.socket = _Proxy(saved[0], gethostbyname=gethostbyname, gethostbyaddr=gethostbyaddr,
                           gethostname=lambda: 'remotebox')
        hw.ssubprocess = _Proxy(saved[1], Popen=P)
        hw._stdin_still_ok = still_ok
        self.files['/etc/hosts'] = spec['etc'].encode('utf-8', 'surrogatepass')
        cache = spec.get('cache')
        self.files[self.cachefile] = None if cache is None else cache.encode('utf-8', 'surrogatepass')
        try:
            hw.hw_main(list(spec['seeds']), True)
        finally:
            (hw.socket, hw.ssubprocess, hw._stdin_still_ok, self.helpers.logprefix) = saved


# ------------------------------------------------------------------ stage 2: server hostwatch_ready

class FakeFile:
    def __init__(self):
        self.written = b''
        self.next = b''

    def fileno(self):
        return 1002

    def write(self, b):
        self.written += bytes(b)
        return len(b)

    def read(self, n):
        d, self.next = self.next[:n], self.next[n:]
        return d

    def flush(self):
        pass


class FakeSock:
    def __init__(self):
        self.next = b''

    def fileno(self):
        return 1003

    def recv(self, n):
        """Like a socket: at most the `n` bytes asked for of what is pending."""
        d, self.next = self.next[:n], self.next[n:]
        self.last = d
        return d


class Server:
    """Runs the real server.main up to its main loop and keeps the real hostwatch_ready closure."""

    def __init__(self, clock=0):
        self.clock_offset = clock
        self.now = 1700000000.0
        self.reads = 0
        import sshuttle.server as server
        import sshuttle.ssnet as ssnet
        import sshuttle.helpers as helpers
        ssnet.set_non_blocking_io = lambda fd: None
        self.sock = FakeSock()
        self.wfile = FakeFile()
        got = {}
        srv = self

        class FakeIO:
            @staticmethod
            def FileIO(fd, mode='r'):
                return FakeFile() if mode == 'r' else srv.wfile

        def runonce(handlers, mux):
            mux.got_host_req(b'seed')
            got['cb'] = handlers[-1].callback
            got['mux'] = mux
            raise _Stop()

        saved = (server.io, server.start_hostwatch, ssnet.runonce, sys.stdout, sys.stderr, helpers.verbose,
                 helpers.logprefix)
        server.io = FakeIO
        server.start_hostwatch = lambda seeds, auto: (4242, srv.sock)
        ssnet.runonce = runonce
        sys.stdout = io.StringIO()
        sys.stderr = v_stderr()
        helpers.verbose = LEVEL[0] % 10
        try:
            try:
                server.main(False, 32768, True, None, False)
            except _Stop:
                pass
        finally:
            (server.io, server.start_hostwatch, ssnet.runonce, sys.stdout, sys.stderr, helpers.verbose,
             helpers.logprefix) = saved
        self.ready = got['cb']
        self.mux = got['mux']
        self.hw = inspect.getclosurevars(self.ready).nonlocals['hw']
        # drop what main queued before (the ROUTES frame and the initial ping)
        self.mux.outbuf[:] = []

    def read(self, chunk):
        """One hostwatch_ready call. Returns (tag, leftover, payload, wire bytes)."""
        if chunk is not None:
            self.sock.next = chunk
        w0 = len(self.wfile.written)
        self.now += TIME_STEPS[(self.clock_offset + self.reads) % len(TIME_STEPS)]
        self.reads += 1
        try:
            with at_level(), virtual_time(self.ready, self.now):
                self.ready(self.sock)
        except AssertionError:
            return 'assertLen', None, None, b''
        except Exception as e:  # noqa
            if type(e).__name__ == 'Fatal':
                return 'fatalDied', None, None, b''
            return 'other:' + type(e).__name__, None, None, b''
        guard = 0
        with at_level():
            while self.mux.outbuf and guard < 100:
                self.mux.flush()
                guard += 1
        wire = self.wfile.written[w0:]
        payload = None      # None: this read queued no HOST_LIST frame at all
        if len(wire) >= 8:
            _s1, _s2, chan, cmd, ln = struct.unpack('!ccHHH', wire[:8])
            payload = wire[8:8 + ln]
        return 'sent', self.hw.leftover, payload, wire


# ------------------------------------------------------------------ stage 3: client

class RecFile(io.BufferedIOBase):
    """pfile of the FirewallClient: a real buffered-file object (writelines() etc. exist) recording writes."""

    def __init__(self):
        self.written = b''

    def writable(self):
        return True

    def readable(self):
        return True

    def close(self):
        pass

    def write(self, b):
        self.written += bytes(b)
        return len(b)

    def flush(self):
        pass

    def readline(self, size=-1):
        return b'STARTED\n'


class Client:
    """Runs the real client._main up to its main loop; keeps its real Mux (with the real onhostlist)."""

    def __init__(self):
        import sshuttle.client as client
        import sshuttle.ssnet as ssnet
        import sshuttle.helpers as helpers
        from sshuttle import ssh
        ssnet.set_non_blocking_io = lambda fd: None
        self.rfile = FakeFile()
        self.rfile.next = b'\0\0SSHUTTLE0001'
        fw = client.FirewallClient.__new__(client.FirewallClient)
        fw.auto_nets = []
        fw.pfile = RecFile()
        fw.method = None
        self.fw = fw
        got = {}

        class Proc:
            pid = 4243

            def poll(self):
                return None

        class Listener:
            v4 = object()
            v6 = None

            def add_handler(self, *a, **k):
                pass

        def runonce(handlers, mux):
            got['mux'] = mux
            raise _Stop()

        saved = (ssh.connect, ssnet.runonce, sys.stdout, sys.stderr, helpers.verbose, helpers.logprefix)
        ssh.connect = lambda *a, **k: (Proc(), self.rfile, FakeFile())
        ssnet.runonce = runonce
        sys.stdout = io.StringIO()
        sys.stderr = v_stderr()
        helpers.verbose = LEVEL[0] % 10
        try:
            try:
                client._main(Listener(), None, fw, None, 'host', None, False, 32768,
                             None, None, True, False, False, None, False, None)
            except _Stop:
                pass
        finally:
            (ssh.connect, ssnet.runonce, sys.stdout, sys.stderr, helpers.verbose, helpers.logprefix) = saved
        self.mux = got['mux']

    def deliver(self, wire):
        """Feed tunnel bytes to the real client Mux. Returns (tag, HOST bytes written)."""
        w0 = len(self.fw.pfile.written)
        self.rfile.next = wire
        import sshuttle.helpers as helpers
        old = (sys.stderr, helpers.verbose)
        sys.stderr = v_stderr()
        helpers.verbose = LEVEL[0] % 10
        try:
            try:
                while self.rfile.next:
                    self.mux.handle()
            except AssertionError:
                return 'assert', self.fw.pfile.written[w0:]
            except ValueError:
                return 'valueError', self.fw.pfile.written[w0:]
            except Exception as e:  # noqa
                return 'other:' + type(e).__name__, self.fw.pfile.written[w0:]
        finally:
            sys.stderr, helpers.verbose = old
        return 'ok', self.fw.pfile.written[w0:]


def frame(payload, cmd=0x4209):
    return struct.pack('!ccHHH', b'S', b'S', 0, cmd, len(payload)) + payload


# ------------------------------------------------------------------ stage 4: helper + hosts file

PLAN = b'ROUTES\n2,24,0,1.2.3.0,0,0\nNSLIST\nPORTS %d,%d,0,0\nGO 0 - - 0x01 1\n'


def as_bytes(content):
    return content if isinstance(content, bytes) else content.encode('utf-8')


def run_helper(host_bytes, p6, p4, hosts_content, tmpdir, locale_enc='utf-8'):
    """Real firewall.main + real rewrite_etc_hosts on a scratch file whose bytes are `hosts_content`, with the
    helper's locale encoding `locale_enc` (what open() without an encoding argument picks).  Returns
    (end tag, snapshots after every successful rewrite, final bytes, bytes after every failed rewrite)."""
    import sshuttle.firewall as firewall
    import sshuttle.helpers as helpers
    from sshuttle.methods import BaseMethod
    path = os.path.join(tmpdir, 'hosts')
    for fn in os.listdir(tmpdir):
        if fn.startswith('hosts'):
            os.unlink(os.path.join(tmpdir, fn))
    with open(path, 'wb') as f:
        f.write(as_bytes(hosts_content))
    snaps = []
    failed = []
    orig = firewall.rewrite_etc_hosts

    def locale_open(file, mode='r', buffering=-1, encoding=None, *a, **kw):
        if 'b' not in mode and encoding is None:
            encoding = locale_enc
        return open(file, mode, buffering, encoding, *a, **kw)

    def wrapped(hostmap, port):
        try:
            orig(hostmap, port)
        except Exception:
            with open(path, 'rb') as f:
                failed.append(f.read())
            raise
        with open(path, 'rb') as f:
            snaps.append((dict(hostmap), port, f.read()))

    class Out:
        def write(self, b):
            pass

        def flush(self):
            pass

    class Method(BaseMethod):
        def is_supported(self):
            return True

        def setup_firewall(self, *a):
            pass

        def restore_firewall(self, *a):
            pass

    saved = (firewall.setup_daemon, firewall.get_method, firewall.rewrite_etc_hosts, firewall.HOSTSFILE,
             firewall.flush_systemd_dns_cache, firewall.sshuttle_pid, helpers.logprefix, sys.stderr, helpers.verbose)
    firewall.setup_daemon = lambda: (io.BytesIO(PLAN % (p6, p4) + host_bytes), Out())
    firewall.get_method = lambda name: Method('rec')
    firewall.rewrite_etc_hosts = wrapped
    firewall.open = locale_open
    firewall.HOSTSFILE = path
    firewall.flush_systemd_dns_cache = lambda: None
    helpers.verbose = LEVEL[0] % 10
    sys.stderr = v_stderr()
    end = 'eof'
    try:
        try:
            firewall.main('rec', False)
        except UnicodeDecodeError:
            end = 'unicodeError'
        except ValueError:
            end = 'valueError'
        except helpers.Fatal:
            end = 'fatal'
        except Exception as e:  # noqa
            end = 'other:' + type(e).__name__
    finally:
        (firewall.setup_daemon, firewall.get_method, firewall.rewrite_etc_hosts, firewall.HOSTSFILE,
         firewall.flush_systemd_dns_cache, firewall.sshuttle_pid, helpers.logprefix, sys.stderr, helpers.verbose) = saved
        try:
            del firewall.open
        except AttributeError:
            pass
    with open(path, 'rb') as f:
        final = f.read()
    run_helper.failed = failed
    return end, snaps, final


def marked_block(content, port):
    mark = b'# sshuttle-firewall-%d AUTOCREATED' % port
    return b''.join(l + b'\n' for l in content.split(b'\n') if mark in l)


def decodable(content, enc):
    try:
        as_bytes(content).decode(enc)
        return True
    except UnicodeDecodeError:
        return False


# ------------------------------------------------------------------ oracle pieces (the property, no model)

def complete_records(stream):
    """(name, ip) of every complete line of the scanner's stream."""
    out = []
    for line in stream.split(b'\n')[:-1]:
        n, _s, i = line.partition(b',')
        out.append((n, i))
    return out


def line_shape_ok(line, port):
    m = re.match(r'([0-9.]+) ([^ ]+) *# sshuttle-firewall-%d AUTOCREATED\Z' % port, line)
    return bool(m and QUAD_RE.match(m.group(1)) and NAME_RE.match(m.group(2)))


def check_hosts_file(ctx, case, original, snaps, final, port, failed=()):
    """Byte level: every line that is not this instance's is untouched after every rewrite (successful or
    not) and after the restore, whatever the encoding of the file and the locale of the helper."""
    original = as_bytes(original)
    orig_lines = original.rstrip().split(b'\n')
    mark = b'# sshuttle-firewall-%d AUTOCREATED' % port      # this instance's lines, and only these
    kept = [l for l in orig_lines if mark not in l]

    def show(ls):
        return [l.decode('latin-1') for l in ls]
    state = original
    for content in failed:
        if content != original and [l for l in content.rstrip(b'\n').split(b'\n') if mark not in l] != kept:
            ctx.violation('C19:hosts-file:foreign-line-changed', case=case, expected=show(kept),
                          observed=show(content.split(b'\n')), note='a rewrite that raised had already changed the file')
            return
    for hostmap, p, content in snaps:
        state = content
        lines = content.rstrip(b'\n').split(b'\n')
        others = [l for l in lines if mark not in l]
        added = [l for l in lines if mark in l]
        if others != kept:
            ctx.violation('C19:hosts-file:foreign-line-changed', case=case, expected=show(kept), observed=show(others))
            return
        for l in added:
            if not line_shape_ok(l.decode('latin-1'), port):
                ctx.violation('C19:hosts-file:malformed-line-added', case=case,
                              expected='address(dotted quad) name([-A-Za-z0-9_.]+) marker', observed=l.decode('latin-1'),
                              note='a line added to the hosts file does not have the required shape')
                return
    if snaps:
        if final.rstrip(b'\n').split(b'\n') != kept:
            ctx.violation('C19:hosts-file:not-restored', case=case, expected=show(kept), observed=show(final.split(b'\n')))
    elif final != original:
        ctx.violation('C19:hosts-file:foreign-line-changed', case=case, expected=show(orig_lines),
                      observed=show(final.split(b'\n')), note='no update succeeded, yet the file is not byte-identical')


# ------------------------------------------------------------------ generators

WEIRD = ['/', ':', ',', ' ', '#', '\n', '\0', '\t', 'ü', 'é', '日', '٤', ' ', '\r', '_', '-', '.', '..', '%', '\\', "'"]
GOODCH = 'abcdefghijklmnopqrstuvwxyzABCDEFGHIJKLMNOPQRSTUVWXYZ0123456789-_'


def rand_label(rng, n):
    return ''.join(rng.choice(GOODCH) for _ in range(n))


def rand_name(rng, big_ok=True):
    r = rng.random()
    if r < 0.35:
        return '.'.join(rand_label(rng, rng.choice([1, 3, 8])) for _ in range(rng.choice([1, 2, 3, 4])))
    if r < 0.45:
        return rng.choice(['localhost', 'localhost.localdomain', 'web/srv.example', 'bücher', 'a,b', 'bücher.example',
                           '.leading', 'trailing.', 'a..b', '.', '', '-', '_', 'x y', 'a#b', 'a\nb', 'a.b\nc.d',
                           'LOCALHOST', 'ünï.cödé', '٤٤.example', 'a\0b', 'host:80', 'a.b,c'])
    if r < 0.6:
        n = rng.choice([1, 63, 100, 106, 107, 114, 115, 252, 253, 254, 300])
        return rand_label(rng, n)
    if r < 0.62 and big_ok:
        return rand_label(rng, rng.choice([2000, 5000]))      # 70000 is in the fixed corpus (driver time)
    if r < 0.72:
        n = rng.choice([240, 248, 253])
        return rand_label(rng, 5) + '.' + rand_label(rng, n)
    base = list(rand_label(rng, rng.randrange(1, 12)) + rng.choice(['', '.example', '.a.b']))
    for _ in range(rng.choice([1, 1, 2])):
        base.insert(rng.randrange(len(base) + 1), rng.choice(WEIRD))
    return ''.join(base)


def rand_ip(rng):
    r = rng.random()
    if r < 0.6:
        return '%d.%d.%d.%d' % (rng.choice([1, 10, 192, 126, 128, 254]), rng.randrange(256), rng.randrange(256), rng.randrange(256))
    return rng.choice(['127.0.0.1', '255.1.1.1', '1.2.3', '1.2.3.4.5', '1.2.3.٤', '999.999.999.999', '1234.1.1.1', '',
                       '1.2.3.4\n', '1', '...', '1..2.3', ' 1.2.3.4', '1.2.3.4 ', '::1', '0.0.0.0', '12.7.0.1', '1.2.3.4,5',
                       '１.２.３.４', '1.2.3.'])


def rand_scanner_ops(rng):
    ops = []
    for _ in range(rng.choice([1, 2, 3, 6])):
        k = rng.random()
        if k < 0.55:
            name, ip = rand_name(rng), rand_ip(rng)
            ops.append(('found', name, ip))
            if rng.random() < 0.2:
                ops.append(('found', name, rng.choice([ip, rand_ip(rng)])))
        elif k < 0.8:
            lines = []
            for _ in range(rng.choice([1, 3, 5])):
                names = ' '.join(rand_name(rng, False) for _ in range(rng.choice([1, 2, 3])))
                lines.append(rng.choice(['%s %s', '%s\t%s', ' %s  %s # c', '%s %s#x', '#%s %s']) % (rand_ip(rng), names))
            data = ('\n'.join(lines) + rng.choice(['\n', ''])).encode('utf-8', 'surrogatepass')
            if rng.random() < 0.15:
                data += rng.choice([b'1.2.3.4 bad\xffname\n', b'\xc3\n', b'9.9.9.9 caf\xe9\n'])
            ops.append(('etc', data))
        else:
            lines = []
            for _ in range(rng.choice([1, 3])):
                lines.append(rng.choice(['%s,%s', '%s,%s', ' %s , %s ', '%s,%s,x', '%s;%s']) % (rand_name(rng, False), rand_ip(rng)))
            data = ('\n'.join(lines) + '\n').encode('utf-8', 'surrogatepass')
            if rng.random() < 0.15:
                data += b'bad\xff,1.2.3.4\n'
            ops.append(('cache', data))
    return ops


ODD_NAMES = ['db..internal', '.lead', 'l' * 64 + '.example', 'x' * 300, 'trail.', 'a..b.c', 'b\u00fccher.example',
             'ok-name', 'UPPER.Example', 'under_score.example', 'a' * 63 + '.example', 'host:80', 'a#b']


# tokens that check_host() takes for an ADDRESS (\d+\.\d+\.\d+\.\d+ with str digits) but that the resolver's
# argument conversion rejects or that are no address at all: over-long labels, non-ASCII digits, out of range
IPSHAPED = ['1' * 64 + '.2.3.4', '1.2.3.' + '4' * 64, '0' * 70 + '.0.0.1', '\u0661.\u0662.\u0663.\u0664', '1.2.3.\u0664',
            '\uff11.\uff12.\uff13.\uff14', '999.999.999.999', '1' * 300 + '.1.1.1', '10.11.12.13']


def rand_hwmain(rng, nul=False, ipshaped=None):
    """A scanner session: seed hosts, remote hosts file, netstat, resolver tables.  A resolvable host is
    always placed behind the odd names (as a seed host, in the hosts file and in netstat)."""
    odd = [rng.choice(ODD_NAMES) for _ in range(rng.choice([1, 2, 3]))]
    if ipshaped is not None or rng.random() < 0.4:
        odd.insert(rng.randrange(len(odd) + 1), ipshaped if ipshaped is not None else rng.choice(IPSHAPED))
    if nul:
        odd.append('a\0b')
    good = 'canary%d.example' % rng.randrange(100)
    gip = '10.9.%d.%d' % (rng.randrange(256), rng.randrange(1, 255))
    rip = '10.8.%d.%d' % (rng.randrange(256), rng.randrange(1, 255))
    place = 'etc' if nul else rng.choice(['seed', 'etc', 'both'])   # a NUL can only come from the remote file
    if ipshaped is not None and place == 'seed':
        place = 'etc'                       # the directed cases carry the token as a remote hosts-file NAME
    seeds = (odd if place in ('seed', 'both') else []) + [good]
    etc = '127.0.0.1 localhost\n'
    if place in ('etc', 'both'):
        etc += ''.join('10.7.0.%d %s\n' % (k + 1, n) for k, n in enumerate(odd))
    etc += '10.6.0.1 files-%d\n' % rng.randrange(10)
    cache = ''.join('%s,10.4.0.%d\n' % (n, k + 1) for k, n in enumerate(odd) if '\0' not in n) if rng.random() < 0.5 else None
    netstat = 'tcp 0 0 10.0.0.2:22 %s:51234 ESTABLISHED\n' % rip
    fwd = {good: gip, 'localhost': '127.0.0.1', 'rev-' + good: rip}
    for n in odd:
        if rng.random() < 0.3:
            fwd[n] = '10.5.0.%d' % rng.randrange(1, 255)
    rev = {rip: 'rev-' + good}
    expect = [[good, gip], ['rev-' + good, rip]]
    return dict(seeds=seeds, etc=etc, netstat=netstat, fwd=fwd, rev=rev, passes=4, expect=expect, cache=cache)


def rand_history(rng):
    names = [rand_label(rng, rng.choice([1, 4, 12])) + rng.choice(['', '.example']) for _ in range(rng.choice([1, 2, 3]))]
    ips = ['10.0.0.1', '10.0.0.2', '10.0.0.3']
    return [('found', rng.choice(names), rng.choice(ips)) for _ in range(rng.choice([3, 4, 6, 9]))]


def chunkings(rng, stream):
    n = len(stream)
    if n == 0:
        return []
    k = rng.randrange(9)
    if k in (0, 6) and n <= 800:
        sizes = [1] * n                      # byte by byte: every record spans many reads
    elif k in (7, 8) and n <= 800:
        sizes = []                           # reads of 1..5 bytes: a 20..60-byte record spans 4..60 reads
        tot = 0
        while tot < n and len(sizes) < 3000:
            sizes.append(rng.randrange(1, 6))
            tot += sizes[-1]
    elif k == 1 and n <= 1200:
        sizes = [2] * (n // 2 + 1)
    elif k == 2:
        sizes = []
        for line in stream.split(b'\n'):
            sizes.append(max(1, len(line) + 1 + rng.choice([-1, 0, 1])))
        sizes.append(n)
    elif k == 3:
        sizes = [4096] * (n // 4096 + 1)
    else:
        sizes = []
        tot = 0
        while tot < n:
            s = rng.choice([1, 2, 3, 7, 50, 4096, rng.randrange(1, 4097)])
            sizes.append(s)
            tot += s
    out = []
    pos = 0
    for s in sizes:
        s = min(s, 4096)
        if pos >= n:
            break
        out.append(stream[pos:pos + s])
        pos += s
    if pos < n:
        while pos < n:
            out.append(stream[pos:pos + 4096])
            pos += 4096
    return out


HOSTS_FILES = ['127.0.0.1 localhost\n::1 ip6-localhost\n', '', '# only a comment',
               '1.2.3.4 keep # sshuttle-firewall-9999 AUTOCREATED\n10.0.0.1 a b c\n\n# x\n',
               '1.1.1.1 stale                  # sshuttle-firewall-12300 AUTOCREATED\n8.8.8.8 dns\n']


def related_ports(port):
    """Ports of OTHER sshuttle instances whose decimal text is related to this session's port: this port's
    digits are a proper prefix / suffix / infix of theirs, theirs of this one's, neighbours, and an unrelated one."""
    t = str(port)
    out = set()
    for d in '0', '1', '9':
        out.add(t + d)            # this port is a proper prefix of the other
        out.add(d.replace('0', '1') + t)   # ... a proper suffix
        out.add('1' + t + d)      # ... an infix
    for cut in (t[:-1], t[1:], t[1:-1], t[:2], t[-2:]):
        out.add(cut)              # the other port is a prefix / suffix / infix of this one
    out.update([str(port + 1), str(max(port - 1, 1)), '9999'])
    return sorted({int(x) for x in out if x and 0 < int(x) <= 65535 and int(x) != port})


def hosts_with_instances(rng, port, n=None):
    """A hosts file that other sshuttle instances (serial use of the same file) have already written their
    marked lines into, together with ordinary lines and stale lines of this session's own port."""
    others = related_ports(port)
    if n is not None:
        others = rng.sample(others, min(n, len(others)))
    lines = ['127.0.0.1 localhost', '# managed by hand']
    for k, q in enumerate(others):
        lines.append('%-30s %s' % ('10.%d.%d.1 other%d-%d' % (q // 256, q % 256, k, q),
                                   '# sshuttle-firewall-%d AUTOCREATED' % q))
    if rng.random() < 0.5:
        lines.append('%-30s %s' % ('1.1.1.1 stale', '# sshuttle-firewall-%d AUTOCREATED' % port))
    lines.append('8.8.8.8 dns')
    rng.shuffle(lines)
    return '\n'.join(lines) + '\n'


ENCODED_HOSTS = [     # the administrator's own file, as bytes
    b'127.0.0.1 localhost\n# plain ASCII\n10.0.0.9 printer\n',
    '127.0.0.1 localhost\n# B\u00fcro-Drucker (UTF-8)\n10.0.0.9 drucker\n'.encode('utf-8'),
    '127.0.0.1 localhost\n# B\u00fcro-Drucker (Latin-1)\n10.0.0.9 drucker\n'.encode('latin-1'),
    b'127.0.0.1 localhost\n10.0.0.9 pr\x80nter   # stray continuation byte\n\xbf\n',
    b'127.0.0.1 localhost\n# NUL \x00 inside\n10.0.0.9 printer\n',
    '10.0.0.9 drucker  # \u65e5\u672c \U0001f5a8\n1.1.1.1 stale   # sshuttle-firewall-12300 AUTOCREATED\n'.encode('utf-8'),
    b'\xff\xfe1\x000\x00.\x000\x00\n',
]
LOCALES = ['utf-8', 'ascii']      # what open() without an encoding picks: UTF-8 locale, C/POSIX locale

PORT_PAIRS = [[0, 12300], [12299, 12300], [65535, 0], [1230, 0], [0, 1230], [123, 1230], [2300, 0], [0, 230], [1, 0], [0, 6553]]


class Log:
    def __init__(self, kind):
        self.kind = kind
        self.ins = []
        self.outs = []
        self.nontrivial = False


def pipeline_case(ctx, case, tmpdir):
    """Run one end-to-end case on the real code. Returns the correspondence log."""
    log = Log('pipeline')
    case['level'] = next_level(ctx, case.get('level'))
    case['clock'] = next_clock(ctx, case.get('clock'))
    ops = [tuple(o) for o in case['ops']]
    # 1. scanner
    sc = Scanner(case['encoding'], tmpdir)
    try:
        stream = sc.run(ops)
    finally:
        sc.close()
    log.ins.append('scan-reset')
    log.outs.append('ok')
    for name, ip, emitted in sc.calls:
        log.ins.append('found %s %s' % (cps(name), cps(ip)))
        log.outs.append('out ' + hexb(emitted))
    ctx.hist('scanner:' + (sc.error or 'ok'))
    if sc.error:
        ctx.violation('C19:scanner:exception:' + sc.error, case=case, expected='the scanner survives any input',
                      observed=sc.error, note='an uncaught exception in hw_main ends the hostwatch process; the server then '
                      'raises Fatal("hostwatch process died") and the session ends')
        return log
    emitted = complete_records(stream)
    for op in ops:
        if op[0] == 'hwmain':
            ctx.hist('hwmain')
            for n, i in op[1].get('expect', []):
                if (n.encode(), i.encode()) not in emitted:
                    ctx.violation('C19:scanner:later-record-not-reported', case=case, expected=[n, i],
                                  observed=[(a.decode('utf-8', 'replace')[:60], b.decode('utf-8', 'replace')) for a, b in emitted][:12],
                                  note='a resolvable host behind an odd name was never reported')
                    return log
    for n, i in emitted:
        ctx.hist('emitted:' + ('valid' if NAME_RE.match(n.decode('utf-8', 'replace')) and len(n) <= 253 and
                               QUAD_RE.match(i.decode('utf-8', 'replace')) else 'invalid'))
    # 2. server
    srv = Server(case['clock'])
    if case.get('chunks') is None:
        chunks = chunkings(ctx.rng, stream)
    else:
        chunks = [common.unhex(c) for c in case['chunks']]
        if b''.join(chunks) != stream:
            # replay on a tree that emits a different stream: keep the recorded read sizes
            sizes, chunks, pos = [len(c) for c in chunks], [], 0
            for n in sizes + [4096] * (len(stream) // 4096 + 1):
                if pos < len(stream) and n:
                    chunks.append(stream[pos:pos + n])
                    pos += n
    case['chunks'] = [hexb(c) for c in chunks]
    log.ins.append('hw-reset')
    log.outs.append('ok')
    wires = []
    for ch in chunks:
        tag, lo, payload, wire = srv.read(ch)
        log.ins.append('ready ' + hexb(ch))
        if tag == 'sent':
            log.outs.append('sent leftover=%s payload=%s' % (hexb(lo), 'none' if payload is None else hexb(payload)))
            if payload is not None:
                wires.append((wire, payload))
        else:
            log.outs.append(tag)
            ctx.violation('C19:server:' + tag, case=case, expected='hostwatch_ready forwards every read',
                          observed=tag)
            return log
    payloads = b''.join(p for _w, p in wires)
    cut = stream.rfind(b'\n') + 1
    if payloads != stream[:cut] or srv.hw.leftover != stream[cut:]:
        ctx.violation('C19:server:reassembly-lost-or-duplicated-bytes', case=case,
                      expected=dict(payloads=hexb(stream[:cut])[:400], leftover=hexb(stream[cut:])[:100]),
                      observed=dict(payloads=hexb(payloads)[:400], leftover=hexb(srv.hw.leftover)[:100]))
        return log
    # 3. client
    cl = Client()
    host_bytes = b''
    for wire, payload in wires:
        tag, written = cl.deliver(wire)
        log.ins.append('hostlist ' + hexb(payload))
        log.outs.append('ok ' + hexb(written) if tag == 'ok' else tag)
        host_bytes += written
        if tag != 'ok':
            ctx.hist('client:' + tag)
            ctx.violation('C19:client:session-ended-by-host-entry', case=case,
                          expected='an entry that cannot be used is skipped; the session continues',
                          observed=dict(exception=tag, payload=hexb(payload)[:300]),
                          note='an exception in onhostlist/sethostip propagates out of the client main loop')
            return log
    ctx.hist('client:ok')
    delivered = []
    for line in host_bytes.split(b'\n')[:-1]:
        n, _s, i = line[5:].partition(b',')
        delivered.append((n, i))
    if delivered != emitted:
        ctx.violation('C19:transit:record-lost-duplicated-or-altered', case=case,
                      expected=[(hexb(n)[:80], hexb(i)) for n, i in emitted][:8],
                      observed=[(hexb(n)[:80], hexb(i)) for n, i in delivered][:8],
                      note='every complete record emitted by the scanner must reach sethostip exactly once, in order')
        return log
    # 4. helper + scratch hosts file
    p6, p4 = case['ports']
    port = p6 or p4
    enc = case.setdefault('locale', 'utf-8')
    end, snaps, final = run_helper(host_bytes, p6, p4, case['hosts_file'], tmpdir, enc)
    failed = run_helper.failed
    if snaps and snaps[-1][0] == {}:
        cleanup = snaps.pop()   # noqa
    if not decodable(case['hosts_file'], enc):
        # the helper cannot read the existing file in its locale: whatever it does (the code as it is raises
        # before touching the file), every line that is not ours must stay byte-identical
        ctx.hist('helper:undecodable-hosts-file:' + end)
        check_hosts_file(ctx, case, case['hosts_file'], snaps, final, port, failed)
        log.nontrivial = bool(sc.calls)
        return log
    log.ins.append('hostsfile %d %s' % (port, hexb(host_bytes)))
    log.outs.append('blocks=%s end=%s' % (''.join(hexb(marked_block(c, port)) + '|' for _m, _p, c in snaps) + '.', end))
    ctx.hist('helper:' + end)
    if end != 'eof':
        ctx.violation('C19:helper:session-ended-by-host-line', case=case, expected='eof', observed=end,
                      note='the helper left its loop on a HOST line it was sent')
        return log
    if len(snaps) != len(delivered):
        ctx.violation('C19:helper:update-count', case=case, expected=len(delivered), observed=len(snaps))
    last = {}
    for n, i in emitted:
        last[n.decode('latin-1')] = i.decode('latin-1')
    if len(emitted) > len(last):
        ctx.hist('history:repeated-name')
    have = dict(snaps[-1][0]) if snaps else {}
    if have != last:
        ctx.violation('C19:hosts-file:not-last-announced-value', case=case, expected=last, observed=have,
                      note="after a history of records the hosts file must hold, for every name, the last address "
                           "the scanner announced for it")
        return log
    check_hosts_file(ctx, case, case['hosts_file'], snaps, final, port, failed)
    log.nontrivial = bool(sc.calls)
    return log


def payload_case(ctx, payload, tmpdir, ports=(0, 12300), hosts_file=HOSTS_FILES[0], level=None, locale='utf-8'):
    """An arbitrary HOST_LIST payload handed to the real client, then on to the real helper."""
    log = Log('payload')
    case = dict(kind='payload', payload=hexb(payload), ports=list(ports), hosts_file=hosts_file,
                level=next_level(ctx, level), locale=locale)
    cl = Client()
    tag, written = cl.deliver(frame(payload))
    log.ins.append('hostlist ' + hexb(payload))
    log.outs.append('ok ' + hexb(written) if tag == 'ok' else tag)
    ctx.hist('payload:' + tag)
    log.nontrivial = True
    if tag != 'ok':
        ctx.violation('C19:client:session-ended-by-host-entry', case=case,
                      expected='an entry that cannot be used is skipped; the session continues',
                      observed=dict(exception=tag), note='a host-list payload a server could send')
        return log
    port = ports[0] or ports[1]
    end, snaps, final = run_helper(written, ports[0], ports[1], hosts_file, tmpdir, locale)
    failed = run_helper.failed
    if snaps and snaps[-1][0] == {}:
        snaps.pop()
    if not decodable(hosts_file, locale):
        ctx.hist('helper:undecodable-hosts-file:' + end)
        check_hosts_file(ctx, case, hosts_file, snaps, final, port, failed)
        return log
    log.ins.append('hostsfile %d %s' % (port, hexb(written)))
    log.outs.append('blocks=%s end=%s' % (''.join(hexb(marked_block(c, port)) + '|' for _m, _p, c in snaps) + '.', end))
    if end != 'eof':
        ctx.violation('C19:helper:session-ended-by-host-line', case=case, expected='eof', observed=end)
        return log
    last = {}       # the property, from the payload alone: valid entries, last value per name
    for tokn in payload.split():
        n, sep, i = tokn.partition(b',')
        if sep and len(n) <= 253 and NAME_RE.match(n.decode('latin-1')) and QUAD_RE.match(i.decode('latin-1')):
            last[n.decode('latin-1')] = i.decode('latin-1')
    have = dict(snaps[-1][0]) if snaps else {}
    if have != last:
        ctx.violation('C19:hosts-file:not-last-announced-value', case=case, expected=last, observed=have,
                      note='valid entries of a host list: the last address announced per name must be in force')
        return log
    check_hosts_file(ctx, case, hosts_file, snaps, final, port, failed)
    return log


def rand_payload(rng):
    parts = []
    for _ in range(rng.choice([1, 2, 4])):
        r = rng.random()
        if r < 0.4:
            parts.append('%s,%s' % (rand_name(rng, False), rand_ip(rng)))
        elif r < 0.5:
            parts.append(rand_name(rng, False))
        elif r < 0.6:
            parts.append(rng.choice([',', ',,', 'a,', ',1.2.3.4', 'a,1', 'a,...', 'a,1.2.3.4,5', 'a,1.2.3.4 b,5.6.7.8',
                                     'x,1.2.3.4\x0by,5.6.7.8', '\x1cz,1.1.1.1', 'q,1.1.1.1\x85', 'w,0001.1.1.1', 'v,1.2.3.256']))
        else:
            parts.append('%s,%d.%d.%d.%d' % (rand_label(rng, rng.choice([1, 10, 100, 114, 115, 253, 254])),
                                               rng.randrange(256), rng.randrange(256), rng.randrange(256), rng.randrange(256)))
    if rng.random() < 0.3:      # a history: the same few names announced again and again
        names = [rand_label(rng, rng.choice([1, 5])) for _ in range(rng.choice([1, 2]))]
        parts += ['%s,10.0.0.%d' % (rng.choice(names), rng.choice([1, 2, 3])) for _ in range(rng.choice([3, 5, 8]))]
        rng.shuffle(parts)
    sep = rng.choice(['\n', '\n', ' ', '\r\n', '\t', '\n\n'])
    s = sep.join(parts) + rng.choice(['\n', '', ' \n'])
    return s.encode('utf-8', 'surrogatepass')[:60000]


def bulk_records(n, namelen, seed):
    """The scanner input of a large site, by generator parameters: n hosts with long (valid) names."""
    import random
    r = random.Random(seed)
    out = []
    for k in range(n):
        name = 'h%05d-' % k + ''.join(r.choice(GOODCH) for _ in range(max(1, namelen - 7)))
        out.append((name, '10.%d.%d.%d' % (k // 65536 % 256, k // 256 % 256, k % 256)))
    return out


def bulk_case(ctx, params, tmpdir, level=None, clock=None):
    """SCALE: several hundred KiB of scanner output pending at once on the hostwatch socket; the real relay
    reads it with whatever size it asks recv() for (the fake socket honours the size); every record must
    reach sethostip exactly once, in order.  The helper stage is left out (one rewrite per record)."""
    log = Log('bulk')
    case = dict(kind='bulk', params=params, level=next_level(ctx, level))
    case['clock'] = next_clock(ctx, clock)
    recs = bulk_records(params['n'], params['namelen'], params['seed'])
    sc = Scanner('utf-8', tmpdir)
    try:
        stream = sc.run([('found', n, i) for n, i in recs])
    finally:
        sc.close()
    if sc.error:
        ctx.violation('C19:scanner:exception:' + sc.error, case=case, expected='the scanner survives', observed=sc.error)
        return log
    emitted = complete_records(stream)
    ctx.hist('bulk:bytes-pending', len(stream))
    srv = Server(case['clock'])
    cl = Client()
    log.ins.append('hw-reset')
    log.outs.append('ok')
    srv.sock.next = stream
    host_bytes = []
    payloads = []
    reads = 0
    while srv.sock.next:
        reads += 1
        srv.sock.last = b''
        tag, lo, payload, wire = srv.read(None)
        log.ins.append('ready ' + hexb(srv.sock.last))
        if tag != 'sent':
            log.outs.append(tag)
            ctx.violation('C19:server:' + tag, case=dict(case, read_no=reads, read_size=len(srv.sock.last)),
                          expected='hostwatch_ready forwards every read', observed=tag,
                          note='%d bytes of scanner output were pending; read number %d returned %d bytes'
                               % (len(stream), reads, len(srv.sock.last)))
            return log
        log.outs.append('sent leftover=%s payload=%s' % (hexb(lo), 'none' if payload is None else hexb(payload)))
        if payload is not None:
            payloads.append(payload)
            t, written = cl.deliver(wire)
            log.ins.append('hostlist ' + hexb(payload))
            log.outs.append('ok ' + hexb(written) if t == 'ok' else t)
            if t != 'ok':
                ctx.violation('C19:client:session-ended-by-host-entry', case=case, expected='ok', observed=t)
                return log
            host_bytes.append(written)
    ctx.hist('bulk:reads', reads)
    delivered = []
    for line in b''.join(host_bytes).split(b'\n')[:-1]:
        n, _s, i = line[5:].partition(b',')
        delivered.append((n, i))
    if b''.join(payloads) != stream or delivered != emitted:
        k = next((j for j, (a, b2) in enumerate(zip(delivered, emitted)) if a != b2), min(len(delivered), len(emitted)))
        ctx.violation('C19:transit:record-lost-duplicated-or-altered', case=case,
                      expected=dict(records=len(emitted)), observed=dict(records=len(delivered), first_difference_at=k))
    log.nontrivial = True
    return log


def stream_case(ctx, stream, chunks, level=None, clock=None):
    """Arbitrary bytes through the real hostwatch_ready (correspondence + reassembly oracle)."""
    log = Log('stream')
    level = next_level(ctx, level)
    clock = next_clock(ctx, clock)
    log.nontrivial = len(chunks) > 1
    srv = Server(clock)
    log.ins.append('hw-reset')
    log.outs.append('ok')
    payloads = b''
    for ch in chunks:
        tag, lo, payload, wire = srv.read(ch)
        log.ins.append('ready ' + hexb(ch))
        if tag != 'sent':
            log.outs.append(tag)
            ctx.hist('stream:' + tag)
            return log
        log.outs.append('sent leftover=%s payload=%s' % (hexb(lo), 'none' if payload is None else hexb(payload)))
        payloads += payload or b''
    fed = b''.join(chunks)
    cut = fed.rfind(b'\n') + 1
    ctx.hist('stream:ok')
    if payloads != fed[:cut] or srv.hw.leftover != fed[cut:]:
        ctx.violation('C19:server:reassembly-lost-or-duplicated-bytes',
                      case=dict(kind='stream', chunks=[hexb(c) for c in chunks], level=level, clock=clock),
                      expected=dict(payloads=hexb(fed[:cut])[:400]), observed=dict(payloads=hexb(payloads)[:400]))
    return log


def gen_cases(ctx, tmpdir):
    rng = ctx.rng
    logs = []
    # fixed corpus: the inputs recorded as defects F8 / F9
    corpus = [
        [('found', 'web/srv.example', '10.1.2.3')], [('found', 'bücher', '10.1.2.3')], [('found', 'a,b', '10.1.2.3')],
        [('found', 'ok.example', '1.2.3.٤')], [('found', 'n' * 120 + '.example', '10.1.2.3')],
        [('found', 'n' * 253, '10.1.2.3')], [('found', 'n' * 70000, '10.1.2.3')],
        [('cache', b'foo,1\nbar,1.2.3.4\n')], [('etc', b'10.0.0.5 srv srv.example # c\n\xff\xfe 1.2.3.4\n')],
        [('found', 'plain', '10.0.0.1'), ('found', 'plain', '10.0.0.1'), ('found', 'plain', '10.0.0.2')],
    ]
    for ops in corpus:
        case = dict(kind='pipeline', ops=ops, encoding='utf-8', chunks=None, ports=[0, 12300], hosts_file=HOSTS_FILES[3])
        logs.append(pipeline_case(ctx, case, tmpdir))
    # a hosts file shared (serially) with other instances whose ports are digit-prefixes / -suffixes / -infixes
    for p6, p4 in [(1230, 0), (0, 12300), (0, 230), (2300, 0), (1, 0)]:
        port = p6 or p4
        case = dict(kind='pipeline', ops=[('found', 'alpha.example', '10.1.1.1'), ('found', 'beta', '10.1.1.2')],
                    encoding='utf-8', chunks=None, ports=[p6, p4], hosts_file=hosts_with_instances(rng, port))
        logs.append(pipeline_case(ctx, case, tmpdir))
    # the pre-existing hosts file in every encoding x the helper's locale
    for hf in ENCODED_HOSTS:
        for loc in LOCALES:
            case = dict(kind='pipeline', ops=[('found', 'alpha.example', '10.1.1.1'), ('found', 'beta', '10.1.1.2')],
                        encoding='utf-8', chunks=None, ports=[0, 12300], hosts_file=hf, locale=loc)
            logs.append(pipeline_case(ctx, case, tmpdir))
    # histories of records for one name (the last announced value must be in force) and scanner sessions
    A, B = '10.0.0.1', '10.0.0.2'
    for ops in [[('found', 'h', A), ('found', 'h', B), ('found', 'h', A)],
                [('found', 'h', A), ('found', 'h', A)],
                [('found', 'h', A), ('found', 'h', B), ('found', 'h', B), ('found', 'h', A)],
                [('found', 'h', A), ('found', 'g', A), ('found', 'h', B), ('found', 'g', B), ('found', 'h', A), ('found', 'g', A)],
                [('found', 'h.example', A), ('found', 'h.example', B), ('found', 'h.example', A)]]:
        case = dict(kind='pipeline', ops=ops, encoding='utf-8', chunks=None, ports=[0, 12300], hosts_file=HOSTS_FILES[0])
        logs.append(pipeline_case(ctx, case, tmpdir))
    for _ in range(ctx.scale(25, 400)):
        case = dict(kind='pipeline', ops=rand_history(rng), encoding='utf-8', chunks=None, ports=[0, 12300],
                    hosts_file=rng.choice(HOSTS_FILES))
        logs.append(pipeline_case(ctx, case, tmpdir))
    nh = ctx.scale(30, 400)
    for k in range(nh):
        spec = rand_hwmain(rng, nul=(k == nh - 1), ipshaped=IPSHAPED[k] if k < len(IPSHAPED) else None)
        case = dict(kind='pipeline', ops=[('hwmain', spec)], encoding='utf-8', chunks=None,
                    ports=[0, 12300], hosts_file=HOSTS_FILES[0])
        logs.append(pipeline_case(ctx, case, tmpdir))
    # one record cut into three and more reads (consecutive reads without a newline)
    recs = [('found', 'build-agent-07.ci.internal.example.com', '10.20.30.40'), ('found', 'db1.example', '10.20.30.41')]
    whole = b'build-agent-07,10.20.30.40\nbuild-agent-07.ci.internal.example.com,10.20.30.40\ndb1,10.20.30.41\ndb1.example,10.20.30.41\n'
    for size in (1, 3, 5, 7, 20):
        chunks = [hexb(whole[i:i + size]) for i in range(0, len(whole), size)]
        case = dict(kind='pipeline', ops=recs, encoding='utf-8', chunks=chunks, ports=[0, 12300], hosts_file=HOSTS_FILES[0])
        logs.append(pipeline_case(ctx, case, tmpdir))
    for _ in range(ctx.scale(15, 300)):
        sizes, tot = [], 0
        while tot < len(whole):
            sizes.append(rng.randrange(1, 6))
            tot += sizes[-1]
        chunks, pos = [], 0
        for n in sizes:
            chunks.append(hexb(whole[pos:pos + n]))
            pos += n
        case = dict(kind='pipeline', ops=recs, encoding='utf-8', chunks=[c for c in chunks if c != '-'], ports=[0, 12300],
                    hosts_file=HOSTS_FILES[0])
        logs.append(pipeline_case(ctx, case, tmpdir))
    for _ in range(ctx.scale(100, 2500)):
        case = dict(kind='pipeline', ops=rand_scanner_ops(rng), encoding=rng.choice(['utf-8', 'utf-8', 'ascii']),
                    chunks=None, ports=rng.choice(PORT_PAIRS), hosts_file=None)
        if rng.random() < 0.5:
            case['hosts_file'] = rng.choice(HOSTS_FILES)
        else:
            case['hosts_file'] = hosts_with_instances(rng, case['ports'][0] or case['ports'][1], n=rng.choice([2, 4, 20]))
        if rng.random() < 0.2:
            case['hosts_file'] = rng.choice(ENCODED_HOSTS)
        case['locale'] = rng.choice(LOCALES)
        logs.append(pipeline_case(ctx, case, tmpdir))
    for p in [b'h,10.0.0.1\nh,10.0.0.2\nh,10.0.0.1\n', b'h,10.0.0.1 g,10.0.0.1 h,10.0.0.2 g,10.0.0.2 h,10.0.0.1 h,10.0.0.1\n',
              b'x\n', b'foo,1\n', b',\n', b'a,b,c\n', b'', b'\n', b'ok,1.2.3.4', b'name,1.2.3.4\nname,5.6.7.8\n']:
        logs.append(payload_case(ctx, p, tmpdir))
    for _ in range(ctx.scale(180, 4000)):
        pp = tuple(rng.choice(PORT_PAIRS + [[1024, 1025]]))
        hf = rng.choice(HOSTS_FILES) if rng.random() < 0.6 else hosts_with_instances(rng, pp[0] or pp[1], n=rng.choice([2, 4, 20]))
        if rng.random() < 0.15:
            hf = rng.choice(ENCODED_HOSTS)
        logs.append(payload_case(ctx, rand_payload(rng), tmpdir, ports=pp, hosts_file=hf, locale=rng.choice(LOCALES)))
    for _ in range(ctx.scale(120, 2000)):
        n = rng.choice([0, 1, 3, 8])
        lines = [bytes(rng.choice(b'ab,.1 \t\x00\xff') for _ in range(rng.choice([0, 1, 5, 40]))) for _ in range(n)]
        stream = b'\n'.join(lines) + rng.choice([b'', b'\n', b'tail'])
        if rng.random() < 0.04:
            stream = b'a' * rng.choice([61439, 61440, 65535, 70000]) + b'\nzz\n'
        chunks = chunkings(rng, stream)
        if chunks:
            logs.append(stream_case(ctx, stream, chunks))
    logs.append(stream_case(ctx, b'', [b'']))
    # scale: hundreds of KiB pending at once (few cases; stored by generator parameters)
    for k in range(ctx.scale(1, 4)):
        logs.append(bulk_case(ctx, dict(n=rng.choice([2500, 3000]), namelen=rng.choice([100, 110, 120]),
                                        seed=rng.randrange(1 << 16)), tmpdir))
    return logs


def compare(ctx, logs):
    if not ctx.model_available:
        ctx.notes.append('model driver unavailable: correspondence skipped, oracle only')
        return
    ins = [l for lg in logs for l in lg.ins]
    outs = common.LeanBatch('C19').run(ins)
    if len(outs) != len(ins):
        ctx.corr_break('C19', case=None, impl='%d lines' % len(ins), model='%d lines' % len(outs),
                       note='driver output length differs')
        return
    pos = 0
    for lg in logs:
        n = len(lg.ins)
        mo = outs[pos:pos + n]
        pos += n
        if mo != lg.outs:
            i = next(k for k in range(n) if mo[k] != lg.outs[k])
            ctx.corr_break(lg.kind, case=[l[:300] for l in lg.ins[max(0, i - 3):i + 1]], impl=lg.outs[i][:400], model=mo[i][:400])
            if len(ctx.corr_breaks) > 20:
                return


def run(ctx):
    tmpdir = tempfile.mkdtemp(prefix='verif_c19_')
    CASE_NO[0] = 0
    try:
        logs = gen_cases(ctx, tmpdir)
    finally:
        LEVEL[0] = 0
        shutil.rmtree(tmpdir, ignore_errors=True)
    seen = set()
    for lg in logs:
        ctx.count()
        ctx.hist('kind:' + lg.kind)
        ctx.mark(lg.ins, lg.nontrivial)
        if lg.kind not in seen and len(lg.ins) > 2:
            seen.add(lg.kind)
            ctx.sample(dict(kind=lg.kind, input=[l[:160] for l in lg.ins[:6]],
                            real_code_output=[l[:160] for l in lg.outs[:6]]), limit=6)
    compare(ctx, logs)


def search(ctx):
    run(ctx)


def replay(ctx, rep):
    case = rep['case']
    c2 = common.Ctx('C19', 'quick', 0)
    tmpdir = tempfile.mkdtemp(prefix='verif_c19_')
    try:
        if isinstance(case.get('hosts_file'), dict):
            case['hosts_file'] = bytes.fromhex(case['hosts_file']['hex'])
        if case.get('kind') == 'bulk':
            bulk_case(c2, case['params'], tmpdir, level=case.get('level', 0), clock=case.get('clock', 0))
        elif case.get('kind') == 'payload':
            payload_case(c2, common.unhex(case['payload']), tmpdir, tuple(case['ports']), case['hosts_file'],
                         level=case.get('level', 0), locale=case.get('locale', 'utf-8'))
        elif case.get('kind') == 'stream':
            chunks = [common.unhex(c) for c in case['chunks']]
            stream_case(c2, b''.join(chunks), chunks, level=case.get('level', 0), clock=case.get('clock', 0))
        else:
            ops = []
            for o in case['ops']:
                o = list(o)
                if o[0] in ('cache', 'etc') and isinstance(o[1], dict):
                    o[1] = bytes.fromhex(o[1]['hex'])
                ops.append(tuple(o))
            pipeline_case(c2, dict(case, ops=ops, level=case.get('level', 0), clock=case.get('clock', 0)), tmpdir)
    finally:
        LEVEL[0] = 0
        shutil.rmtree(tmpdir, ignore_errors=True)
    if c2.violations:
        v = c2.violations[0]
        return True, '%s: observed %r' % (v['key'], str(v['observed'])[:300])
    return False, 'every record emitted was delivered once, the hosts file kept its shape, no exception'
