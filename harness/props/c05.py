"""C05 — the server is asked to reach the address and port the application dialled.

Correspondence: the real `methods.original_dst`, `tproxy.recv_udp`, `ipfw.recv_udp`,
`pf.Method.get_tcp_dstip` / `firewall_command` / `query_nat`, `client.onaccept_tcp`,
`client.onaccept_udp` and the real closures `new_channel` / `udp_open` / `udp_req` of
`server.main` (pulled out by running `server.main` up to its first `runonce`), driven with fake
sockets whose getsockopt / getsockname / getpeername / recvmsg return kernel byte strings written
out by hand here, against `Code/Dst.lean`; plus the CPython / libc text functions the path relies
on (`inet_ntop`, `inet_pton`, `str(IPv6Address)`, `int`) against the model's own versions.

Oracle (independent of the model): the (family, address, port) handed to `ssnet.connect_dst` /
`UdpProxy.sock.sendto` by the real server code, parsed with `ipaddress` / `socket.inet_pton`,
equals the destination the fake kernel was told the application dialled; a connection to the
proxy's own listening address produces `close` and no CONNECT.
"""
import errno
import io
import os
import shutil
import tempfile
import threading
import ipaddress
import socket
import struct
import sys
import types

import common
from common import hexb

RULE = ("cases = (recovery mechanism, family, destination address, destination port, fault) tuples: "
        "boundary and single-byte addresses, every one of the 256 zero/non-zero group patterns of an IPv6 "
        "address, IPv4-mapped/compatible forms, ports whose two bytes differ when swapped, error returns of "
        "getsockopt/getpeername/the pf helper, malformed kernel byte strings and malformed CONNECT/UDP/pf "
        "texts; a case is non-trivial when it reached the server's connect/sendto, took an error branch or "
        "hit the self-address guard (listener bound to wildcard / loopback / LAN address x dialled local address); "
        "UDP also as sequences of 2-5 datagrams from 1-3 sources where one source addresses several destinations "
        "within one association; every case runs at an sshuttle verbosity level taken from the rotation [0,0,3,0,2,0,3,1] "
        "shifted by the seed (stored in the replay case); pf also as whole sessions (real FirewallClient and real firewall.main('pf') loop over a "
        "socket pair) interleaving HOST lines, some with a failing hosts-file rewrite, and 2-8 connections; distinct = distinct canonical model-input line(s)")
MANIFEST = dict(
    level_text=("Machine-checked Lean 4 theorems (core only, axioms propext/Classical.choice/Quot.sound) over a "
                "statement-by-statement model of original_dst, the tproxy/ipfw cmsg decoding, the pf QUERY_PF_NAT "
                "dialogue and its line channel, onaccept_tcp (self guard, CONNECT), onaccept_udp (association table, "
                "refresh, expiry), the server's new_channel / udp_req, and of the library printers/parsers on the path. "
                "Proved for all inputs: (TCP) one round-trip theorem C05_tcp_roundtrip: for every IPv4 / IPv6 / scoped "
                "link-local address, every port and every client family number the server parses the CONNECT payload "
                "back to exactly the text and port sent, opens AF_INET iff IPv4, and the text denotes the dialled "
                "address (parse after print = id for all 2^32 and all 2^128 addresses, both IPv6 printers); kernel "
                "sockaddr_in/sockaddr_in6 decoding for all bytes; self guard independent of the listener's bind "
                "address. (UDP) C05_udp_sequence / C05_udp_association_kept: for every sequence of datagrams, sources, "
                "destinations and clock readings each UDP_DATA decodes on the server to that datagram's own "
                "destination and payload, and the sweep never closes the association just used. (cmsg) C05_cmsg_total / "
                "C05_cmsg_truncated / C05_cmsg_buffer: for every ancillary list an 'ok' result is the decode of the "
                "first recognised ORIGDSTADDR item at the real offsets, a truncated item never yields an address, and "
                "the CMSG_SPACE(24) the code asks for suffices for both families while CMSG_SPACE(16) does not. (pf) "
                "marshalling on three platform layouts, one reply per request, C05_pf_session_pairing / "
                "_destinations over every interleaving of HOST lines and queries. The model is tied to the code on "
                "every run by pinned format strings / statement shapes and a differential run of the real functions."),
    level_note=("Decided by correspondence/oracle only (not by theorem): that the Lean model equals the Python (differential "
                "run: fake sockets with hand-built kernel byte strings, real Mux, real server.main closures, real "
                "FirewallClient <-> real firewall.main('pf') over a socket pair, scripted clock); the libc/CPython "
                "functions (inet_ntop, inet_pton, str(IPv6Address), int, split) are modelled and compared with the real "
                "ones, not verified; Linux put_cmsg truncation is modelled and compared with real loopback sockets on "
                "every run. Trusted/assumed: kernel sockaddr/cmsg layouts and pf's DIOCNATLOOK (pf cannot run here); "
                "getsockname() printing like inet_ntop (optionally with %zone); the server's connect/sendto parsing a "
                "numeric host like inet_pton and a %zone suffix via getaddrinfo; islocal()'s bind probe is an input; "
                "channel-id allocation (next_channel) is an input of the UDP/TCP theorems (C06 covers it)."),
    technique="Lean 4 proof (round-trip / refinement / invariant lemmas on byte and text codecs and tables) + differential correspondence with the real code",
)
DRIVER_TARGETS = ['SshuttleModel.Code.Dst']
ASSUMPTIONS = [
    "the pf helper runs at the client's verbosity (its -v count is passed on the helper's command line)",
    "the kernel fills sockaddr_in / sockaddr_in6 / the ORIGDSTADDR cmsg / pfioc_natlook as the platform headers say",
    "recvmsg() fills the control buffer the way Linux put_cmsg() does (fake validated against real loopback sockets on every run)",
    "getsockname()/getpeername() print numeric addresses the way inet_ntop does (no %scope suffix)",
    "the server's socket.connect/sendto parse a numeric host the way inet_pton does",
    "islocal() is truthful about whether an address is bound locally",
]

AF4 = int(socket.AF_INET)
AF6 = int(socket.AF_INET6)
LE = sys.byteorder == 'little'


# ---------------------------------------------------------------- kernel byte strings, by hand

def u16_native(n):
    return bytes([n & 255, n >> 8]) if LE else bytes([n >> 8, n & 255])


def sockaddr_in(port, addr4, fam=AF4):
    # struct sockaddr_in { sa_family_t sin_family; in_port_t sin_port (network order);
    #                      struct in_addr sin_addr; char sin_zero[8]; }
    return u16_native(fam) + bytes([port >> 8, port & 255]) + bytes(addr4) + bytes(8)


def sockaddr_in6(port, addr16, flow=b'\0\0\0\0', scope=b'\0\0\0\0', fam=AF6):
    # struct sockaddr_in6 { family; port (network order); flowinfo; in6_addr; scope_id }
    return u16_native(fam) + bytes([port >> 8, port & 255]) + bytes(flow) + bytes(addr16) + bytes(scope)


# ---------------------------------------------------------------- fakes at the OS boundary

class FakeSock:
    def __init__(self, family, sockname=None, peername=None, sockopt=None):
        self.family = family
        self._sockname = sockname
        self._peername = peername
        self._sockopt = sockopt      # bytes or OSError
        self.closed = 0
        self.sockopt_calls = []

    def getsockopt(self, level, opt, n):
        self.sockopt_calls.append((int(level), int(opt), int(n)))
        if isinstance(self._sockopt, BaseException):
            raise self._sockopt
        return self._sockopt[:n]

    def getsockname(self):
        if isinstance(self._sockname, BaseException):
            raise self._sockname
        return self._sockname

    def getpeername(self):
        if isinstance(self._peername, BaseException):
            raise self._peername
        return self._peername

    def close(self):
        self.closed += 1

    def fileno(self):
        return 1002

    def setblocking(self, f):
        pass

    def shutdown(self, how):
        pass


BIND_ADDRS = {'wild': ('0.0.0.0', '::'), 'loop': ('127.0.0.1', '::1'), 'lan': ('192.168.7.5', 'fd00::5')}


class FakeListener:
    """The proxy's listening socket: bound to `bound` (wildcard, loopback or a LAN address)."""

    def __init__(self, sock=None, src=('192.0.2.9', 40000), bound=None):
        self.sock = sock
        self.src = src
        self.family = sock.family if sock is not None else AF4
        self.bound = bound

    def accept(self):
        return self.sock, self.src

    def getsockname(self):
        return self.bound


def kernel_ancillary(cmsgs, ancsize):
    """What Linux put_cmsg() leaves in a control buffer of `ancsize` bytes: items in order; one that
    does not fit is cut to the room left (MSG_CTRUNC), one for which not even a header fits is lost.
    (Checked against real loopback sockets in this sandbox by `validate_recvmsg_fake`.)"""
    out, flags, room = [], 0, ancsize
    hdr = socket.CMSG_LEN(0)
    for (lvl, typ, data) in cmsgs:
        if room < hdr:
            flags |= socket.MSG_CTRUNC
            break
        if room < socket.CMSG_LEN(len(data)):
            flags |= socket.MSG_CTRUNC
            data = data[:room - hdr]
        out.append((lvl, typ, bytes(data)))
        room -= min(room, socket.CMSG_SPACE(len(data)))
    return out, flags


class FakeUdpListener:
    """UDP listener whose recvmsg() honours the buffer sizes it is given, like the kernel:
    the datagram is cut to `bufsize` (MSG_TRUNC), the ancillary data to `ancsize` (MSG_CTRUNC).
    `raw=True` hands the ancillary list over untouched (decoding-loop correspondence only)."""

    def __init__(self, family, msg, raw=False):
        self.family = family
        self.msg = msg
        self.raw = raw
        self.delivered = None
        self.ancsize = None

    def recvmsg(self, bufsize, ancsize=0, flags=0):
        data, cmsgs, fl, src = self.msg
        self.ancsize = ancsize
        if self.raw:
            self.delivered = list(cmsgs)
            return data, list(cmsgs), fl, src
        anc, cfl = kernel_ancillary(cmsgs, ancsize)
        if len(data) > bufsize:
            data, cfl = data[:bufsize], cfl | socket.MSG_TRUNC
        self.delivered = anc
        return data, anc, fl | cfl, src


class DummyFile:
    def fileno(self):
        return 1000

    def write(self, b):
        return len(b)

    def read(self, n=-1):
        return b''


class _Stop(Exception):
    pass


class Env:
    """Real modules with the OS boundary replaced; everything is restored by close()."""

    def __init__(self):
        import sshuttle.helpers as helpers
        import sshuttle.ssnet as ssnet
        import sshuttle.client as client
        import sshuttle.server as server
        import sshuttle.methods as methods
        import sshuttle.methods.tproxy as tproxy
        import sshuttle.methods.ipfw as ipfw
        import sshuttle.methods.pf as pfm
        import sshuttle.methods.nat as nat
        self.helpers, self.ssnet, self.client, self.server = helpers, ssnet, client, server
        self.methods, self.tproxy, self.ipfw, self.pfm, self.nat = methods, tproxy, ipfw, pfm, nat
        self.saved = []
        self.patch(helpers, 'verbose', 0)
        self.patch(ssnet, 'set_non_blocking_io', lambda fd: None)
        self.islocal_script = None
        self.islocal_calls = []
        # islocal() itself is real; its bind() probe (the OS boundary) is scripted
        fake_socket_mod = types.ModuleType('socket')
        fake_socket_mod.__dict__.update(socket.__dict__)
        fake_socket_mod.socket = self._probe_socket
        self.patch(helpers, 'socket', fake_socket_mod)
        self.connects = []
        self.patch(ssnet, 'connect_dst', self._connect_dst)
        self.udp_sends = []
        env = self

        class RecUdpProxy(server.UdpProxy):
            def __init__(self, mux, chan, family):
                class S:
                    def sendto(self_inner, data, dst):
                        env.udp_sends.append((family, dst, bytes(data)))

                    def fileno(self_inner):
                        return 1003
                ssnet.Handler.__init__(self, [])
                self.mux, self.chan, self.sock, self.timeout = mux, chan, S(), 0
                self.family = family
        self.patch(server, 'UdpProxy', RecUdpProxy)
        self.smux = self._server_mux()
        self.kernel = None          # pf: function(raw bytes, layout tag) -> (rdaddr16, rdport) or OSError
        self.ioctl_seen = []
        self.patch(pfm, 'ioctl', self._ioctl)
        self.patch(pfm, 'pf_get_dev', lambda: 7)
        self.orig_pf = pfm.pf

    def patch(self, obj, name, val):
        self.saved.append((obj, name, getattr(obj, name)))
        setattr(obj, name, val)

    def close(self):
        for obj, name, val in reversed(self.saved):
            setattr(obj, name, val)
        self.saved = []

    # -- fakes
    def _probe_socket(self, family=socket.AF_INET, *a, **kw):
        env = self

        class Probe:
            def bind(self_inner, addr):
                env.islocal_calls.append((addr[0], family))
                s = env.islocal_script
                if callable(s):
                    s = s(addr[0])
                if s == 'y':
                    return
                if s == 'n':
                    raise OSError(errno.EADDRNOTAVAIL, 'Cannot assign requested address')
                raise OSError(errno.EACCES, 'scripted bind failure')

            def close(self_inner):
                pass
        return Probe()

    def _connect_dst(self, family, ip, port):
        self.connects.append((int(family), ip, port))
        x = object()
        return types.SimpleNamespace(rsock=x, wsock=x)

    def _server_mux(self):
        """Run the real server.main up to its first runonce(); its closures stay on the Mux."""
        server, ssnet = self.server, self.ssnet
        got = {}

        def runonce(handlers, mux):
            got['mux'], got['handlers'] = mux, handlers
            raise _Stop()
        old = (sys.stdout, server.io, ssnet.runonce, sys.stderr)
        sys.stdout = io.StringIO()
        sys.stderr = io.StringIO()
        server.io = types.SimpleNamespace(FileIO=lambda fd, mode='r': DummyFile())
        ssnet.runonce = runonce
        try:
            try:
                server.main(False, ssnet.LATENCY_BUFFER_SIZE, False, False, False)
            except _Stop:
                pass
        finally:
            sys.stdout, server.io, ssnet.runonce, sys.stderr = old
        self.shandlers = got['handlers']
        fn = got['mux'].got_udp_open
        self.udphandlers = fn.__closure__[fn.__code__.co_freevars.index('udphandlers')].cell_contents
        return got['mux']

    def reset_server(self):
        self.smux.channels.clear()
        del self.shandlers[1:]
        self.udphandlers.clear()
        self.smux.outbuf[:] = []

    def client_mux(self, chani=0):
        m = self.ssnet.Mux(DummyFile(), DummyFile())
        m.outbuf[:] = []
        m.chani = chani
        return m

    def _ioctl(self, fd, req, buf):
        if req != self.pfm.pf.DIOCNATLOOK:
            return 0                # rule / anchor ioctls of set-up and tear-down: accepted, no effect
        raw = bytes(buf)
        self.ioctl_seen.append(raw)
        res = self.kernel(raw)
        if isinstance(res, BaseException):
            raise res
        rdaddr, rdport, lay = res
        buf[lay['rdaddr']:lay['rdaddr'] + 16] = bytes(rdaddr) + bytes(16 - len(rdaddr))
        buf[lay['rdxport']:lay['rdxport'] + 2] = bytes([rdport >> 8, rdport & 255])
        return 0


def frames_of(mux):
    out = []
    for b in mux.outbuf:
        b = bytes(b)
        s1, s2, chan, cmd, n = struct.unpack('!ccHHH', b[:8])
        assert (s1, s2) == (b'S', b'S') and len(b) == 8 + n
        out.append((chan, cmd, b[8:]))
    return out


# pfioc_natlook offsets written out from the platform headers (independent of harness/params/c05.py)
PF_LAYOUTS = {
    'F': dict(saddr=0, daddr=16, rdaddr=48, sxport=64, dxport=66, rdxport=70, af=72, proto=73, direction=75, size=76),
    'O': dict(saddr=0, daddr=16, rdaddr=48, sxport=68, dxport=70, rdxport=74, af=76, proto=77, direction=79, size=80),
    'D': dict(saddr=0, daddr=16, rdaddr=48, sxport=64, dxport=68, rdxport=76, af=80, proto=81, direction=83, size=84),
}


def pf_instance(env, tag):
    pfm = env.pfm
    return {'F': pfm.FreeBsd, 'O': pfm.OpenBsd, 'D': pfm.Darwin}[tag]()


def read_key(raw, lay):
    af = raw[lay['af']]
    n = 4 if af == AF4 else 16
    return dict(af=af, proto=raw[lay['proto']], direction=raw[lay['direction']],
                saddr=raw[lay['saddr']:lay['saddr'] + n], daddr=raw[lay['daddr']:lay['daddr'] + n],
                sport=raw[lay['sxport']] * 256 + raw[lay['sxport'] + 1],
                dport=raw[lay['dxport']] * 256 + raw[lay['dxport'] + 1])


def show_key(k):
    return 'af=%d proto=%d dir=%d s=%s:%d d=%s:%d' % (k['af'], k['proto'], k['direction'], hexb(k['saddr']),
                                                      k['sport'], hexb(k['daddr']), k['dport'])


# ---------------------------------------------------------------- address / port generators

def v4_pool(rng, n):
    out = [bytes(4), b'\xff' * 4, bytes([127, 0, 0, 1]), bytes([10, 0, 0, 1]), bytes([1, 2, 3, 4]),
           bytes([9, 10, 99, 100]), bytes([199, 200, 255, 0]), bytes([255, 255, 255, 254])]
    for i in range(4):
        for v in (1, 9, 10, 99, 100, 128, 254, 255):
            b = bytearray(4)
            b[i] = v
            out.append(bytes(b))
    while len(out) < n:
        out.append(bytes(rng.getrandbits(8) for _ in range(4)))
    return out


PORTS = [0, 1, 9, 10, 53, 80, 99, 100, 255, 256, 258, 443, 999, 1000, 0x1234, 0x3412, 9999, 10000,
         12300, 32768, 65280, 65534, 65535]


def port_of(rng):
    return rng.choice(PORTS) if rng.random() < 0.6 else rng.randrange(65536)


def groups_to_bytes(gs):
    return b''.join(bytes([g >> 8, g & 255]) for g in gs)


def v6_pool(rng, per_pattern, extra):
    out = []
    vals = [1, 0xf, 0x10, 0xff, 0x100, 0xfff, 0x1000, 0xffff, 0xa0b, 0x2001, 0xdb8, 0xfe80]
    for mask in range(256):                 # every zero / non-zero pattern of the eight groups
        for _ in range(per_pattern):
            gs = [0 if (mask >> i) & 1 else (rng.choice(vals) if rng.random() < 0.5 else rng.randrange(1, 65536))
                  for i in range(8)]
            out.append(groups_to_bytes(gs))
    special = ['::', '::1', '::ffff:1.2.3.4', '::1.2.3.4', '::ffff:0:0', '::0.1.0.0', '::0.0.1.0', '::fffe:1.2.3.4',
               '0:0:0:0:0:ffff:ffff:ffff', '1::', '1::1', '1:0:0:2:0:0:0:3', '1:0:0:0:2:0:0:3', '0:0:1:0:0:1:0:0',
               'ffff:ffff:ffff:ffff:ffff:ffff:ffff:ffff', '2001:db8::1', 'fe80::1', '1:2:3:4:5:6:7:8',
               '1:2:3:4:5:6:7:0', '0:2:3:4:5:6:7:8', '1:0:3:4:5:6:7:8', '::2:3:4:5:6:7:8', '1:2:3:4:5:6::',
               '0:0:0:0:0:0:255.255.255.255', '0:0:0:0:0:ffff:255.255.255.255', '64:ff9b::1.2.3.4', '0:0:0:1::']
    for s in special:
        out.append(socket.inet_pton(socket.AF_INET6, s))
    for _ in range(extra):
        out.append(bytes(rng.getrandbits(8) for _ in range(16)))
    return out


# ---------------------------------------------------------------- verbosity is a dimension of every case

LEVELS = [0, 0, 3, 0, 2, 0, 3, 1]      # rotation, shifted by the seed: over seeds 0..7 every directed case
                                        # has run at every level


class NullSink:
    def write(self, s):
        return len(s)

    def flush(self):
        pass


def next_level(ctx):
    k = getattr(ctx, '_c05_level_k', 0)
    ctx._c05_level_k = k + 1
    return LEVELS[(k + ctx.seed) % len(LEVELS)]


class at_level:
    """Run the real code at sshuttle verbosity `level` (client and, for pf, the helper side: one process
    here, one -v count there); sys.stderr is a sink while it runs.  Behaviour must not depend on it."""

    def __init__(self, level):
        self.level = level

    def __enter__(self):
        import sshuttle.helpers as helpers
        self.helpers = helpers
        self.old = (helpers.verbose, sys.stderr)
        helpers.verbose = self.level
        sys.stderr = NullSink()

    def __exit__(self, *a):
        self.helpers.verbose, sys.stderr = self.old
        return False


def leveled(fn):
    """The case's level: taken from the case (replay) or from the rotation, and stored in the case."""
    def w(ctx, env, logs, case):
        if 'verbose' not in case:
            case['verbose'] = next_level(ctx)
        with at_level(case['verbose']):
            r = fn(ctx, env, logs, case)
        ctx.hist('verbosity:%d' % case['verbose'])
        return r
    w.__name__ = fn.__name__
    w.__doc__ = fn.__doc__
    return w


# ---------------------------------------------------------------- logs

class Log:
    def __init__(self, kind):
        self.kind = kind
        self.ins = []
        self.outs = []
        self.nontrivial = True

    def add(self, i, o):
        self.ins.append(i)
        self.outs.append(o)
        return self


def excname(e):
    if isinstance(e, UnicodeError):
        return 'unicodeError'
    if isinstance(e, struct.error):
        return 'structError'
    if isinstance(e, ValueError):
        return 'valueError'
    if isinstance(e, TypeError):
        return 'typeError'
    if isinstance(e, UnboundLocalError):
        return 'unbound'
    if isinstance(e, OverflowError):
        return 'overflow'
    return 'other:' + type(e).__name__


def text_tok(s):
    if isinstance(s, str):
        s = s.encode('latin-1', 'replace')
    return hexb(s)


# ---------------------------------------------------------------- the property, on the real code's output

def same_dest(server_family, ip_text, port, want_packed, want_port):
    """Does (family, text, port) as handed to connect/sendto denote the dialled destination?"""
    if isinstance(ip_text, bytes):
        try:
            ip_text = ip_text.decode('ascii')
        except UnicodeError:
            return False
    want_fam = AF4 if len(want_packed) == 4 else AF6
    if int(server_family) != want_fam:
        return False
    try:
        a = ipaddress.ip_address(ip_text)
        packed_by_libc = socket.inet_pton(want_fam, ip_text)
    except (ValueError, OSError):
        return False
    return a.packed == want_packed and packed_by_libc == want_packed and port == want_port and type(port) is int


# ---------------------------------------------------------------- streams

def odst_case(env, fam, opt):
    """original_dst on one fake socket.  opt: bytes or errno."""
    sock = FakeSock(fam, sockname=('SOCKNAME', 1),
                    sockopt=OSError(opt, 'scripted') if isinstance(opt, int) else opt)
    line = 'odst %d %s' % (fam, ('e %d' % opt) if isinstance(opt, int) else ('b ' + hexb(opt)))
    try:
        r = env.methods.original_dst(sock)
    except OSError as e:
        return line, 'raised %d' % e.args[0], None
    except env.helpers.Fatal:
        return line, 'fatal', None
    except Exception as e:  # noqa
        return line, excname(e), None
    if r == ('SOCKNAME', 1):
        return line, 'sockname', None
    return line, 'ok %s %d' % (text_tok(r[0]), r[1]), r


def stream_odst(ctx, env, logs):
    rng = ctx.rng
    n4 = ctx.scale(3000, 150000)
    for a in v4_pool(rng, n4):
        p = port_of(rng)
        pad = bytes(rng.getrandbits(8) for _ in range(8)) if rng.random() < 0.3 else bytes(8)
        sa = sockaddr_in(p, a)[:8] + pad
        lvl = next_level(ctx)
        with at_level(lvl):
            line, out, r = odst_case(env, AF4, sa)
        logs.append(Log('odst4').add(line, out))
        if r is None or not same_dest(AF4, r[0], r[1], a, p):
            ctx.violation('C05:odst:destination-differs', case=dict(stream='odst', family=AF4, sockopt=hexb(sa),
                                                                     addr=hexb(a), port=p, verbose=lvl),
                          expected='%s port %d' % (ipaddress.ip_address(a), p), observed=out)
    for a in v6_pool(rng, ctx.scale(6, 150), ctx.scale(1500, 60000)):
        p = port_of(rng)
        flow = bytes(rng.getrandbits(8) for _ in range(4)) if rng.random() < 0.5 else bytes(4)
        scope = bytes(rng.getrandbits(8) for _ in range(4)) if rng.random() < 0.3 else bytes(4)
        sa = sockaddr_in6(p, a, flow, scope)
        lvl = next_level(ctx)
        with at_level(lvl):
            line, out, r = odst_case(env, AF6, sa)
        logs.append(Log('odst6').add(line, out))
        if r is None or not same_dest(AF6, r[0], r[1], a, p):
            ctx.violation('C05:odst:destination-differs', case=dict(stream='odst', family=AF6, sockopt=hexb(sa),
                                                                     addr=hexb(a), port=p, verbose=lvl),
                          expected='%s port %d' % (ipaddress.ip_address(a), p), observed=out)
    # error / malformed branches
    for fam in (AF4, AF6, 1, 17):
        for e in (errno.ENOPROTOOPT, errno.ENOENT, errno.EINVAL, errno.EBADF):
            with at_level(next_level(ctx)):
                line, out, _ = odst_case(env, fam, e)
            logs.append(Log('odst-err').add(line, out))
        for n in (0, 1, 7, 8, 9, 15, 16, 23, 24, 27, 28, 40, 64, 70):
            sa = bytes(rng.getrandbits(8) for _ in range(n))
            with at_level(next_level(ctx)):
                line, out, _ = odst_case(env, fam, sa)
            logs.append(Log('odst-short').add(line, out))


def stream_lib(ctx, env, logs):
    """CPython / libc text functions against the model's versions."""
    rng = ctx.rng
    for a in v6_pool(rng, ctx.scale(2, 20), ctx.scale(1000, 60000)):
        logs.append(Log('lib-ntop6').add('ntop %d %s' % (AF6, hexb(a)),
                                         'ok ' + text_tok(socket.inet_ntop(socket.AF_INET6, a))))
        logs.append(Log('lib-str6').add('str6 ' + hexb(a), text_tok(str(ipaddress.IPv6Address(a)))))
    for a in v4_pool(rng, ctx.scale(500, 5000)):
        logs.append(Log('lib-ntop4').add('ntop %d %s' % (AF4, hexb(a)),
                                         'ok ' + text_tok(socket.inet_ntop(socket.AF_INET, a))))
    for fam, n in ((AF4, 3), (AF4, 5), (AF6, 15), (AF6, 17), (AF6, 4), (1, 4), (AF4, 0)):
        b = bytes(rng.getrandbits(8) for _ in range(n))
        try:
            out = 'ok ' + text_tok(socket.inet_ntop(fam, b))
        except (ValueError, OSError):
            out = 'valueError'
        logs.append(Log('lib-ntop-bad').add('ntop %d %s' % (fam, hexb(b)), out))

    def pton(fam, t):
        tb = t.encode('latin-1') if isinstance(t, str) else t
        if b'\0' in tb:
            return None
        try:
            out = 'ok ' + hexb(socket.inet_pton(fam, tb.decode('latin-1')))
        except (OSError, ValueError, UnicodeError):
            out = 'err'
        logs.append(Log('lib-pton').add('pton %d %s' % (fam, hexb(tb)), out))
    fixed = ['01.2.3.4', '1.2.3.4 ', '1.2.3', '256.1.1.1', '1.2.3.4.5', '::ffff:1.2.3.4', '1::2::3', '::',
             '1:2:3:4:5:6:7:8', '1:2:3:4:5:6:7::', '::2:3:4:5:6:7:8', '0:0:0:0:0:0:0:0:0', '12345::',
             '1:2:3:4:5:6:1.2.3.4', '::1.2.3', '1.2.3.4::', ':1::2', '1::2:', '::01.2.3.4', 'FFFF::', 'g::',
             '1:2:3:4:5:6:7:8::', '::1:2:3:4:5:6:7:8', '1:2:3:4::5:6:7:8', '', ':', ':::', '1', '1.2.3.4',
             '0.0.0.0', '255.255.255.255', '1..2.3', '.1.2.3', '1.2.3.', '0x1.2.3.4', '1.2.3.256', '00.0.0.0',
             '1:2:3:4:5:6:7:1.2.3.4', '1:2:3:4:5::1.2.3.4', '1:2:3:4:5:6::1.2.3.4', '::a.b.c.d', '1:2:3:4:5:6:7',
             'AbCd::Ef01', '1::00000', '1::0000', '::1.2.3.4:5', '1:2:3:4:5:6:7:8:', ':1:2:3:4:5:6:7:8',
             '1.2.3.4:1::', '::1.2.3.4.', '::.1.2.3', '1:::', '::1::', '0000:0000:0000:0000:0000:0000:0000:0000',
             '1.2.3.04', '1.2.3.4\n', ' ::1', '::1 ', '+1.2.3.4', '1.2.3.-4', '999.1.1.1', '1.2.3.1000',
             '1:2:3:4:5:6:7.8.9.10', '::255.255.255.255', '::256.1.1.1', '::1.2.3.4.5']
    for t in fixed:
        for fam in (AF4, AF6, 1):
            pton(fam, t)
    alpha4 = '0123456789..'
    alpha6 = '0123456789abcdefABCDEF:::::..g'
    for _ in range(ctx.scale(6000, 500000)):
        if rng.random() < 0.4:
            t = ''.join(rng.choice(alpha4) for _ in range(rng.randrange(0, 16)))
            fam = rng.choice([AF4, AF4, AF6])
        else:
            # mutate a valid literal
            a = bytes(rng.getrandbits(8) if rng.random() < 0.6 else 0 for _ in range(16))
            t = socket.inet_ntop(socket.AF_INET6, a)
            if rng.random() < 0.3:
                t = str(ipaddress.IPv6Address(a).exploded)
            k = rng.randrange(0, 4)
            tl = list(t)
            for _ in range(k):
                op = rng.random()
                pos = rng.randrange(0, len(tl) + 1)
                if op < 0.4:
                    tl.insert(pos, rng.choice(alpha6))
                elif op < 0.7 and tl:
                    del tl[min(pos, len(tl) - 1)]
                elif tl:
                    tl[min(pos, len(tl) - 1)] = rng.choice(alpha6)
            t = ''.join(tl)
            fam = rng.choice([AF6, AF6, AF6, AF4])
        pton(fam, t)

    def pyint(t):
        try:
            out = 'ok %d' % int(t)
        except ValueError:
            out = 'valueError'
        logs.append(Log('lib-int').add('int ' + hexb(t), out))
    for t in [b'0', b'80', b' 80\n', b'+5', b'-5', b'-0', b'1_0', b'1__0', b'_1', b'1_', b'', b'+', b'-', b'1 2',
              b'+-1', b'0x1', b'\x1c1', b'- 1', b'+_1', b'007', b'65535', b'65536', b'\t\n\x0b\x0c\r 7 \t', b'7\xa0',
              b'1e3', b'1.0', b'1,2', b'\xd9\xa3', b'00_0', b'9' * 30, b' ', b'+ 1', b'1_2_3', b'12_']:
        pyint(t)
    al = b'0123456789_+- \n\tx'
    for _ in range(ctx.scale(1500, 40000)):
        pyint(bytes(rng.choice(al) for _ in range(rng.randrange(0, 8))))


def tcp_case(env, method_name, fam, addr, port, *, lport, islocal, chan='auto', fault=None, lay='F',
             flow_scope=False, src=None, bind='loop'):
    """One diverted TCP connection through the real client and server code.
    Returns (ins, outs, info) where info has what the oracle needs."""
    client = env.client
    want_ip = socket.inet_ntop(AF4 if len(addr) == 4 else AF6, addr)   # what a truthful kernel prints
    ins, outs = [], []
    src = src or (('192.0.2.9', 40000) if fam == AF4 else ('2001:db8::9', 40000, 0, 0))
    listen_ip = '127.0.0.1' if fam == AF4 else '::1'
    info = dict(frames=[], connects=[], closed=0, exc=None)

    if method_name == 'nat':
        method = env.nat.Method('nat')
        sa = sockaddr_in(port, addr) if fam == AF4 else sockaddr_in6(port, addr)
        opt = sa
        if fault == 'enoprotoopt':
            opt = OSError(errno.ENOPROTOOPT, 'scripted')
        sock = FakeSock(fam, sockname=(listen_ip, lport) + ((0, 0) if fam == AF6 else ()),
                        peername=src, sockopt=opt)
        line, out, r = odst_case(env, fam, errno.ENOPROTOOPT if fault == 'enoprotoopt' else sa)
        ins.append(line)
        outs.append(out)
        sock._sockopt = opt
        dst_text, dst_port = (want_ip, port) if fault is None else (listen_ip, lport)
        if fam == AF6 and fault is None:
            dst_text = str(ipaddress.IPv6Address(addr))
        sock_port = lport
    elif method_name in ('tproxy', 'ipfw'):
        method = (env.tproxy if method_name == 'tproxy' else env.ipfw).Method(method_name)
        sock = FakeSock(fam, sockname=(want_ip, port) + ((0, 0) if fam == AF6 else ()), peername=src)
        dst_text, dst_port = want_ip, port
        sock_port = port
    elif method_name == 'pf':
        method = env.pfm.Method('pf')
        layd = PF_LAYOUTS[lay]
        env.pfm.pf = pf_instance(env, lay)
        proxy = (listen_ip, lport) + ((0, 0) if fam == AF6 else ())
        peer = src
        if fault == 'peer-einval':
            peer = OSError(errno.EINVAL, 'scripted')
        elif fault == 'peer-other':
            peer = OSError(errno.ENOTCONN, 'scripted')
        sock = FakeSock(fam, sockname=proxy, peername=peer)
        pfile = PfFile(env, lay)
        method.set_firewall(types.SimpleNamespace(pfile=pfile))

        def kernel(raw):
            # the kernel's state table has exactly one entry: the diverted connection
            k = read_key(raw, layd)
            want = dict(af=fam, proto=6, direction=2,
                        saddr=socket.inet_pton(fam, src[0]), sport=src[1],
                        daddr=socket.inet_pton(fam, listen_ip), dport=lport)
            if fault == 'nat-miss' or k != want:
                return OSError(errno.ENOENT, 'No such file or directory')
            return addr, port, layd
        env.kernel = kernel
        info['pfile'] = pfile
        dst_text, dst_port = (want_ip, port) if fault is None else (listen_ip, lport)
        sock_port = lport
    else:
        raise ValueError(method_name)

    mux = env.client_mux(chani=0 if chan in ('auto', None) else chan - 1)
    if chan is None:
        mux.next_channel = lambda: None
    env.islocal_script = islocal
    env.islocal_calls = []
    handlers = []
    try:
        bip = BIND_ADDRS[bind][0 if fam == AF4 else 1]
        bound = (bip, lport) if fam == AF4 else (bip, lport, 0, 0)
        client.onaccept_tcp(FakeListener(sock, src, bound), method, mux, handlers)
    except Exception as e:  # noqa
        info['exc'] = e
    finally:
        env.pfm.pf = env.orig_pf
    info['closed'] = sock.closed
    info['frames'] = [f for f in frames_of(mux) if f[1] == env.ssnet.CMD_TCP_CONNECT]
    info['other_frames'] = [f for f in frames_of(mux) if f[1] != env.ssnet.CMD_TCP_CONNECT]
    info['islocal_calls'] = list(env.islocal_calls)

    # model lines for the pf dialogue
    if method_name == 'pf':
        pfile = info['pfile']
        if fault == 'peer-einval':
            ins.append('pfreq %d E %s %d' % (fam, text_tok(listen_ip), lport))
            outs.append('sockname')
        elif fault == 'peer-other':
            ins.append('pfreq %d O %s %d' % (fam, text_tok(listen_ip), lport))
            outs.append(excname(info['exc']) if info['exc'] else 'no-exception')
        else:
            ins.append('pfreq %d %s.%d %s %d' % (fam, text_tok(src[0]), src[1], text_tok(listen_ip), lport))
            outs.append('ask ' + hexb(pfile.requests[0]) if pfile.requests else 'no-request')
            if pfile.requests:
                kern = 'E' if fault == 'nat-miss' else '%s.%d' % (hexb(addr + bytes(16 - len(addr))), port)
                ins.append('pfcmd %s %s %s' % (lay, kern, hexb(pfile.cmd_lines[0].encode('latin-1'))))
                outs.append(pfile.cmd_outs[0])
                ins.append('pfreply ' + hexb(pfile.replies[0]))
                if fault == 'nat-miss':
                    outs.append('sockname')
                else:
                    outs.append('ok %s %d' % (text_tok(dst_text), dst_port))
    if info['exc'] is not None and not (method_name == 'pf' and fault == 'peer-other'):
        ins.append('accept %d %s %d %d %s %s' % (fam, text_tok(dst_text), dst_port, sock_port, islocal,
                                                 'N' if chan is None else (1 if chan == 'auto' else chan)))
        outs.append('raised')
    elif info['exc'] is None:
        ch = 'N' if chan is None else (1 if chan == 'auto' else chan)
        ins.append('accept %d %s %d %d %s %s' % (fam, text_tok(dst_text), dst_port, sock_port, islocal, ch))
        evs = []
        if sock.closed:
            evs.append('close')
        for (c, _cmd, payload) in info['frames']:
            evs.append('connect %d %s' % (c, hexb(payload)))
        outs.append(' '.join(evs))

    # server side: the real Mux.got_packet -> new_channel closure
    smux = env.smux
    for (c, cmd, payload) in info['frames']:
        env.reset_server()
        env.connects = []
        try:
            smux.got_packet(c, cmd, payload)
            so = None
        except Exception as e:  # noqa
            so = excname(e)
        ins.append('newchan ' + hexb(payload))
        if so is None and env.connects:
            f, ip, p = env.connects[0]
            outs.append('ok %d %s %d' % (f, text_tok(ip), p))
        else:
            outs.append(so or 'no-connect')
        info['connects'].extend(env.connects)
    smux.outbuf[:] = []
    return ins, outs, info


class PfFile:
    """The client's pipe to the helper; the helper side is the real firewall_command, fed the way
    firewall.main feeds it (readline(128), decode, strip -- re-created here because that reader is a
    closure inside firewall.main)."""

    def __init__(self, env, lay):
        self.env = env
        self.lay = lay
        self.requests = []
        self.cmd_lines = []
        self.cmd_outs = []
        self.replies = []
        self.pending = b''

    def write(self, b):
        self.requests.append(bytes(b))
        stdin = io.BytesIO(bytes(b))
        line = stdin.readline(128)
        line = line.decode('ASCII').strip()
        self.cmd_lines.append(line)
        method = self.env.pfm.Method('pf')
        old = sys.stdout
        sys.stdout = cap = io.StringIO()
        n0 = len(self.env.ioctl_seen)
        tag = None
        try:
            try:
                handled = method.firewall_command(line)
            except Exception as e:  # noqa
                tag = excname(e)
                handled = True
        finally:
            sys.stdout = old
        reply = cap.getvalue().encode('latin-1')
        key = '-'
        if len(self.env.ioctl_seen) > n0:
            key = show_key(read_key(self.env.ioctl_seen[-1], PF_LAYOUTS[self.lay]))
        if tag:
            self.cmd_outs.append(tag)
        elif not handled:
            self.cmd_outs.append('notMine')
        else:
            canon = reply
            if reply.startswith(b'QUERY_PF_NAT_FAILURE'):
                canon = b'QUERY_PF_NAT_FAILURE\n'
            self.cmd_outs.append('reply %s key=%s' % (hexb(canon), key))
        self.pending = reply
        self.replies.append(reply)

    def flush(self):
        pass

    def readline(self):
        i = self.pending.find(b'\n')
        if i < 0:
            r, self.pending = self.pending, b''
        else:
            r, self.pending = self.pending[:i + 1], self.pending[i + 1:]
        return r


def oracle_tcp(ctx, case, info, addr, port, is_self):
    """The property on what the real code did."""
    if info['exc'] is not None:
        return
    n_conn = len(info['frames'])
    if is_self:
        if n_conn or not info['closed']:
            ctx.violation('C05:self-guard:forwarded-to-itself', case=case,
                          expected='close and no CONNECT', observed=dict(closed=info['closed'], connects=n_conn))
        return
    if case.get('chan') is None and 'chan' in case:
        return
    if n_conn != 1 or info['closed'] or len(info['connects']) != 1:
        ctx.violation('C05:tcp:not-exactly-one-connect', case=case, expected='exactly one CONNECT reaching connect_dst',
                      observed=dict(closed=info['closed'], frames=n_conn, connects=[list(map(str, c)) for c in info['connects']]))
        return
    f, ip, p = info['connects'][0]
    if not same_dest(f, ip, p, addr, port):
        ctx.violation('C05:tcp:destination-differs', case=case,
                      expected='%s port %d' % (ipaddress.ip_address(addr), port),
                      observed='family=%d ip=%r port=%r' % (f, ip, p))


@leveled
def run_tcp(ctx, env, logs, case):
    addr = common.unhex(case['addr'])
    ins, outs, info = tcp_case(env, case['method'], case['family'], addr, case['port'], lport=case['lport'],
                               islocal=case['islocal'], chan=case.get('chan', 'auto'), fault=case.get('fault'),
                               lay=case.get('lay', 'F'), bind=case.get('bind', 'loop'))
    lg = Log('tcp-' + case['method'] + ('-' + case['fault'] if case.get('fault') else ''))
    lg.ins, lg.outs = ins, outs
    logs.append(lg)
    fault = case.get('fault')
    pfile = info.get('pfile')
    if pfile is not None and pfile.pending:
        ctx.violation('C05:pf:unread-line-left-on-helper-channel', case=case,
                      expected='one reply line per QUERY_PF_NAT, read by the client',
                      observed='helper wrote %r; left unread: %r' % (pfile.replies, pfile.pending),
                      note='a later query would take the leftover line as its answer')
    fallback = fault in ('enoprotoopt', 'peer-einval', 'nat-miss')
    ports_equal = fallback or case['method'] in ('tproxy', 'ipfw') or case['port'] == case['lport']
    exc_scripted = fault == 'peer-other' or (case['islocal'] == 'r' and ports_equal)
    if info['exc'] is not None and not exc_scripted:
        ctx.violation('C05:tcp:unexpected-exception', case=case,
                      expected='the connection is forwarded (one CONNECT) or dropped (close)',
                      observed=repr(info['exc']))
        return info
    if fallback:
        # the recovered destination is the proxy's own socket name: the property's second sentence
        is_self = case['islocal'] == 'y'
        if case['islocal'] == 'y':
            oracle_tcp(ctx, case, info, addr, case['port'], True)
        return info
    if case['method'] in ('tproxy', 'ipfw'):
        is_self = case['islocal'] == 'y'      # getsockname() *is* the destination: ports always equal
    else:
        is_self = case['port'] == case['lport'] and case['islocal'] == 'y'
    if case['islocal'] == 'r' and (case['method'] in ('tproxy', 'ipfw') or case['port'] == case['lport']):
        return info
    oracle_tcp(ctx, case, info, addr, case['port'], is_self)
    return info


def stream_tcp(ctx, env, logs):
    rng = ctx.rng
    n = ctx.scale(2500, 100000)
    v4 = v4_pool(rng, 200)
    v6 = v6_pool(rng, 1, 100)
    # connections to the proxy's own port on a local address, for every way the listener can be bound:
    # expected outcome is always "dropped, no CONNECT"
    local4 = [bytes([127, 0, 0, 1]), bytes([192, 168, 7, 5]), bytes([10, 0, 0, 1])]
    local6 = [socket.inet_pton(AF6, a) for a in ('::1', 'fd00::5', 'fe80::1')]
    for method in ('nat', 'pf', 'tproxy', 'ipfw'):
        for fam in (AF4, AF6):
            if method == 'ipfw' and fam == AF6:
                continue
            for bind in ('wild', 'loop', 'lan'):
                for addr in (local4 if fam == AF4 else local6):
                    lport = rng.choice([12300, 12299, 1, 65535])
                    case = dict(stream='tcp', method=method, family=fam, addr=hexb(addr), port=lport, lport=lport,
                                islocal='y', bind=bind, chan=rng.choice([1, 2, 300]))
                    if method == 'pf':
                        case['lay'] = rng.choice('FOD')
                    run_tcp(ctx, env, logs, case)
                    ctx.hist('tcp:self:%s:%s' % (method, bind))
    for i in range(n):
        method = rng.choice(['nat', 'nat', 'tproxy', 'pf', 'pf', 'ipfw'])
        fam = AF4 if (method == 'ipfw' or rng.random() < 0.45) else AF6
        addr = rng.choice(v4) if fam == AF4 else rng.choice(v6)
        lport = rng.choice([12300, 12299, 1, 65535, 80])
        r = rng.random()
        port = lport if r < 0.15 else port_of(rng)
        islocal = 'y' if rng.random() < 0.2 else 'n'
        if rng.random() < 0.03:
            islocal = 'r'
        case = dict(stream='tcp', method=method, family=fam, addr=hexb(addr), port=port, lport=lport, islocal=islocal,
                    bind=rng.choice(['wild', 'loop', 'lan']))
        if rng.random() < 0.5:
            case['chan'] = rng.choice([1, 2, 255, 256, 65535, rng.randrange(1, 65536)])
        elif rng.random() < 0.05:
            case['chan'] = None
        if method == 'pf':
            case['lay'] = rng.choice('FOD')
            if rng.random() < 0.15:
                case['fault'] = rng.choice(['peer-einval', 'peer-other', 'nat-miss'])
        if method == 'nat' and rng.random() < 0.08:
            case['fault'] = 'enoprotoopt'
        run_tcp(ctx, env, logs, case)
        ctx.hist('tcp:%s:%s' % (method, 'v4' if fam == AF4 else 'v6'))


def udp_case(env, le_cmsgs, fam, data, raw=False):
    """tproxy.recv_udp alone on one ancillary list (correspondence of the decoding).
    Returns (model input line, canonical output, result): the model is given what recvmsg()
    *delivered* into the buffer size the code asked for."""
    lst = FakeUdpListener(fam, (data, le_cmsgs, 0, ('192.0.2.9', 5353)), raw=raw)
    try:
        r = env.tproxy.recv_udp(lst, 4096)
        out = 'none' if r[1] is None else 'ok %s %d' % (text_tok(r[1][0]), r[1][1])
    except env.helpers.Fatal:
        out, r = 'fatal', None
    except Exception as e:  # noqa
        out, r = excname(e), None
    return cmsg_line('t', lst.delivered if lst.delivered is not None else le_cmsgs), out, r


def cmsg_line(method, cms):
    return 'cmsg %d %s %s' % (1 if LE else 0, method, ' '.join('%d.%d.%s' % (l, t, hexb(d)) for (l, t, d) in cms))


@leveled
def run_udp(ctx, env, logs, case):
    """One diverted datagram: real onaccept_udp (tproxy) -> real server udp_open/udp_req -> sendto."""
    client, ssnet = env.client, env.ssnet
    addr = common.unhex(case['addr'])
    port = case['port']
    fam = case['family']
    data = common.unhex(case['data'])
    if fam == AF4:
        cm = (int(socket.SOL_IP), 20, sockaddr_in(port, addr))
    else:
        cm = (41, 74, sockaddr_in6(port, addr))
    # what the kernel has for this datagram: the ORIGDSTADDR item first (the only one sshuttle
    # enables), possibly followed by items of options it did not ask for
    noise = [tuple(x) for x in case.get('noise', [])]
    cms = [cm] + [(l, t, common.unhex(d)) for (l, t, d) in noise]
    lg = Log('udp-tproxy')
    line, out, r = udp_case(env, cms, fam, data)
    lg.add(line, out)
    method = env.tproxy.Method('tproxy')
    mux = env.client_mux(chani=case.get('chan', 1) - 1)
    client.udp_by_src.clear()
    src = ('192.0.2.9', 5353) if fam == AF4 else ('2001:db8::9', 5353, 0, 0)
    lst = FakeUdpListener(fam, (data, cms, 0, src))
    exc = None
    try:
        client.onaccept_udp(lst, method, mux, [])
    except Exception as e:  # noqa
        exc = e
    client.udp_by_src.clear()
    frames = frames_of(mux)
    sends = []
    smux = env.smux
    env.reset_server()
    env.udp_sends = []
    want_text = socket.inet_ntop(fam, addr)
    for (c, cmd, payload) in frames:
        if cmd == ssnet.CMD_UDP_DATA:
            lg.add('udphdr %s %d %s' % (text_tok(want_text), port, hexb(data)), hexb(payload))
        try:
            smux.got_packet(c, cmd, payload)
            so = None
        except Exception as e:  # noqa
            so = excname(e)
        if cmd == ssnet.CMD_UDP_DATA:
            if so is None and env.udp_sends:
                f, dst, pl = env.udp_sends[-1]
                lg.add('udpreq ' + hexb(payload), 'ok %s %d %s' % (text_tok(dst[0]), dst[1], hexb(pl)))
            else:
                lg.add('udpreq ' + hexb(payload), so or 'no-send')
    sends = list(env.udp_sends)
    env.reset_server()
    smux.outbuf[:] = []
    logs.append(lg)
    ok = exc is None and len(sends) == 1
    if ok:
        f, dst, pl = sends[0]
        ok = same_dest(f, dst[0], dst[1], addr, port) and pl == data
    if not ok:
        ctx.violation('C05:udp:destination-differs', case=case,
                      expected='one sendto(%r, (%s, %d)) on a family-%d socket' % (data[:16], want_text, port, fam),
                      observed=dict(exc=repr(exc), sends=[(f, repr(d), hexb(p)[:40]) for f, d, p in sends]))
    return sends


def next_free(mux, ssnet):
    """What mux.next_channel() will return (same walk, no side effect)."""
    c = mux.chani
    for _ in range(1024):
        c += 1
        if c > ssnet.MAX_CHANNEL:
            c = 1
        if not mux.channels.get(c):
            return c
    return None


@leveled
def run_udp_seq(ctx, env, logs, case):
    """Several datagrams through one client / one server: sources may repeat, and a repeated source
    may address a different destination each time (one unconnected socket, several sendto())."""
    client, ssnet = env.client, env.ssnet
    fam = case['family']
    srcs = [('192.0.2.%d' % (9 + i), 5353 + i) if fam == AF4 else ('2001:db8::%x' % (9 + i), 5353 + i, 0, 0)
            for i in range(4)]
    method = env.tproxy.Method('tproxy')
    mux = env.client_mux(chani=case.get('chan', 1) - 1)
    client.udp_by_src.clear()
    env.reset_server()
    env.udp_sends = []
    lg = Log('udp-seq')
    lg.add('udpnew', 'ok')
    bad = None
    clock = [case.get('t0', 1000)]
    real_time = client.time
    client.time = types.SimpleNamespace(time=lambda: float(clock[0]))     # the clock is an input
    try:
        for i, d in enumerate(case['dgrams']):
            clock[0] += d.get('dt', 0)
            addr, port, data = common.unhex(d['addr']), d['port'], common.unhex(d['data'])
            cm = (int(socket.SOL_IP), 20, sockaddr_in(port, addr)) if fam == AF4 else (41, 74, sockaddr_in6(port, addr))
            lst = FakeUdpListener(fam, (data, [cm], 0, srcs[d['src']]))
            mux.outbuf[:] = []
            live_before = {srcs.index(k) for k in client.udp_by_src if k in srcs}
            fresh = next_free(mux, ssnet)
            if d.get('nochan'):
                fresh = None
                mux.next_channel = lambda: None
            exc = None
            try:
                client.onaccept_udp(lst, method, mux, [])
            except Exception as e:  # noqa
                exc = e
            if d.get('nochan'):
                del mux.next_channel
            frames = frames_of(mux)
            evs = []
            for (c, cmd, payload) in frames:
                if cmd == ssnet.CMD_UDP_OPEN:
                    evs.append('open %d %s' % (c, hexb(payload)))
                elif cmd == ssnet.CMD_UDP_DATA:
                    evs.append('data %d %s' % (c, hexb(payload)))
                elif cmd == ssnet.CMD_UDP_CLOSE and not payload:
                    evs.append('close %d' % c)
                else:
                    evs.append('cmd%d %d %s' % (cmd, c, hexb(payload)))
            if exc is not None:
                evs.append(excname(exc))
            lg.add('udpacc %d %d %s %d %s %s %d' % (fam, d['src'], text_tok(socket.inet_ntop(fam, addr)), port,
                                                     hexb(data), 'N' if fresh is None else fresh, clock[0]),
                   ' '.join(evs) or '-')
            n0 = len(env.udp_sends)
            for (c, cmd, payload) in frames:
                try:
                    env.smux.got_packet(c, cmd, payload)
                except Exception as e:  # noqa
                    exc = exc or e
            new = env.udp_sends[n0:]
            known = d['src'] in live_before
            if d.get('nochan') and not known:
                d['dropped'] = True
                ok = exc is None and not new
                want = 'no free flow id: datagram dropped, nothing sent'
            else:
                ok = exc is None and len(new) == 1 and same_dest(new[0][0], new[0][1][0], new[0][1][1], addr, port) \
                    and new[0][2] == data
                want = 'one sendto(%r, (%s, %d)) on a family-%d socket' % (data[:16], socket.inet_ntop(fam, addr), port, fam)
            if not ok and bad is None:
                bad = dict(datagram=i, expected=want,
                           observed=dict(exc=repr(exc), sends=[(f, repr(dst), hexb(p)[:40]) for f, dst, p in new]))
    finally:
        client.time = real_time
        client.udp_by_src.clear()
        env.reset_server()
    for d in case['dgrams']:
        d.pop('dropped', None)
    logs.append(lg)
    if bad is not None:
        ctx.violation('C05:udpseq:destination-differs', case=case, expected=bad['expected'],
                      observed=dict(datagram=bad['datagram'], **bad['observed']),
                      note='datagram #%d of the sequence' % bad['datagram'])
    return bad


def stream_udp_seq(ctx, env, logs):
    rng = ctx.rng
    v4 = v4_pool(rng, 60)
    v6 = v6_pool(rng, 1, 30)
    for k in range(ctx.scale(400, 20000)):
        fam = AF4 if rng.random() < 0.5 else AF6
        pool = v4 if fam == AF4 else v6
        nsrc = rng.choice([1, 1, 2, 3])
        dgrams = []
        base = (rng.choice(pool), port_of(rng))
        for _ in range(rng.randrange(2, 6)):
            r = rng.random()
            if r < 0.25:
                dst = base                                    # same destination again
            elif r < 0.5:
                dst = (base[0], port_of(rng))                 # same host, other port
            elif r < 0.75:
                dst = (rng.choice(pool), base[1])             # other host, same port
            else:
                dst = (rng.choice(pool), port_of(rng))
            data = bytes(rng.choice(b',0123456789ab') for _ in range(rng.randrange(0, 8)))
            d = dict(src=rng.randrange(nsrc), addr=hexb(dst[0]), port=dst[1], data=hexb(data),
                     dt=rng.choice([0, 0, 0, 1, 7, 29, 30, 31, 31, 45, 90]))   # around the 30 s association lifetime
            if rng.random() < 0.04:
                d['nochan'] = True
            dgrams.append(d)
        case = dict(stream='udpseq', family=fam, chan=rng.choice([1, 2, 256, 65534, 65535]), dgrams=dgrams)
        run_udp_seq(ctx, env, logs, case)
        ctx.hist('udpseq:%s:%dsrc' % ('v4' if fam == AF4 else 'v6', nsrc))


def real_origdst(env, fam):
    """The real tproxy.recv_udp on a real loopback UDP socket with IP(V6)_RECVORIGDSTADDR: the
    destination it recovers must be the address and port the sender addressed."""
    lvl, opt, host = (socket.SOL_IP, 20, '127.0.0.1') if fam == AF4 else (41, 74, '::1')
    r = socket.socket(fam, socket.SOCK_DGRAM)
    s = socket.socket(fam, socket.SOCK_DGRAM)
    try:
        r.setsockopt(lvl, opt, 1)
        r.bind((host, 0))
        r.settimeout(2)
        want = r.getsockname()[:2]
        s.sendto(b'probe,1', want)
        try:
            res = env.tproxy.recv_udp(r, 4096)
            got, exc = res[1], None
        except Exception as e:  # noqa
            got, exc = None, e
        return want, got, exc
    finally:
        r.close()
        s.close()


def validate_recvmsg_fake(ctx):
    """kernel_ancillary() against the real kernel for several control-buffer sizes."""
    for fam, lvl, opt, host in ((AF4, socket.SOL_IP, 20, '127.0.0.1'), (AF6, 41, 74, '::1')):
        r = socket.socket(fam, socket.SOCK_DGRAM)
        s = socket.socket(fam, socket.SOCK_DGRAM)
        try:
            r.setsockopt(lvl, opt, 1)
            r.bind((host, 0))
            r.settimeout(2)
            for n in (0, 4, 8, 15, 16, 17, 24, 27, 28, 40):
                s.sendto(b'x', r.getsockname()[:2])
                _d, full, _f, _s = r.recvmsg(16, 256)
                s.sendto(b'x', r.getsockname()[:2])
                _d, anc, fl, _s = r.recvmsg(16, socket.CMSG_SPACE(n))
                fake, ffl = kernel_ancillary(full, socket.CMSG_SPACE(n))
                real = [(int(a), int(b), bytes(c)) for a, b, c in anc]
                fake = [(int(a), int(b), bytes(c)) for a, b, c in fake]
                if real != fake or bool(fl & socket.MSG_CTRUNC) != bool(ffl & socket.MSG_CTRUNC):
                    ctx.corr_break('recvmsg-fake', case=dict(family=fam, ancsize=socket.CMSG_SPACE(n)),
                                   impl=repr(real), model=repr(fake),
                                   note='the harness fake of recvmsg() truncation differs from the kernel')
            ctx.hist('recvmsg-fake-validated:%s' % ('v4' if fam == AF4 else 'v6'))
        finally:
            r.close()
            s.close()


def run_udp_real(ctx, env, case):
    fam = case['family']
    if 'verbose' not in case:
        case['verbose'] = next_level(ctx)
    with at_level(case['verbose']):
        want, got, exc = real_origdst(env, fam)
    ok = exc is None and got is not None and same_dest(fam, got[0], got[1], socket.inet_pton(fam, want[0]), want[1])
    if not ok:
        ctx.violation('C05:udp:real-socket-destination-lost', case=case,
                      expected='recv_udp recovers (%s, %d), the address the datagram was sent to' % want,
                      observed='dstip=%r exception=%r' % (got, exc),
                      note='real loopback socket with IP(V6)_RECVORIGDSTADDR, real kernel recvmsg()')
    return want, got, exc


def stream_udp_real(ctx, env):
    try:
        validate_recvmsg_fake(ctx)
        for fam in (AF4, AF6):
            for _ in range(3):
                ctx.count()
                run_udp_real(ctx, env, dict(stream='udp-real', family=fam))
                ctx.hist('udp-real:%s' % ('v4' if fam == AF4 else 'v6'))
    except OSError as e:
        ctx.notes.append('real-socket ORIGDSTADDR run not possible here: %r' % (e,))


def stream_udp(ctx, env, logs):
    rng = ctx.rng
    v4 = v4_pool(rng, 120)
    v6 = v6_pool(rng, 1, 60)
    for _ in range(ctx.scale(2000, 80000)):
        fam = AF4 if rng.random() < 0.5 else AF6
        addr = rng.choice(v4) if fam == AF4 else rng.choice(v6)
        kind = rng.random()
        if kind < 0.3:
            data = bytes(rng.choice(b',0123456789.:') for _ in range(rng.randrange(0, 12)))   # commas in the payload
        elif kind < 0.4:
            data = b''
        else:
            data = bytes(rng.getrandbits(8) for _ in range(rng.randrange(0, 40)))
        case = dict(stream='udp', family=fam, addr=hexb(addr), port=port_of(rng), data=hexb(data),
                    chan=rng.choice([1, 2, 256, 65535]))
        if rng.random() < 0.3:
            case['noise'] = [[rng.choice([0, 1, 41]), rng.choice([8, 20, 74, 2]), hexb(bytes(rng.randrange(0, 6)))]]
            # keep the noise from matching a recognised (level, type)
            case['noise'] = [n for n in case['noise'] if (n[0], n[1]) not in ((int(socket.SOL_IP), 20), (41, 74))]
        run_udp(ctx, env, logs, case)
        ctx.hist('udp:%s' % ('v4' if fam == AF4 else 'v6'))
    # decoding alone: malformed / foreign ancillary data (the level rotates here too)
    helpers_mod = env.helpers
    for _ in range(ctx.scale(1000, 50000)):
        items = []
        for _ in range(rng.randrange(0, 3)):
            lvl = rng.choice([int(socket.SOL_IP), 41, 1])
            typ = rng.choice([20, 74, 7, 8])
            n = rng.choice([0, 3, 4, 7, 8, 16, 23, 24, 28, 30])
            d = bytearray(rng.getrandbits(8) for _ in range(n))
            if n >= 2 and rng.random() < 0.7:
                d[0:2] = u16_native(rng.choice([AF4, AF6]))
            items.append((lvl, typ, bytes(d)))
        raw = rng.random() < 0.5      # half: the decoding loop on the untouched list; half: through the buffer
        helpers_mod.verbose = next_level(ctx)
        line, out, _r = udp_case(env, items, AF4, b'x', raw=raw)
        logs.append(Log('cmsg-tproxy').add(line, out))
        lst = FakeUdpListener(AF4, (b'x', items, 0, ('192.0.2.9', 5353)), raw=raw)
        try:
            r = env.ipfw.recv_udp(lst, 4096)
            out = 'none' if r[1] is None else 'ok %s %d' % (text_tok(r[1][0]), r[1][1])
        except Exception as e:  # noqa
            out = excname(e)
        logs.append(Log('cmsg-ipfw').add(cmsg_line('i', lst.delivered if lst.delivered is not None else items), out))
    helpers_mod.verbose = 0


# ---------------------------------------------------------------- pf: whole sessions over the helper channel

class HelperProc:
    """Stands in for subprocess.Popen(<sshuttle --firewall>): the real firewall.main('pf') loop runs in a
    thread on the socket the real FirewallClient handed over as the child's stdin/stdout."""

    def __init__(self, firewall, chan_sock):
        self.pid = 4243
        self.returncode = None
        self.exc = None
        hs = chan_sock.dup()
        hs.settimeout(None)
        self.hs = hs
        self.rf = hs.makefile('rb')
        self.wf = hs.makefile('wb')
        self.firewall = firewall
        firewall.setup_daemon = lambda: (self.rf, self.wf)
        self.t = threading.Thread(target=self._run, daemon=True)
        self.t.start()

    def _run(self):
        rc = 0
        try:
            self.firewall.main('pf', False)
        except BaseException as e:  # noqa  (Fatal, OSError from the hosts rewrite, SystemExit)
            self.exc = e
            rc = 1
        finally:
            for f in (self.rf, self.wf):
                try:
                    f.close()
                except Exception:  # noqa
                    pass
            try:
                self.hs.shutdown(socket.SHUT_RDWR)
            except OSError:
                pass
            self.hs.close()
            self.returncode = rc

    def poll(self):
        return None if self.t.is_alive() else self.returncode

    def wait(self, timeout=None):
        self.t.join(timeout if timeout is not None else 10)
        return self.returncode


class RecFile:
    """Observation only: what the client wrote to / read from the helper channel."""

    def __init__(self, f):
        self.f = f
        self.reads = []
        self.writes = []

    def write(self, b):
        self.writes.append(bytes(b))
        return self.f.write(b)

    def flush(self):
        return self.f.flush()

    def readline(self, *a):
        l = self.f.readline(*a)
        self.reads.append(bytes(l))
        return l

    def close(self):
        return self.f.close()


@leveled
def run_pf_session(ctx, env, logs, case):
    """The real FirewallClient and the real firewall.main('pf') loop joined by a socket pair: HOST lines
    (some of whose hosts-file rewrite fails at chown) interleaved with accepted connections."""
    import sshuttle.firewall as firewall
    client, pfm, helpers = env.client, env.pfm, env.helpers
    lport = case['lport']
    proxy_ip = '127.0.0.1'
    layd = PF_LAYOUTS['F']
    tmp = tempfile.mkdtemp(prefix='c05sess')
    hostsfile = os.path.join(tmp, 'hosts')
    with open(hostsfile, 'w') as f:
        f.write('127.0.0.1 localhost\n')
    fail_names = set()
    states = {}

    misses = {}

    def kernel(raw):
        k = read_key(raw, layd)
        key = (k['af'], k['proto'], k['direction'], bytes(k['saddr']), k['sport'], bytes(k['daddr']), k['dport'])
        if key not in states or misses.get(key, 0) > 0:
            if key in misses:
                misses[key] -= 1               # the state becomes visible after `miss` failed lookups
            return OSError(errno.ENOENT, 'No such file or directory')
        a, p = states[key]
        return a, p, layd

    fake_os = types.ModuleType('os')
    fake_os.__dict__.update(os.__dict__)

    def chown(path, uid, gid):
        # the OS refuses to touch the new hosts file when it holds a name scripted to fail
        with open(path) as f:
            txt = f.read()
        if any((' %s ' % n) in txt for n in fail_names):
            raise OSError(errno.EPERM, 'Operation not permitted')
    fake_os.chown = chown

    class FakeSubprocess:
        PIPE = -1

        @staticmethod
        def call(argv, **kw):
            return 1
    procs = []

    class ClientSubprocess:
        PIPE = -1

        @staticmethod
        def Popen(argv, stdout=None, stdin=None, env=None, preexec_fn=None):
            p = HelperProc(firewall, stdout)
            procs.append(p)
            return p

    saved = []

    def patch(obj, name, val):
        saved.append((obj, name, getattr(obj, name)))
        setattr(obj, name, val)

    class HelperStdout:
        # in the helper process fd 1 *is* the channel; pf.firewall_command prints its replies there
        def write(self, text):
            procs[-1].wf.write(text.encode('ASCII'))

        def flush(self):
            procs[-1].wf.flush()
    fake_sys = types.ModuleType('sys')
    fake_sys.__dict__.update(sys.__dict__)
    fake_sys.stdout = HelperStdout()
    patch(pfm, 'sys', fake_sys)
    patch(pfm, 'pf', pf_instance(env, 'F'))
    patch(pfm, 'pfctl', lambda args, stdin=None: (b'', b''))
    patch(pfm, 'ssubprocess', FakeSubprocess)
    patch(pfm, 'which', lambda name: '/sbin/' + name)
    patch(firewall, 'setup_daemon', firewall.setup_daemon)
    patch(firewall, 'flush_systemd_dns_cache', lambda: None)
    patch(firewall, 'HOSTSFILE', hostsfile)
    patch(firewall, 'os', fake_os)
    patch(client, 'is_admin_user', lambda: True)
    patch(client, 'ssubprocess', ClientSubprocess)
    patch(helpers, 'logprefix', helpers.logprefix)
    old_kernel, env.kernel = env.kernel, kernel
    env.islocal_script = lambda ip: 'y' if ip == proxy_ip else 'n'
    old_timeout = socket.getdefaulttimeout()
    socket.setdefaulttimeout(5)
    lg = Log('pf-session')
    lg.add('sess new', 'ok')
    bad = None
    bads = []
    fw = None
    try:
        fw = client.FirewallClient('pf', False)
        fw.setup([(AF4, '0.0.0.0', 0, 0, 0)], [], [], 0, lport, 0, 0, False, None, None, '0x01')
        fw.start()
        rec = RecFile(fw.pfile)
        fw.pfile = rec
        proc = procs[-1]
        for i, op in enumerate(case['ops']):
            if op[0] == 'host':
                _, name, ip, fails = op
                if fails:
                    fail_names.add(name)
                try:
                    fw.sethostip(name.encode(), ip.encode())
                except OSError as e:
                    proc.wait(1.0)
                    if proc.poll() is not None:
                        break                      # the helper has ended: the client stops here
                    raise e
                lg.add('sess host %d' % (1 if fails else 0), '-')
                continue
            sport, addr_hex, port = op[1], op[2], op[3]
            miss = op[4] if len(op) > 4 else 0      # how many lookups of this flow fail with ENOENT first
            addr = common.unhex(addr_hex)
            src = ('10.0.0.7', sport)
            skey = (AF4, 6, 2, socket.inet_pton(AF4, src[0]), sport, socket.inet_pton(AF4, proxy_ip), lport)
            states[skey] = (addr, port)
            if miss:
                misses[skey] = miss
            sock = FakeSock(AF4, sockname=(proxy_ip, lport), peername=src)
            mux = env.client_mux(chani=i)
            n_reads = len(rec.reads)
            exc = None
            try:
                client.onaccept_tcp(FakeListener(sock, src, ('0.0.0.0', lport)), fw.method, mux, [])
            except Exception as e:  # noqa
                exc = e
            frames = [f for f in frames_of(mux) if f[1] == env.ssnet.CMD_TCP_CONNECT]
            connects = []
            for (c, cmd, payload) in frames:
                env.reset_server()
                env.connects = []
                try:
                    env.smux.got_packet(c, cmd, payload)
                except Exception as e:  # noqa
                    exc = exc or e
                connects.extend(env.connects)
            env.reset_server()
            if not frames and not (miss and exc is None and rec.reads[n_reads:] and rec.reads[-1]):
                proc.wait(1.0)                       # dropped / failed without a reply line: has the helper gone?
            helper_alive = proc.poll() is None
            if isinstance(exc, OSError) and not helper_alive and not frames:
                break                                # write to the ended helper failed: the client stops here
            want_reply = b'QUERY_PF_NAT_SUCCESS %s,%d\n' % (socket.inet_ntop(AF4, addr).encode(), port)
            if miss:
                want_reply = b'QUERY_PF_NAT_FAILURE [Errno 2] No such file or directory\n'
            got = rec.reads[n_reads:]
            lg.add('sess query ' + hexb(want_reply),
                   ('line ' + hexb(got[0]) if got and got[0] else 'eof') if len(got) == 1 else 'reads=%d' % len(got))
            what = None
            if exc is not None:
                what = ('C05:pf-session:unexpected-exception', repr(exc))
            elif len(connects) > 1 or any(not same_dest(f, ip, p, addr, port) for f, ip, p in connects):
                what = ('C05:pf-session:destination-differs', 'connect_dst calls %r' % (connects,))
            elif not connects and helper_alive and not miss:
                what = ('C05:pf-session:dropped-while-helper-alive',
                        'closed=%d, no CONNECT, helper still running; the client read %r' % (sock.closed, got))
            if what and what[0] not in [b_['key'] for b_ in bads]:     # every connection is judged on its own
                bads.append(dict(key=what[0], op=i,
                                 expected='one CONNECT to %s port %d (or, once the helper has ended, a drop)'
                                 % (ipaddress.ip_address(addr), port), observed=what[1]))
                bad = bad or bads[0]
    except Exception as e:  # noqa
        if bad is None:
            bad = dict(key='C05:pf-session:unexpected-exception', op=-1, expected='the session runs', observed=repr(e))
    finally:
        socket.setdefaulttimeout(old_timeout)
        try:
            if fw is not None:
                fw.pfile.close()
            for p in procs:
                p.wait(3)
        except Exception:  # noqa
            pass
        env.kernel = old_kernel
        for obj, name, val in reversed(saved):
            setattr(obj, name, val)
        shutil.rmtree(tmp, ignore_errors=True)
    logs.append(lg)
    if bad is not None and not bads:
        bads = [bad]
    for b_ in bads:
        ctx.violation(b_['key'], case=case, expected=b_['expected'],
                      observed=dict(op=b_['op'], what=b_['observed']),
                      note='op #%d of the session (real FirewallClient <-> real firewall.main over a socket pair)' % b_['op'])
    return bad


def stream_pf_session(ctx, env, logs):
    rng = ctx.rng
    v4 = [a for a in v4_pool(rng, 80) if a[0] not in (0, 127) and a != b'\xff' * 4]
    names = ['alpha.example', 'beta', 'gamma-1.example', 'delta_2', 'eps.example']
    for k in range(ctx.scale(25, 600)):
        ops = []
        sport = 50000
        nfail = 0
        for _ in range(rng.randrange(3, 9)):
            if rng.random() < 0.35:
                fails = rng.random() < 0.3
                nfail += fails
                ops.append(['host', rng.choice(names), '10.9.0.%d' % rng.randrange(1, 255), bool(fails)])
            else:
                sport += 1
                op = ['conn', sport, hexb(rng.choice(v4)), port_of(rng)]
                if rng.random() < 0.2:
                    op.append(rng.choice([1, 1, 2, 3]))      # the kernel lookup fails that many times first
                ops.append(op)
        if k % 3 == 1:                                 # a transient lookup failure followed by more connections
            sport += 1
            ops.insert(rng.randrange(0, len(ops)), ['conn', sport, hexb(rng.choice(v4)), port_of(rng), rng.choice([1, 2])])
            for _ in range(2):
                sport += 1
                ops.append(['conn', sport, hexb(rng.choice(v4)), port_of(rng)])
        if k % 3 == 0:                                 # always some sessions with a failing rewrite in the middle
            ops.insert(rng.randrange(1, len(ops)), ['host', 'zeta.example', '10.9.1.1', True])
            sport += 1
            ops.append(['conn', sport, hexb(rng.choice(v4)), port_of(rng)])
            sport += 1
            ops.append(['conn', sport, hexb(rng.choice(v4)), port_of(rng)])
        case = dict(stream='pf-session', lport=rng.choice([12300, 12299, 1024]), ops=ops)
        run_pf_session(ctx, env, logs, case)
        ctx.hist('pf-session:%s' % ('with-failing-rewrite' if any(o[0] == 'host' and o[3] for o in ops) else 'plain'))


def stream_server_malformed(ctx, env, logs):
    """The real server closures on payloads no client of this version sends."""
    rng = ctx.rng
    ssnet = env.ssnet
    smux = env.smux
    fixed = [b'', b',', b',,', b',,,', b'2,1.2.3.4', b'2,1.2.3.4,80,9', b'x,1.2.3.4,80', b'2,1.2.3.4,x',
             b'10,::1,80', b'30,::1,80', b'28,::1,80', b' 2 ,1.2.3.4, 80\n', b'+2,1.2.3.4,+80', b'-2,a,-80',
             b'2,\xff,80', b'\xc3\xa9,1,1', b'02,1.2.3.4,0080', b'2_0,h,8_0', b'2,,80', b'2,a,b,c', b'0,x,0']
    al = b'0123456789,,,.:a- _\n+'
    cases = list(fixed)
    for _ in range(ctx.scale(1500, 30000)):
        cases.append(bytes(rng.choice(al) for _ in range(rng.randrange(0, 14))))
    for payload in cases:
        env.helpers.verbose = next_level(ctx)
        env.reset_server()
        env.connects = []
        try:
            smux.got_packet(5, ssnet.CMD_TCP_CONNECT, payload)
            out = 'ok %d %s %d' % (env.connects[0][0], text_tok(env.connects[0][1]), env.connects[0][2])
        except Exception as e:  # noqa
            out = excname(e)
        logs.append(Log('server-connect-malformed').add('newchan ' + hexb(payload), out))
        # udp_req
        env.reset_server()
        env.udp_sends = []
        smux.got_packet(6, ssnet.CMD_UDP_OPEN, b'%d' % AF4)
        try:
            smux.got_packet(6, ssnet.CMD_UDP_DATA, payload)
            f, dst, pl = env.udp_sends[-1]
            out = 'ok %s %d %s' % (text_tok(dst[0]), dst[1], hexb(pl))
        except Exception as e:  # noqa
            out = excname(e)
        logs.append(Log('server-udp-malformed').add('udpreq ' + hexb(payload), out))
    env.reset_server()
    smux.outbuf[:] = []
    env.helpers.verbose = 0


def stream_pf_malformed(ctx, env, logs):
    rng = ctx.rng
    method = env.pfm.Method('pf')
    fixed = [b'QUERY_PF_NAT_SUCCESS 1.2.3.4,80\n', b'QUERY_PF_NAT_SUCCESS 1.2.3.4,80', b'QUERY_PF_NAT_SUCCESS ::1,8080\n',
             b'QUERY_PF_NAT_FAILURE nope\n', b'', b'\n', b'QUERY_PF_NAT_SUCCESS \n', b'QUERY_PF_NAT_SUCCESS 1.2.3.4\n',
             b'QUERY_PF_NAT_SUCCESS 1,2,3\n', b'QUERY_PF_NAT_SUCCESS a,b\n', b'QUERY_PF_NAT_SUCCESS \xff,1\n',
             b'QUERY_PF_NAT_SUCCESS', b'QUERY_PF_NAT_SUCCES 1.2.3.4,80\n', b'QUERY_PF_NAT_SUCCESS 1.2.3.4, 80 \n',
             b'QUERY_PF_NAT_SUCCESS 1.2.3.4,-1\n', b'QUERY_PF_NAT_SUCCESS ,\n']
    al = b'0123456789,,.: \n-'
    for _ in range(ctx.scale(500, 5000)):
        fixed.append(b'QUERY_PF_NAT_SUCCESS ' + bytes(rng.choice(al) for _ in range(rng.randrange(0, 12))))
    for line in fixed:
        env.helpers.verbose = next_level(ctx)
        sock = FakeSock(AF4, sockname=('SOCKNAME', 1), peername=('10.0.0.1', 1234))
        pfile = types.SimpleNamespace(write=lambda b: None, flush=lambda: None, readline=lambda line=line: line)
        method.set_firewall(types.SimpleNamespace(pfile=pfile))
        try:
            r = method.get_tcp_dstip(sock)
            out = 'sockname' if r == ('SOCKNAME', 1) else 'ok %s %d' % (text_tok(r[0]), r[1])
        except Exception as e:  # noqa
            out = excname(e)
        logs.append(Log('pf-reply-malformed').add('pfreply ' + hexb(line), out))
    # helper side on odd command lines
    cmds = ['QUERY_PF_NAT 2,6,10.0.0.1,1234,10.0.0.2,80', 'QUERY_PF_NAT 2,6,10.0.0.1,1234,10.0.0.2', 'QUERY_PF_NAT ',
            'QUERY_PF_NAT 2,6,10.0.0.1,1234,10.0.0.2,80,9', 'QUERY_PF_NAT 2,6,10.0.0.1,x,10.0.0.2,80',
            'QUERY_PF_NAT 2,6,10.0.0.300,1234,10.0.0.2,80', 'QUERY_PF_NAT 99,6,10.0.0.1,1234,10.0.0.2,80',
            'QUERY_PF_NAT 2,6,10.0.0.1,65536,10.0.0.2,80', 'QUERY_PF_NAT 2,6,10.0.0.1,-1,10.0.0.2,80',
            'QUERY_PF_NAT 10,6,::1,1234,fe80::2,80', 'QUERY_PF_NAT 10,6,::1,1234,10.0.0.2,80', 'HOST a,b', 'GO 1',
            'QUERY_PF_NAT 2,6, 10.0.0.1,1234,10.0.0.2,80', 'QUERY_PF_NAT -2,6,10.0.0.1,1234,10.0.0.2,80',
            'QUERY_PF_NAT 2,6,10.0.0.1,+1234,10.0.0.2, 80', 'QUERY_PF_NAT 2,17,10.0.0.1,1,10.0.0.2,65535']
    for lay in 'FOD':
        for cmd in cmds:
            for kern in ('E', (bytes([1, 2, 3, 4]), 80)):
                env.helpers.verbose = next_level(ctx)
                env.pfm.pf = pf_instance(env, lay)
                layd = PF_LAYOUTS[lay]
                env.kernel = (lambda raw: OSError(errno.ENOENT, 'x')) if kern == 'E' else \
                    (lambda raw, kern=kern, layd=layd: (kern[0], kern[1], layd))
                pfile = PfFile(env, lay)
                try:
                    pfile.write((cmd + '\n').encode())
                finally:
                    env.pfm.pf = env.orig_pf
                k = 'E' if kern == 'E' else '%s.%d' % (hexb(kern[0] + bytes(12)), kern[1])
                logs.append(Log('pf-cmd').add('pfcmd %s %s %s' % (lay, k, hexb(pfile.cmd_lines[0].encode('latin-1'))),
                                              pfile.cmd_outs[0]))


def _reset_level(env):
    env.helpers.verbose = 0


def real_islocal_probe(ctx, env):
    """A few calls of the *real* islocal (it only binds an unconnected socket)."""
    import sshuttle.helpers as helpers
    try:
        a = helpers.islocal('127.0.0.1', socket.AF_INET)
        b = helpers.islocal('203.0.113.77', socket.AF_INET)
        ctx.notes.append('real islocal: 127.0.0.1 -> %s, 203.0.113.77 -> %s' % (a, b))
    except Exception as e:  # noqa
        ctx.notes.append('real islocal probe not possible here: %r' % (e,))


def compare(ctx, logs):
    if not ctx.model_available:
        ctx.notes.append('model driver unavailable: correspondence skipped, oracle only')
        return
    ins = []
    for lg in logs:
        ins.extend(lg.ins)
    outs = common.LeanBatch('C05').run(ins)
    if len(outs) != len(ins):
        ctx.corr_break('C05', case=None, impl='%d lines' % len(ins), model='%d lines' % len(outs),
                       note='driver output length differs')
        return
    pos = 0
    for lg in logs:
        n = len(lg.ins)
        mo = outs[pos:pos + n]
        pos += n
        if mo != lg.outs:
            i = next(k for k in range(n) if mo[k] != lg.outs[k])
            ctx.corr_break(lg.kind, case=lg.ins[:i + 1], impl=lg.outs[i], model=mo[i])
            if len(ctx.corr_breaks) > 20:
                return


def run(ctx):
    env = Env()
    logs = []
    old_err = sys.stderr
    sys.stderr = NullSink()
    try:
        stream_odst(ctx, env, logs)
        stream_lib(ctx, env, logs)
        stream_tcp(ctx, env, logs)
        stream_udp(ctx, env, logs)
        stream_udp_seq(ctx, env, logs)
        stream_pf_session(ctx, env, logs)
        stream_server_malformed(ctx, env, logs)
        stream_pf_malformed(ctx, env, logs)
        _reset_level(env)
    finally:
        sys.stderr = old_err
        env.close()
    real_islocal_probe(ctx, env)      # after close(): the unpatched helpers.islocal with real sockets
    import sshuttle.methods.tproxy as _tp
    stream_udp_real(ctx, types.SimpleNamespace(tproxy=_tp))
    seen = set()
    for lg in logs:
        ctx.count()
        ctx.hist(lg.kind)
        ctx.mark(lg.ins, lg.nontrivial)
        if lg.kind not in seen and len(seen) < 6 and lg.kind in ('odst6', 'tcp-nat', 'tcp-pf', 'udp-tproxy',
                                                                  'udp-seq', 'lib-pton'):
            seen.add(lg.kind)
            ctx.sample(dict(kind=lg.kind, input=[l[:160] for l in lg.ins[:6]],
                            real_code_output=[l[:160] for l in lg.outs[:6]]))
    compare(ctx, logs)


def replay(ctx, rep):
    case = rep['case']
    env = Env()
    logs = []
    old_err = sys.stderr
    sys.stderr = io.StringIO()
    try:
        if case['stream'] == 'odst':
            sa = common.unhex(case['sockopt'])
            with at_level(case.get('verbose', 0)):
                _line, out, r = odst_case(env, case['family'], sa)
            bad = r is None or not same_dest(case['family'], r[0], r[1], common.unhex(case['addr']), case['port'])
            return bad, 'original_dst returned %s; dialled %s port %d' % (
                out, ipaddress.ip_address(common.unhex(case['addr'])), case['port'])
        if case['stream'] == 'tcp':
            info = run_tcp(ctx, env, logs, case)
            return bool(ctx.violations), 'closed=%d frames=%r connect_dst calls=%r' % (
                info['closed'], [(c, hexb(p)) for c, _m, p in info['frames']], info['connects'])
        if case['stream'] == 'udp':
            sends = run_udp(ctx, env, logs, case)
            return bool(ctx.violations), 'sendto calls=%r' % (sends,)
        if case['stream'] == 'pf-session':
            bad = run_pf_session(ctx, env, logs, case)
            return bad is not None, ('op #%d: expected %s; observed %s' % (bad['op'], bad['expected'], bad['observed'])
                                     if bad else 'every connection of the session was forwarded to what it dialled '
                                                 '(or dropped after the helper had ended)')
        if case['stream'] == 'udp-real':
            want, got, exc = run_udp_real(ctx, env, case)
            return bool(ctx.violations), 'sent to %r; recv_udp recovered %r (exception %r)' % (want, got, exc)
        if case['stream'] == 'udpseq':
            bad = run_udp_seq(ctx, env, logs, case)
            return bad is not None, ('datagram #%d: expected %s, observed %r' % (
                bad['datagram'], bad['expected'], bad['observed'])) if bad else 'every datagram reached its own destination'
    finally:
        sys.stderr = old_err
        env.close()
    return False, 'unknown case'
