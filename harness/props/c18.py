"""C18 — the remote end runs the client's own code with the client's options.

Correspondence: the real `ssh.get_module_source` / `ssh.empackage` / `ssh.connect` (files, zlib,
Popen and the socket pair faked at the OS boundary), the real `assembler.py` source executed over a
buffered reader whose raw reads follow a scripted segmentation, and the real `client._main` prefix
with recording tunnel files, against `Code/Bootstrap.lean`.
Oracle (independent of the model): every module the remote `compile()`s equals the client's file
byte for byte, in the client's order; the option values `server.main` receives equal the ones given
to `ssh.connect`; the client writes nothing to the tunnel between `content2` and the moment the
init string has been read.  Thorough tier: the same through a real local `python -c <pyscript>`.
"""
import builtins
import errno
import hashlib
import io
import json
import os
import re
import shutil
import subprocess
import sys
import tempfile
import threading
import types
import zlib

import common
from common import hexb

RULE = ("cases = (a) module lists (the names ssh.connect packages plus extra and nested names) whose sources are "
        "generated files: empty, 1 byte, > 64 KiB, > 1 MiB (thorough), high-entropy UTF-8, all-zero, arbitrary "
        "UTF-8 incl. astral code points, CRLF / lone CR / mixed line ends, PEP 263 latin-1 sources with a coding line, "
        "UTF-8 BOM, non-UTF-8 bytes as explicit data (file lookup = the real spec with origin and a real SourceFileLoader); "
        "packed by the real empackage with one shared compressor and assembled by the real assembler.py under "
        "scripted raw-read segmentations (1 byte, 2, 7, 4096, everything, random) and reader buffer sizes, with "
        "trailing bytes after the terminator; (b) the real ssh.connect with random option values (bool, int incl. "
        "negative/huge, None, resolver strings, strings with quotes, backslashes, control and non-ASCII characters); "
        "(c) malformed streams (length-line variants, padded / non-ASCII / orphan names, truncation, corrupt zlib); "
        "(d) client._main start-up traces under random server-output segmentations and write grants; "
        "(e) assembler.py's real main(...) call bound against the real server.main signature for pairwise distinct "
        "option values, and the real server.py entered by the real assembler in a child interpreter; "
        "(f) whole session starts (real connect -> transport -> real assembler -> main's arguments bound by the real "
        "server.main signature) where every option takes every falsy value (False, 0, None, '', []) and all-falsy sets, "
        "over the posix socket transport and the win32 pipe transport (real SocketRWShim threads, child stdin accepting "
        "1 / 1000 / 4096 bytes per write, whole writes as control); module sources of 0, 1, 64 KiB +-1, 1 MiB +-1 and "
        "several MiB, highly compressible and incompressible, each required to arrive byte for byte with the later "
        "modules and the options intact; client verbosity is a dimension of every case (level from the rotation "
        "0,0,3,0,2,0,3,1 shifted by the seed, stored in the replay): the one-liner the real ssh.connect builds at that "
        "level is the program the remote side executes, over segmented (in the child interpreter also delayed) delivery; "
        "(g) real command lines (with and without --ns-hosts/--to-ns, IPv4 and IPv6 targets, -N, -H, latency options) driven "
        "through the real cmdline.main/client.main to _main, the values formed there sent through the real serialisation, "
        "remote exec and server.main binding and required to arrive equal and of a plain built-in type; "
        "several sessions opened by one process (the same "
        "options twice, different options, both transports), each upload decoded on its own; "
        "non-trivial = a read crossed a segment boundary, an error branch was taken, or a trace was decided; "
        "distinct = distinct canonical model input")
MANIFEST = dict(
    level_text=("Machine-checked Lean 4 theorems over a statement-by-statement model of get_module_source, empackage, "
                "ssh.connect's packaging, the bootstrap one-liner, assembler.py, the %r rendering / remote evaluation of the "
                "options module, the call that enters server.main, and the client's start-up writes. C18_session states the "
                "whole session start for all inputs: for every client file system (module sources of arbitrary bytes, any "
                "encoding, line ends, BOM, size), every lawful codec (zlib enters only through the law that the sync-flushed "
                "chunks of one compressor decompress chunk by chunk with one decompressor), every non-empty option record over "
                "the regenerated option names (bool, int, None, str, [] - every falsy value included), every cut of the upload "
                "into raw reads and every cut of the server's output into reads: the remote executes exactly the assembler "
                "source the client read, creates exactly the packaged names in order, compiles every module from exactly the "
                "client's bytes, resolves its imports from the upload, consumes nothing beyond the upload, evaluates the "
                "options module to the client's record, enters server.main with - for each parameter of the regenerated "
                "signature - the client's value of the option of that name, and the client writes nothing but the upload "
                "before it accepts the init string. Its parts: C18_framing / C18_connect_assembles (section parser: each "
                "length-prefixed section consumed exactly, stop at the terminator, independent of read sizes), "
                "C18_source_bytes, C18_options / C18_options_wire (repr, UTF-8, literal evaluation), C18_option_binding and "
                "C18_falsy_values_survive (False, 0, None, '', [] reach server.main), C18_server_main_receives, "
                "C18_nothing_before_sync. The model is tied to the code on every run by differential runs of the real "
                "functions and the real assembler source, plus an oracle on the real code (incl. a real child interpreter and "
                "the win32 pipe transport with partial writes)."),
    level_note=("Trusted: Lean kernel; axioms propext/Classical.choice/Quot.sound only; the correspondence harness; zlib "
                "(abstract law, exercised concretely by the harness); Python's compile/exec and str.isprintable (the option "
                "theorems hold for every set of non-printable code points); that optdata encodes is a hypothesis (it fails "
                "only for unescaped lone surrogates, which repr escapes); list values other than [] are outside the value "
                "model; the remote shell command line and its quoting, and the win32 SocketRWShim pump (checked by oracle "
                "only, not modelled) are outside the theorems. The text-mode source read of the original code translated CR "
                "and depended on the locale (C18_textmode_read_false, C18_source_bytes_partial; fixed in /repo)."),
    technique="Lean 4 proof (induction over the module list, refinement to the flat stream) + differential correspondence with the real packaging and assembler code",
)
DRIVER_TARGETS = ['SshuttleModel.Code.Bootstrap']
ASSUMPTIONS = [
    "zlib: chunks produced by one compressobj with Z_SYNC_FLUSH, fed one per call to one decompressobj, yield the inputs chunk by chunk",
    "the remote stdin is a blocking buffered binary reader: read(n) returns n bytes unless the stream ends; raw reads return arbitrary non-empty prefixes",
    "module sources compile on the remote interpreter; compile/exec themselves are outside the model",
    "str.isprintable agrees between the two interpreters for the characters used in option strings (same Unicode database)",
    "the ssh pipe is a reliable ordered byte stream",
]

WS = b' \t\n\r\x0b\x0c'


def fnv(b):
    h = 2166136261
    for x in b:
        h = ((h ^ x) * 16777619) & 0xffffffff
    return h


def fnv_fast(b):
    # same function, chunked through Python ints is slow for MiBs: use the plain loop but on memoryview
    return fnv(memoryview(b))


def sum_of(b):
    b = bytes(b)
    if len(b) <= 48:
        return '%d:%d:%s' % (len(b), fnv(b), hexb(b))
    return '%d:%d' % (len(b), fnv_fast(b))


# Client verbosity is a dimension of every case: the level comes from this rotation shifted by the check's
# seed (over seeds 0..7 every directed case runs at every level), is stored in the case and restored by --replay.
# What arrives on the remote side must not depend on it.
LEVEL_ROTATION = [0, 0, 3, 0, 2, 0, 3, 1]
_LEVEL = {'cur': 0, 'i': 0, 'shift': 0}


def next_level():
    _LEVEL['i'] += 1
    lv = LEVEL_ROTATION[(_LEVEL['i'] + _LEVEL['shift']) % len(LEVEL_ROTATION)]
    _LEVEL.setdefault('hist', {})
    _LEVEL['hist'][lv] = _LEVEL['hist'].get(lv, 0) + 1
    return lv


class at_level:
    """sshuttle.helpers.verbose = level and a silent sys.stderr around calls into the real code"""

    def __init__(self, level):
        self.level = int(level or 0)

    def __enter__(self):
        import sshuttle.helpers as helpers
        self.prev = (_LEVEL['cur'], helpers.verbose, sys.stderr)
        _LEVEL['cur'] = self.level
        helpers.verbose = self.level
        sys.stderr = io.StringIO()
        return self

    def __exit__(self, *exc):
        import sshuttle.helpers as helpers
        _LEVEL['cur'], helpers.verbose, sys.stderr = self.prev
        return False


def leveled(fn):
    """run `fn(case, ...)` at the verbosity level stored in the case"""
    def wrapper(case, *a, **k):
        with at_level(case.get('level', 0) if isinstance(case, dict) else 0):
            return fn(case, *a, **k)
    wrapper.__name__ = fn.__name__
    wrapper.__doc__ = fn.__doc__
    return wrapper


def _mods():
    import sshuttle.ssh as ssh
    import sshuttle.ssnet as ssnet
    import sshuttle.client as client
    import sshuttle.helpers as helpers
    helpers.verbose = _LEVEL['cur']
    return ssh, ssnet, client, helpers


# ---------------------------------------------------------------- fakes at the OS boundary

class Scratch:
    def __init__(self):
        self.dir = tempfile.mkdtemp(prefix='c18-')
        self.n = 0

    def put(self, data):
        self.n += 1
        p = os.path.join(self.dir, 'm%05d.py' % self.n)
        with open(p, 'wb') as f:
            f.write(data)
        return p

    def close(self):
        shutil.rmtree(self.dir, ignore_errors=True)


class FakeImportlib:
    """stands in for the name `importlib` inside sshuttle.ssh: module name -> the spec the real import
    system builds for that file (`origin` = the path, `loader` = a real SourceFileLoader, whose
    get_source() decodes per PEP 263 / BOM and translates newlines), so whichever way
    get_module_source reads the source is exercised faithfully."""

    def __init__(self, paths):
        import importlib.util as _iu
        self._iu = _iu
        self.paths = paths
        self.asked = []
        self.util = types.SimpleNamespace(find_spec=self.find_spec)

    def find_spec(self, name):
        self.asked.append(name)
        p = self.paths.get(name)
        return None if p is None else self._iu.spec_from_file_location(name, p)


class RecZ:
    def __init__(self, log, *a):
        self.z = zlib.compressobj(*a)
        self.log = log

    def compress(self, data):
        out = self.z.compress(data)
        self.log.append([bytes(data), out, None])
        return out

    def flush(self, *a):
        out = self.z.flush(*a)
        if self.log and self.log[-1][2] is None:
            self.log[-1][2] = out
        else:
            self.log.append([None, b'', out])
        return out


def fake_zlib(log, made):
    ns = types.SimpleNamespace(**{k: getattr(zlib, k) for k in dir(zlib) if k.startswith('Z_')})
    ns.error = zlib.error

    def compressobj(*a):
        made.append(a)
        return RecZ(log, *a)
    ns.compressobj = compressobj
    return ns


class RecD:
    def __init__(self, log):
        self.z = zlib.decompressobj()
        self.log = log

    def decompress(self, data, *a):
        try:
            out = self.z.decompress(data, *a)
        except zlib.error:
            self.log.append((bytes(data), None))
            raise
        self.log.append((bytes(data), out))
        return out


class ScriptedRaw(io.RawIOBase):
    """fd 0 of the remote interpreter: each raw read returns the next scripted number of bytes"""

    def __init__(self, data, sizes):
        self.data = data
        self.pos = 0
        self.sizes = sizes          # callable() -> int >= 1
        self.segs = []

    def readable(self):
        return True

    def readinto(self, b):
        n = min(self.sizes(), len(b), len(self.data) - self.pos)
        if n <= 0:
            return 0
        b[:n] = self.data[self.pos:self.pos + n]
        self.pos += n
        self.segs.append(n)
        return n


class Blocker:
    """no import of an `sshuttle` that was not uploaded (the remote host has none)"""

    def find_spec(self, name, path=None, target=None):
        if name == 'sshuttle' or name.startswith('sshuttle.'):
            raise ModuleNotFoundError('No module named %r (c18 sandbox)' % name, name=name)
        return None


_PYSCRIPT = {}


def pyscript_at_level():
    """The `python -c` program the real ssh.connect builds at the current verbosity level (for the streams that
    do not come out of a connect call of their own); None if connect cannot be made to produce one."""
    key = (common.REPO, _LEVEL['cur'])
    if key not in _PYSCRIPT:
        ps = None
        try:
            obs = run_connect(dict(files={}, options=[('latency_control', True)], level=_LEVEL['cur']), None)
            if obs['popen'] and len(obs['popen'][0]) == 3 and obs['popen'][0][1] == '-c':
                ps = obs['popen'][0][2]
        except Exception:  # noqa
            ps = None
        _PYSCRIPT[key] = ps
    return _PYSCRIPT[key]


def remote_run(stream, nasm, size_fn, bufsize, code_names, preloaded=(), pyscript=None):
    """The remote interpreter on `stream`: the bootstrap one-liner and the real assembler source.  With
    `pyscript` (the `-c` program the real ssh.connect handed to Popen) that very program is executed, with
    `os.fdopen(0, ...)` answering with a reader over the scripted descriptor - unbuffered if the program asks
    for buffering 0, buffered otherwise; without it the stock one-liner is emulated.
    Returns dict(asm, compiled, main_args, end, rest, segs, dlog)."""
    raw = ScriptedRaw(stream, size_fn)
    holder = {}
    compiled = []
    sink = []
    dlog = []
    asm_seen = []

    def compile_shim(content, name, mode, *a, **k):
        if name == 'assembler.py' and pyscript is not None and not asm_seen:
            asm_seen.append(bytes(content))
            return builtins.compile(content, name, mode)
        compiled.append((name, bytes(content)))
        if name in code_names:
            try:
                return builtins.compile(content, name, mode)
            except (SyntaxError, ValueError):
                pass
        return builtins.compile(b'', name, mode)

    real_fdopen = os.fdopen

    def fake_fdopen(fd, mode='r', buffering=-1, *a, **k):
        if fd != 0:
            return real_fdopen(fd, mode, buffering, *a, **k)
        if buffering == 0:
            f = raw                         # raw file: read(n) is ONE read of at most n bytes
        else:
            f = io.BufferedReader(raw, buffer_size=buffering if buffering and buffering > 1 else bufsize)
        holder['stdin'] = f
        return f

    zshim = types.ModuleType('zlib')
    zshim.decompressobj = lambda *a: RecD(dlog)
    zshim.error = zlib.error
    saved = dict(sys.modules)
    blocker = Blocker()
    old_err, old_out = sys.stderr, sys.stdout
    end = 'done'
    imports = 1
    asm = b''
    if pyscript is None:
        holder['stdin'] = io.BufferedReader(raw, buffer_size=bufsize)
        asm = holder['stdin'].read(nasm)        # stdin.read(%d) of the stock one-liner
    try:
        for k in list(sys.modules):
            if k == 'sshuttle' or k.startswith('sshuttle.'):
                del sys.modules[k]
        for nm in preloaded:
            sys.modules[nm] = types.ModuleType(nm)
        sys.modules['zlib'] = zshim
        sys.meta_path.insert(0, blocker)
        sys.stderr, sys.stdout = io.StringIO(), io.StringIO()
        os.fdopen = fake_fdopen
        ns = {'compile': compile_shim, '__c18_sink__': sink, '__name__': '__c18_remote__'}
        try:
            if pyscript is None:
                ns.update(stdin=holder['stdin'], verbosity=0)
                code = builtins.compile(asm, 'assembler.py', 'exec')
            else:
                code = builtins.compile(pyscript, '<python -c>', 'exec')
        except (SyntaxError, ValueError):
            end = 'asmBroken'
            code = None
        if code is not None:
            try:
                exec(code, ns)
            except SystemExit:
                pass                         # sys.exit(98): main() returned
            except UnicodeDecodeError:
                end = 'nameNotAscii'
            except SyntaxError:
                end = 'asmBroken'
            except ValueError:
                end = 'valueError' if (pyscript is None or asm_seen) else 'asmBroken'
            except zlib.error:
                end = 'zlibError'
            except KeyError:
                end = 'parentMissing'
            except ModuleNotFoundError:
                imports = 0
            except (ImportError, AttributeError, TypeError) as e:
                end = 'done'
                sink.append(('after-loop', type(e).__name__))
            except Exception as e:  # noqa  (a corrupted assembler source can do anything)
                end = 'crashed:' + type(e).__name__
    finally:
        os.fdopen = real_fdopen
        sys.stderr, sys.stdout = old_err, old_out
        if blocker in sys.meta_path:
            sys.meta_path.remove(blocker)
        for k in list(sys.modules):
            if k not in saved:
                del sys.modules[k]
        sys.modules.update(saved)
    if pyscript is not None:
        asm = asm_seen[0] if asm_seen else b''
    try:
        rest = holder['stdin'].read() if 'stdin' in holder else raw.read()
    except (ValueError, OSError):
        rest = b''
    return dict(asm=asm, compiled=compiled, main_args=sink, end=end, imports=imports, rest=rest or b'',
                segs=list(raw.segs), dlog=dlog)


SERVER_STANDIN = (b"import sys\n"
                  b"def main(*a, **k):\n"
                  b"    sys._getframe(1).f_globals['__c18_sink__'].append((a, k))\n")


def entered_with(main_args):
    """What the real server.main would have been entered with: the arguments the stand-in main captured
    from the real assembler's call, bound by the parameter list of the real `sshuttle.server.main`.
    -> ('ok', [(param, value)]) | (error kind, text)"""
    import inspect
    import sshuttle.server as server
    calls = [x for x in main_args if isinstance(x, tuple) and len(x) == 2 and isinstance(x[0], tuple)]
    if not calls:
        return 'notEntered', 'server.main was never called (%s)' % (main_args[:1],)
    a, k = calls[0]
    try:
        b = inspect.signature(server.main).bind(*a, **k)
    except TypeError as e:
        return 'typeError', str(e)
    return 'ok', list(b.arguments.items())


# ---------------------------------------------------------------- generators

def gen_text(rng, n, alphabet):
    return ''.join(chr(rng.choice(alphabet)) if not callable(alphabet) else alphabet() for _ in range(n))


def rand_cp(rng):
    r = rng.random()
    if r < 0.4:
        return rng.randrange(32, 127)
    if r < 0.55:
        return rng.randrange(0xa0, 0x800)
    if r < 0.8:
        c = rng.randrange(0x800, 0x10000)
        return c if not 0xd800 <= c < 0xe000 else 0x4e2d
    return rng.randrange(0x10000, 0x110000)


def gen_source(rng, kind, thorough):
    if kind == 'empty':
        return b''
    if kind == 'one':
        return bytes([rng.choice([10, 35, 48, 0xd])]) if rng.random() < 0.5 else b'\n'
    if kind == 'small-py':
        return b'x = %d\n# \xc3\xa9 comment\ny = "%s"\n' % (rng.randrange(1000), b'a' * rng.randrange(20))
    if kind == 'gt64k':
        n = rng.choice([65536, 65537, 70001, 131072 + 5])
        return (b'# ' + bytes(rng.randrange(32, 127) for _ in range(77)) + b'\n') * (n // 80 + 1)
    if kind == 'gt1m':
        n = (1 << 20) + rng.randrange(1, 5000)
        return rng.randbytes(n // 2).hex().encode() + b'\n'
    if kind == 'entropy':
        n = rng.choice([300, 5000, 5000, 70000]) if thorough else rng.choice([300, 300, 2000, 9000])
        return ''.join(chr(rand_cp(rng)) for _ in range(n // 3)).encode('utf-8')
    if kind == 'zeros':
        return bytes(rng.choice([1, 100, 100, 66000] if thorough else [1, 100, 100, 100, 66000]))
    if kind == 'utf8':
        return ''.join(chr(rand_cp(rng)) for _ in range(rng.randrange(1, 200))).encode('utf-8')
    if kind == 'crlf':
        return b'a = 1\r\nb = 2\r\n' * rng.randrange(1, 4)
    if kind == 'cr':
        return rng.choice([b'\r', b'a\rb', b'x = 1\r', b'\r\r\n\r', b'# \xe2\x82\xac\r\n\r'])
    if kind == 'mixed':
        return b''.join(rng.choice([b'l%d' % i, b'\r\n', b'\n', b'\r', b'\xc3\xa9']) for i in range(rng.randrange(2, 30)))
    if kind == 'latin1-coding':    # PEP 263: stored in latin-1, declared in the first or second line
        head = rng.choice([b'# -*- coding: latin-1 -*-\n', b'#!/usr/bin/python\n# vim: set fileencoding=iso-8859-1 :\n',
                           b'# coding=latin-1\r\n'])
        return head + b'NAME = "caf\xe9 \xfc\xdf"\n' + bytes(rng.choice([0xe9, 0xa0, 0xff, 0x41, 0x0a]) for _ in range(rng.randrange(0, 40)))
    if kind == 'bom':              # UTF-8 signature
        return b'\xef\xbb\xbf' + rng.choice([b'', b'x = 1\n', b'# \xe2\x82\xac\r\ny = "\xc3\xa9"\r\n', b'# coding: utf-8\nz = 2\n'])
    if kind == 'binary':       # only ever passed as explicit data
        return bytes([0xff, 0xfe, 0x80]) + rng.randbytes(rng.randrange(0, 300))
    raise KeyError(kind)


FILE_KINDS = ['empty', 'one', 'small-py', 'gt64k', 'entropy', 'zeros', 'utf8', 'crlf', 'cr', 'mixed', 'latin1-coding', 'bom']


def rand_option_value(rng):
    r = rng.random()
    if r < 0.2:
        return rng.choice([True, False])
    if r < 0.45:
        return rng.choice([0, 1, -1, 32768, 65535, 2 ** 31, -2 ** 63, 10 ** 30, rng.randrange(-10 ** 6, 10 ** 6)])
    if r < 0.55:
        return None
    if r < 0.7:
        return rng.choice(['10.0.0.1@53', '::1@5353', 'fe80::1%eth0@53', '192.168.1.1@65535', 'ns.example.com@53'])
    n = rng.choice([0, 1, 2, 5, 20])
    pool = [39, 34, 92, 10, 13, 9, 0, 7, 0x1b, 0x7f, 0x80, 0x85, 0xa0, 0xad, 0xe9, 0x2028, 0xd800, 0xdfff,
            0xfffe, 0x1f600, 0xe0001, 0x10ffff, 61, 35, 32, 0x20ac, 0x378]
    return ''.join(chr(rng.choice(pool) if rng.random() < 0.6 else rand_cp(rng)) for _ in range(n))


def rand_options(rng, keys):
    return {k: rand_option_value(rng) for k in keys}


def size_policy(rng, kind):
    if kind == 'one':
        return lambda: 1
    if kind == 'all':
        return lambda: 1 << 30
    if isinstance(kind, int):
        return lambda: kind
    return lambda: rng.choice([1, 2, 3, 7, 64, 4096, 70000])


POLICIES = ['one', 2, 7, 4096, 'all', 'rand']


# ---------------------------------------------------------------- canonical lines

def val_tok(v):
    if v is True:
        return 'T'
    if v is False:
        return 'F'
    if v is None:
        return 'N'
    if isinstance(v, int):
        return 'i%d' % v
    if isinstance(v, str):
        return 's' + '.'.join(str(ord(c)) for c in v)
    if isinstance(v, list) and not v:
        return 'L'
    return '?' + repr(v).replace(' ', '')


def opts_tok(items):
    if not items:
        return '_'
    return ','.join('%s:%s' % (hexb(k.encode('utf-8')), val_tok(v)) for k, v in items)


def nonprintable_in(items):
    out = set()
    for _k, v in items:
        if isinstance(v, str):
            for c in v:
                if ord(c) >= 128 and not c.isprintable():
                    out.add(ord(c))
    return sorted(out)


def is_utf8(b):
    try:
        b.decode('utf-8')
        return True
    except UnicodeDecodeError:
        return False


def file_tok(name, data):
    if data is None:
        return '%s:u:NONE' % hexb(name.encode('utf-8', 'surrogateescape'))
    return '%s:%s:%s' % (hexb(name.encode('utf-8', 'surrogateescape')), 'u' if is_utf8(data) else 'x', hexb(data))


def script_tok(log):
    if not log:
        return '_'
    return ';'.join('%d.%d:%s:%s' % (len(d or b''), fnv_fast(d or b''), hexb(zc), hexb(zf or b'')) for d, zc, zf in log)


def short(b):
    """module contents are opaque to the framing model: long ones travel as their SHA-1"""
    b = bytes(b)
    return b if len(b) <= 64 else b'sha1:' + hashlib.sha1(b).digest()


def boot_line(nasm, pre, r, stream):
    douts = ','.join('%d.%d:%s' % (len(fed), fnv_fast(fed), '!' if out is None else hexb(short(out))) for fed, out in r['dlog'])
    return 'boot n=%d pre=%s segs=%s stream=%s douts=%s' % (
        nasm, ','.join(hexb(p.encode()) for p in pre) or '_', ','.join(map(str, r['segs'])) or '_',
        hexb(stream), douts or '_')


def boot_out(r):
    mods = ';'.join('%s/%s' % (hexb(n.encode('ascii', 'replace')), sum_of(short(c))) for n, c in r['compiled']) or '_'
    return 'asm=%s mods=%s end=%s rest=%s imports=%s' % (sum_of(r['asm']), mods, r['end'], sum_of(r['rest']),
                                                         r['imports'] if r['end'] == 'done' else '-')


class Log:
    def __init__(self, kind):
        self.kind = kind
        self.ins = []
        self.outs = []
        self.nontrivial = False

    def add(self, i, o):
        self.ins.append(i)
        self.outs.append(o)


# ---------------------------------------------------------------- (a) pack + assemble, end to end

def independent_parse(upload, nasm):
    """The wire format read directly (no sshuttle code, no model): returns (asm, [(name, data)], rest)
    or raises ValueError."""
    asm, p = upload[:nasm], nasm
    z = zlib.decompressobj()
    mods = []
    while True:
        j = upload.index(b'\n', p)
        name = upload[p:j]
        p = j + 1
        if name == b'':
            break
        j = upload.index(b'\n', p)
        n = int(upload[p:j].decode('ascii'))
        p = j + 1
        chunk = upload[p:p + n]
        if len(chunk) != n:
            raise ValueError('short chunk')
        p += n
        mods.append((name.decode('ascii'), z.decompress(chunk)))
    return asm, mods, upload[p:]


@leveled
def run_e2e(case, scratch, rng_sizes=None):
    """case: dict(modules=[[name, data(bytes), via]], options=[[k, v]], policy, bufsize, junk(bytes), pre=[...]).
    Runs the real packaging and the real assembler.  Returns (observation dict)."""
    ssh, _ssnet, _client, _helpers = _mods()
    import random as _random
    rs = rng_sizes or _random.Random(case.get('size_seed', 0))
    paths = {'sshuttle.assembler': os.path.join(common.REPO, 'sshuttle', 'assembler.py')}
    disk = {}
    for name, data, via in case['modules']:
        if via == 'file':
            paths[name] = scratch.put(data)
            disk[name] = data
    fi = FakeImportlib(paths)
    zlog, made = [], []
    old_imp = ssh.importlib
    ssh.importlib = fi
    obs = dict(pack_error=None)
    try:
        z = RecZ(zlog, 1)
        frames = []
        try:
            content = ssh.get_module_source('sshuttle.assembler')
            for name, data, via in case['modules']:
                frames.append(ssh.empackage(z, name, data if via == 'data' else None))
        except (UnicodeDecodeError, ImportError, SyntaxError):
            obs['pack_error'] = 'decodeError'
        except UnicodeEncodeError:
            obs['pack_error'] = 'nameNotAscii'
        except AttributeError as e:
            obs['pack_error'] = classify_attribute_error(e)
    finally:
        ssh.importlib = old_imp
    obs['zlog'] = zlog
    obs['disk'] = disk
    if obs['pack_error']:
        return obs
    obs['frames'] = b''.join(frames)
    obs['content'] = content
    stream = content + obs['frames'] + b'\n' + case.get('junk', b'')
    obs['stream'] = stream
    code_names = {n for n, _d, _v in case['modules'] if n in ('sshuttle.server', 'sshuttle.cmdline_options')}
    policy = case['policy']
    if policy in ('one', 2, 7) and len(stream) > 20000:
        policy = 4096       # the list-based model re-copies its buffer per raw read: keep long streams coarse
    obs['remote'] = remote_run(stream, len(content), size_policy(rs, policy), case['bufsize'],
                               code_names, case.get('pre', ()), pyscript=pyscript_at_level())
    return obs


def e2e_expected(case):
    """what the property demands, from the case alone"""
    with open(os.path.join(common.REPO, 'sshuttle', 'assembler.py'), 'rb') as f:
        asm = f.read()
    return asm, [(n, d) for n, d, _v in case['modules']]


def e2e_oracle(case, obs):
    """-> list of (key, expected, observed)"""
    out = []
    asm, mods = e2e_expected(case)
    if is_artefact(obs['pack_error']):
        return out
    if obs['pack_error']:
        out.append(('C18:pack:raised-' + obs['pack_error'], 'modules packaged', obs['pack_error']))
        return out
    r = obs['remote']
    if r['asm'] != asm:
        out.append(('C18:assembler-source-differs', sum_of(asm), sum_of(r['asm'])))
    got = r['compiled']
    if [n for n, _ in got] != [n for n, _ in mods] or r['end'] != 'done':
        out.append(('C18:modules:names-or-order-differ', [n for n, _ in mods], dict(names=[n for n, _ in got], end=r['end'])))
        return out
    for (n, want), (_n, have) in zip(mods, got):
        if want != have:
            i = next((k for k in range(min(len(want), len(have))) if want[k] != have[k]), min(len(want), len(have)))
            via = [v for nm, _d, v in case['modules'] if nm == n][0]
            tr = want.replace(b'\r\n', b'\n').replace(b'\r', b'\n')
            key = 'C18:source:newline-translated' if (via == 'file' and have == tr) else 'C18:source:bytes-differ'
            out.append((key, dict(module=n, len=len(want), at=i, bytes=hexb(want[max(0, i - 8):i + 8])),
                        dict(len=len(have), bytes=hexb(have[max(0, i - 8):i + 8]))))
    if r['rest'] != case.get('junk', b''):
        out.append(('C18:assembler-consumed-wrong-amount', sum_of(case.get('junk', b'')), sum_of(r['rest'])))
    opts = case.get('options')
    if opts is not None and any(n == 'sshuttle.cmdline_options' for n, _d, _v in case['modules']):
        kind, got = entered_with(r['main_args'])
        bad = binding_problem(opts, kind, got)
        if bad:
            out.append(('C18:options:values-differ', [val_tok(v) for _k, v in opts], bad))
    return out


_PACKAGED = {}


def packaged_names():
    """Names and order the real ssh.connect packages: observed by letting one real connect run with
    `ssh.empackage` wrapped by a recorder that calls the real one (so it does not matter in which
    function the packaging code lives); from the source text of ssh.py as a fallback."""
    if common.REPO in _PACKAGED:
        return list(_PACKAGED[common.REPO])
    ssh = _mods()[0]
    seen = []
    real = ssh.empackage

    def recorder(z, name, *a, **k):
        seen.append(name)
        return real(z, name, *a, **k)
    ssh.empackage = recorder
    try:
        try:
            run_connect(dict(files={}, options=[('latency_control', True)]), None)
        except Exception:  # noqa
            pass
    finally:
        ssh.empackage = real
    if not seen:
        import ast
        with open(os.path.join(common.REPO, 'sshuttle', 'ssh.py'), 'rb') as f:
            tree = ast.parse(f.read())
        cs = [c for c in ast.walk(tree) if isinstance(c, ast.Call) and isinstance(c.func, ast.Name) and
              c.func.id == 'empackage' and len(c.args) > 1 and isinstance(c.args[1], ast.Constant)]
        cs.sort(key=lambda c: (c.lineno, c.col_offset))
        seen = [c.args[1].value for c in cs]
    _PACKAGED[common.REPO] = list(seen)
    return list(seen)


def e2e_case(ctx, rng, scratch, names, keys, thorough_big=False):
    mods = []
    opts = [(k, rand_option_value(rng)) for k in keys]
    optdata = ''.join('%s=%r\n' % (k, v) for k, v in opts).encode('utf-8', 'surrogatepass')
    # surrogates are always escaped by repr, so surrogatepass never has anything to do
    extra = []
    for i in range(rng.choice([0, 0, 1, 3])):
        extra.append('sshuttle.x%d' % i)
    if rng.random() < 0.3:
        extra += ['sshuttle.sub', 'sshuttle.sub.deep']
    pre = []
    if rng.random() < 0.2:
        pre = ['c18pre']
        extra.append('c18pre.child')
    order = list(names)
    for e in extra:
        order.insert(rng.randrange(1, max(2, len(order) + 1)) if not e.endswith('.deep') and not e.startswith('c18pre')
                     else len(order), e)
    if 'sshuttle.sub.deep' in order:       # parent first
        order.remove('sshuttle.sub.deep')
        order.insert(order.index('sshuttle.sub') + 1, 'sshuttle.sub.deep')
    for n in order:
        if n == 'sshuttle.cmdline_options':
            mods.append([n, optdata, 'data'])
        elif n == 'sshuttle.server':
            pad = b'# ' + bytes(rng.randrange(32, 127) for _ in range(rng.choice([0, 10, 5000]))) + b'\n'
            mods.append([n, SERVER_STANDIN + pad, 'file'])
        else:
            k = rng.choice(FILE_KINDS)
            if thorough_big and not any(m[2] == 'file' and len(m[1]) > (1 << 20) for m in mods):
                k = 'gt1m'
            if k == 'gt64k' and rng.random() < (0.5 if ctx.thorough else 0.8):
                k = rng.choice(['small-py', 'mixed', 'utf8'])
            if rng.random() < 0.12:
                mods.append([n, gen_source(rng, rng.choice(['binary', 'small-py', 'zeros']), ctx.thorough) or b'x', 'data'])
            else:
                mods.append([n, gen_source(rng, k, ctx.thorough), 'file'])
            ctx.hist('source:' + (k if mods[-1][2] == 'file' else 'explicit-data'))
    junk = rng.choice([b'', b'', b'\n', b'SS\x00\x00\x42\x01\x00\x07chicken', bytes(rng.randrange(256) for _ in range(9))])
    return dict(modules=mods, options=opts, policy=rng.choice(POLICIES), bufsize=rng.choice([1, 7, 512, 8192, 8192, 1 << 17]),
                junk=junk, pre=pre, size_seed=rng.randrange(1 << 30), level=next_level())


def e2e_lines(case, obs, log):
    """model input lines and the real code's canonical outputs for one end-to-end case"""
    mods = case['modules']
    names = ','.join(hexb(n.encode('utf-8', 'surrogateescape')) for n, _d, _v in mods) or '_'
    explicit = [n for n, _d, v in mods if v == 'data']
    opt = b''
    for n, d, v in mods:
        if v == 'data':
            opt = d
    # packList hands the same `optdata` to every explicit name: keep one explicit module per pack line
    files = ','.join(file_tok(n, d) for n, d, v in mods if v == 'file') or '_'
    if len(explicit) <= 1:
        line = 'pack names=%s explicit=%s opt=%s files=%s script=%s' % (
            names, ','.join(hexb(n.encode()) for n in explicit) or '_', hexb(opt), files, script_tok(obs['zlog']))
        if obs['pack_error']:
            log.add(line, 'error ' + obs['pack_error'])
        else:
            log.add(line, 'ok frames=%s' % sum_of(obs['frames']))
    if obs['pack_error']:
        return
    r = obs['remote']
    log.add(boot_line(len(obs['content']), case.get('pre', []), r, obs['stream']), boot_out(r))
    if len(r['segs']) > 3:
        log.nontrivial = True


# ---------------------------------------------------------------- get_module_source alone

def src_case(ctx, scratch, data, log, level=0):
    fi = FakeImportlib({'pk.m': scratch.put(data)})
    with at_level(level):
        ssh = _mods()[0]
        old = ssh.importlib
        ssh.importlib = fi
        try:
            got = ssh.get_module_source('pk.m')
            out = 'ok ' + hexb(got)
        except (UnicodeDecodeError, ImportError, SyntaxError):
            got = None
            out = 'decodeError'
        finally:
            ssh.importlib = old
    log.add('src file=%s' % file_tok('pk.m', data), out)
    if got != data:
        tr = data.replace(b'\r\n', b'\n').replace(b'\r', b'\n')
        key = 'C18:source:newline-translated' if got == tr else 'C18:source:bytes-differ'
        ctx.violation(key, case=dict(stream='src', data=hexb(data), level=level),
                      expected='get_module_source returns the file bytes %s' % hexb(data),
                      observed='returned %s' % (hexb(got) if got is not None else 'UnicodeDecodeError'),
                      note='the remote program differs byte for byte from the client file', kind='input')
    log.nontrivial = True


def locale_case(ctx, scratch):
    """the same read in a child interpreter whose locale encoding is ASCII"""
    data = b'# caf\xc3\xa9\nx = 1\n'
    p = scratch.put(data)
    code = ("import sys, types\nsys.path.insert(0, %r)\nimport sshuttle.ssh as ssh\n"
            "import importlib.util as iu\n"
            "ssh.importlib = types.SimpleNamespace(util=types.SimpleNamespace(find_spec=lambda n: iu.spec_from_file_location(n, %r)))\n"
            "try:\n    sys.stdout.write(ssh.get_module_source('m').hex())\nexcept UnicodeDecodeError:\n    sys.stdout.write('UnicodeDecodeError')\n"
            % (common.REPO, p))
    env = dict(os.environ, LC_ALL='C', LANG='C', PYTHONUTF8='0', PYTHONCOERCECLOCALE='0', PYTHONDONTWRITEBYTECODE='1')
    pr = subprocess.run([sys.executable, '-c', code], env=env, stdout=subprocess.PIPE, stderr=subprocess.PIPE,
                        text=True, timeout=60)
    got = pr.stdout.strip()
    ctx.count()
    ctx.hist('locale-ascii')
    if got != data.hex():
        ctx.violation('C18:source:locale-dependent', case=dict(stream='locale', data=hexb(data)),
                      expected='file bytes %s whatever the locale' % data.hex(), observed=got or pr.stderr[-300:],
                      note='text-mode open() decodes with the locale encoding (LC_ALL=C, PYTHONUTF8=0)', kind='input')


# ---------------------------------------------------------------- (b) the real ssh.connect

class RecFile:
    def __init__(self, events, kind, script=None, grants=None):
        self.events = events
        self.kind = kind
        self.script = script if script is not None else []
        self.grants = grants if grants is not None else []
        self.nwrites = 0

    def fileno(self):
        return 1000 if self.kind == 'r' else 1001

    def read(self, n=-1):
        if not self.script:
            self.events.append(('r', b''))
            return b''
        c = self.script[0]
        out, rest = c[:n], c[n:]
        if rest:
            self.script[0] = rest
        else:
            self.script.pop(0)
        self.events.append(('r', out))
        return out

    def write(self, b):
        self.nwrites += 1
        if not any(k == 'r' for k, _d in self.events) or not self.grants:    # the upload: taken whole
            self.events.append(('w', bytes(b)))
            return len(b)
        g = self.grants.pop(0)
        if g is None:
            raise BlockingIOError(errno.EAGAIN, 'would block')
        n = min(g, len(b))
        if n:
            self.events.append(('w', bytes(b[:n])))
        return n

    def flush(self):
        pass


class FakeSock:
    def __init__(self, files):
        self.files = files
        self.fd = os.open(os.devnull, os.O_RDWR)

    def fileno(self):
        return self.fd

    def close(self):
        if self.fd is not None:
            os.close(self.fd)
            self.fd = None

    def makefile(self, mode, buffering=None):
        return self.files['r' if 'r' in mode else 'w']

    def __getattr__(self, name):
        # settimeout, setsockopt, setblocking, ...: harmless on the recording files; answered by a real socket
        # so that code using them is not failed by the fake
        import socket as _socket
        if '_real' not in self.__dict__:
            self.__dict__['_real'] = _socket.socket(_socket.AF_UNIX, _socket.SOCK_STREAM)
        return getattr(self.__dict__['_real'], name)


def call_client_main(client, opts, listener, fw):
    """the real client._main with the session options bound to its parameters BY NAME"""
    import inspect
    params = list(inspect.signature(client._main).parameters)
    base = dict(tcp_listener=listener, udp_listener=None, fw=fw, ssh_cmd=None, remotename=None, python=None,
                dns_listener=None, seed_hosts=None, daemon=False, add_cmd_delimiter=False, remote_shell=None)
    kw = {}
    for prm in params:
        if prm in base:
            kw[prm] = base[prm]
        elif prm in opts:
            kw[prm] = opts[prm]
        else:
            kw[prm] = None
    return client._main(**kw)


class _Listener:
    v4 = object()
    v6 = None

    def add_handler(self, *a, **k):
        pass


class _Fw:
    method = None
    auto_nets = []


def classify_attribute_error(e):
    """`find_spec` returned None (a module the client does not have) is the code's own failure; any other
    AttributeError under the fakes is a gap of the fakes, not evidence about the property"""
    msg = str(e)
    if "'NoneType' object has no attribute" in msg and ('origin' in msg or 'loader' in msg):
        return 'noSuchModule'
    return 'fake-incomplete:AttributeError:' + msg[:120]


ARTEFACTS = []


def is_artefact(err):
    if bool(err) and str(err).startswith('fake-incomplete'):
        if str(err) not in ARTEFACTS:
            ARTEFACTS.append(str(err))
        return True
    return False


class _Stop(Exception):
    pass


class FakeProc:
    pid = 4242

    def __init__(self, stop_at):
        self.polls = 0
        self.stop_at = stop_at

    def poll(self):
        self.polls += 1
        if self.polls >= self.stop_at:
            raise _Stop()
        return None


@leveled
def run_connect(case, scratch, dry=False, via_main=False, server_chunks=None, grants=None, stop_at=3):
    """The real ssh.connect (optionally reached through the real client._main) with the file lookup,
    zlib, Popen, the socket pair and select faked.  case: dict(files={name: bytes}, options=[(k, v)])."""
    ssh, ssnet, client, helpers = _mods()
    paths = {}
    real_dir = os.path.join(common.REPO, 'sshuttle')

    class Paths(dict):
        def get(self, name, default=None):
            if name in case['files']:
                if name not in self:
                    self[name] = scratch.put(case['files'][name])
                return self[name]
            rel = name.split('.')[1:] if name != 'sshuttle' else ['__init__']
            p = os.path.join(real_dir, *rel) + '.py'
            return p if os.path.exists(p) else None
    fi = FakeImportlib(Paths(paths))
    zlog, made, popen_args = [], [], []
    events = []
    files = dict(r=RecFile(events, 'r', script=[bytes(c) for c in (server_chunks or []) if c]),
                 w=RecFile(events, 'w', grants=list(grants or [])))
    socks = []

    def socketpair():
        a, b = FakeSock(files), FakeSock(files)
        socks.extend([a, b])
        return a, b

    proc = FakeProc(stop_at)

    def popen(argv, **kw):
        popen_args.append(list(argv))
        return proc

    def fake_select(r, w, x, timeout=None):
        return [], list(w), []

    saved = dict(importlib=ssh.importlib, zlib=ssh.zlib, socket=ssh.socket, ssubprocess=ssh.ssubprocess,
                 snb=ssnet.set_non_blocking_io, select=ssnet.select)
    old_err = sys.stderr
    ssh.importlib = fi
    ssh.zlib = fake_zlib(zlog, made)
    ssh.socket = types.SimpleNamespace(socketpair=socketpair)
    ssh.ssubprocess = types.SimpleNamespace(Popen=popen, PIPE=subprocess.PIPE)
    ssnet.set_non_blocking_io = lambda fd: None
    ssnet.select = types.SimpleNamespace(select=fake_select, error=OSError)
    sys.stderr = io.StringIO()
    obs = dict(error=None, outcome=None)
    opts = dict(case['options'])
    try:
        try:
            if via_main:
                try:
                    call_client_main(client, opts, _Listener(), _Fw())
                    obs['outcome'] = 'returned'
                except _Stop:
                    obs['outcome'] = 'ok'
                except helpers.Fatal as e:
                    msg = str(e)
                    if 'expected server init string' in msg:
                        import ast as _ast
                        obs['outcome'] = 'fatal'
                        obs['got'] = _ast.literal_eval(msg.split('; got ', 1)[1])
                    else:
                        obs['outcome'] = 'other:' + msg[:80]
            else:
                ssh.connect(None, None, None, None, False, None, dict(case['options']))
        except (UnicodeDecodeError, ImportError, SyntaxError):
            obs['error'] = 'decodeError'
        except UnicodeEncodeError:
            obs['error'] = 'encodeError'
        except AttributeError as e:
            if dry:
                raise
            obs['error'] = classify_attribute_error(e)
    finally:
        sys.stderr = old_err
        ssh.importlib, ssh.zlib, ssh.socket, ssh.ssubprocess = saved['importlib'], saved['zlib'], saved['socket'], saved['ssubprocess']
        ssnet.set_non_blocking_io, ssnet.select = saved['snb'], saved['select']
        for s in socks:
            s.close()
    obs.update(events=events, zlog=zlog, made=made, popen=popen_args, asked=[a for a in fi.asked if a != 'sshuttle.assembler'],
               asked_all=list(fi.asked), paths=fi.paths)
    return obs


def file_bytes(path):
    with open(path, 'rb') as f:
        return f.read()


def connect_case(ctx, rng, scratch, names, keys, log):
    files = {}
    real_too = rng.random() < (0.2 if ctx.thorough else 0.1)
    for n in names + ['sshuttle.assembler']:
        if n == 'sshuttle.cmdline_options':
            continue
        if real_too and rng.random() < 0.5:
            continue                       # this module is read from the working tree itself
        k = rng.choice(FILE_KINDS)
        if k == 'gt64k' and rng.random() < (0.5 if ctx.thorough else 0.8):
            k = 'mixed'
        files[n] = gen_source(rng, k, ctx.thorough)
        ctx.hist('source:' + k)
    opts = [(k, rand_option_value(rng)) for k in keys]
    case = dict(files=files, options=opts, level=next_level())
    obs = run_connect(case, scratch)
    connect_check(ctx, case, obs, log)
    return case


def connect_check(ctx, case, obs, log):
    opts = case['options']
    np_ = nonprintable_in(opts)
    writes = [d for k, d in obs['events'] if k == 'w']
    # --- model lines
    optdata = None
    for d, _zc, _zf in obs['zlog']:
        pass
    disk = {n: file_bytes(obs['paths'].get(n)) for n in obs['asked_all'] if obs['paths'].get(n)}
    # the compressor is called once per module, in upload order: the call that belongs to a name that
    # was never looked up as a file is the one that was handed the rendered options
    explicit_fed = []
    # the upload is whatever was written, in however many write() calls; it is split where the one-liner's
    # read of the assembler ends
    up = b''.join(writes)
    m0 = re.search(r'stdin\.read\((\d+)\)', ' '.join(obs['popen'][0])) if obs['popen'] else None
    nasm0 = int(m0.group(1)) if m0 else 0
    if up:
        try:
            _a, mods0, _r = independent_parse(up, nasm0)
            for i, (n, _d) in enumerate(mods0):
                if n not in obs['asked'] and i < len(obs['zlog']) and obs['zlog'][i][0] is not None:
                    explicit_fed.append(obs['zlog'][i][0])
        except (ValueError, zlib.error):
            pass
    want_optdata = ''.join('%s=%r\n' % (k, v) for k, v in opts).encode('utf-8')
    optdata = explicit_fed[0] if explicit_fed else want_optdata
    log.add('opts o=%s np=%s' % (opts_tok(opts), ','.join(map(str, np_)) or '_'), 'ok ' + hexb(optdata))
    log.add('evalopts %s' % hexb(optdata), 'ok ' + opts_tok(eval_module(optdata)))
    line = 'connect opt=%s files=%s script=%s' % (
        hexb(optdata), ','.join(file_tok(n, d) for n, d in sorted(disk.items())) or '_', script_tok(obs['zlog']))
    if is_artefact(obs['error']):
        return
    if obs['error']:
        log.add(line, 'error ' + obs['error'])
        ctx.violation('C18:connect:raised-' + obs['error'], case=dict(stream='connect', level=case.get('level', 0), files={n: hexb(d) for n, d in case['files'].items()},
                                                                      options=[[k, v] for k, v in opts]),
                      expected='upload written', observed=obs['error'], kind='input')
        return
    if not up:
        ctx.violation('C18:connect:writes', case=dict(stream='connect', level=case.get('level', 0), files={n: hexb(d) for n, d in case['files'].items()},
                                                      options=[[k, v] for k, v in opts]),
                      expected='the upload is written', observed='nothing was written', kind='input')
        return
    content, content2 = up[:nasm0], up[nasm0:]
    log.add(line, 'ok content=%s content2=%s' % (sum_of(content), sum_of(content2)))
    log.nontrivial = True
    # --- oracle on the real upload, read with an independent parser
    m = re.search(r'stdin\.read\((\d+)\)', ' '.join(obs['popen'][0])) if obs['popen'] else None
    nasm = int(m.group(1)) if m else -1
    problems = []
    try:
        asm, mods, rest = independent_parse(content + content2, nasm)
    except (ValueError, zlib.error) as e:
        problems.append(('C18:upload:unparseable', 'well-formed upload', repr(e)))
        asm, mods, rest = b'', [], b''
    if not problems:
        want = []
        for n in obs['asked']:
            want.append((n, disk[n]))
        # explicit-data module: position taken from the upload itself, content from the options
        names_up = [n for n, _ in mods]
        exp_names = [n for n, _ in mods if n not in dict(want)]
        if asm != disk.get('sshuttle.assembler'):
            a0 = disk.get('sshuttle.assembler', b'')
            problems.append(('C18:source:newline-translated' if asm == a0.replace(b'\r\n', b'\n').replace(b'\r', b'\n') else 'C18:assembler-source-differs', sum_of(a0), sum_of(asm)))
        if rest != b'':
            problems.append(('C18:upload:trailing-bytes', '-', sum_of(rest)))
        if [n for n in names_up if n not in exp_names] != [n for n, _ in want]:
            problems.append(('C18:modules:names-or-order-differ', [n for n, _ in want], names_up))
        else:
            got = dict(mods)
            for n, d in want:
                if got[n] != d:
                    tr = d.replace(b'\r\n', b'\n').replace(b'\r', b'\n')
                    problems.append(('C18:source:newline-translated' if got[n] == tr else 'C18:source:bytes-differ',
                                     dict(module=n, file=sum_of(d)), sum_of(got[n])))
            for n in exp_names:
                vals = eval_module(got[n])
                if vals is None:
                    problems.append(('C18:options:values-differ', opts_tok(opts), 'unparseable'))
                    continue
                try:
                    kind, ent = enter_main(vals)
                except Exception as e:  # noqa
                    kind, ent = 'error', repr(e)
                bad = binding_problem(opts, kind, ent)
                if bad:
                    problems.append(('C18:options:values-differ', opts_tok(opts),
                                     '%s (uploaded module: %s)' % (bad, opts_tok(vals))))
    for key, exp, ob in problems:
        ctx.violation(key, case=dict(stream='connect', level=case.get('level', 0), files={n: hexb(d) for n, d in case['files'].items()},
                                     options=[[k, v] for k, v in opts]),
                      expected=exp, observed=ob, kind='input')


def eval_module(src):
    """what the remote interpreter finds in the options module: a real exec"""
    ns = {}
    try:
        exec(builtins.compile(src, 'cmdline_options', 'exec'), ns)
    except Exception:  # noqa
        return None
    ns.pop('__builtins__', None)
    return list(ns.items())


# ---------------------------------------------------------------- (c) malformed streams

def malformed_case(ctx, rng, log, level=0):
    with open(os.path.join(common.REPO, 'sshuttle', 'assembler.py'), 'rb') as f:
        asm = f.read()
    z = zlib.compressobj(1)

    def chunk(d):
        return z.compress(d) + z.flush(zlib.Z_SYNC_FLUSH)
    parts = []
    names = ['sshuttle', 'sshuttle.helpers', 'sshuttle.cmdline_options', 'sshuttle.server']
    bad_at = rng.randrange(len(names))
    kind = rng.choice(['len-ws', 'len-plus', 'len-underscore', 'len-minus1', 'len-minus2', 'len-alpha', 'len-empty',
                       'len-zeros', 'name-padded', 'name-nonascii', 'name-orphan', 'name-dotlead', 'truncate',
                       'corrupt', 'no-terminator', 'ws-name', 'len-short', 'len-long', 'len-vt', 'len-fs'])
    ctx.hist('malformed:' + kind)
    for i, n in enumerate(names):
        data = SERVER_STANDIN if n == 'sshuttle.server' else (b'a=1\n' if n == 'sshuttle.cmdline_options' else b'# m\n' * (i + 1))
        c = chunk(data)
        nm = n.encode()
        ln = b'%d' % len(c)
        if i == bad_at:
            if kind == 'len-ws':
                ln = b' \t%d \r' % len(c)
            elif kind == 'len-plus':
                ln = b'+%d' % len(c)
            elif kind == 'len-underscore':
                ln = b'_'.join(bytes([x]) for x in ln) if rng.random() < 0.7 else ln + b'_'
            elif kind == 'len-minus1':
                ln = b'-1'
            elif kind == 'len-minus2':
                ln = b'-%d' % rng.choice([2, 17])
            elif kind == 'len-alpha':
                ln = rng.choice([b'0x10', b'12a', b'abc', b'1 2', b'\xd9\xa1', b'1__2', b'+-1', b'1.0'])
            elif kind == 'len-empty':
                ln = b''
            elif kind == 'len-zeros':
                ln = b'000' + ln
            elif kind == 'len-vt':
                ln = b'\x0b' + ln + b'\x0c'
            elif kind == 'len-fs':
                ln = ln + b'\x1c'
            elif kind == 'len-short':
                ln = b'%d' % max(0, len(c) - rng.randrange(1, 4))
            elif kind == 'len-long':
                ln = b'%d' % (len(c) + rng.randrange(1, 4))
            elif kind == 'name-padded':
                nm = rng.choice([b'  ', b'\t', b'\x0b']) + nm + rng.choice([b' ', b'\r', b' \x0c'])
            elif kind == 'name-nonascii':
                nm = b'sshuttle.caf\xc3\xa9'
            elif kind == 'name-orphan':
                nm = b'nosuch.parent.child'
            elif kind == 'name-dotlead':
                nm = rng.choice([b'.lead', b'sshuttle.', b'a b.c'])
            elif kind == 'ws-name':
                nm = rng.choice([b' ', b'\t \r', b'\x0b'])
            elif kind == 'corrupt':
                c = bytes(rng.randrange(256) for _ in range(len(c)))
                ln = b'%d' % len(c)
        parts.append(nm + b'\n' + ln + b'\n' + c)
    stream = asm + b''.join(parts)
    if kind != 'no-terminator':
        stream += b'\n'
    stream += rng.choice([b'', b'tail'])
    if kind == 'truncate':
        stream = stream[:rng.randrange(len(asm), len(stream))]
    with at_level(level):
        r = remote_run(stream, len(asm), size_policy(rng, rng.choice(POLICIES)), rng.choice([1, 16, 8192]), set(),
                       pyscript=pyscript_at_level())
    log.add(boot_line(len(asm), [], r, stream), boot_out(r))
    log.nontrivial = True


def int_cases(log):
    for b in [b'12\n', b' 12 \n', b'+12\n', b'-1\n', b'1_0\n', b'', b'\n', b'0x10\n', b'\xd9\xa1\n', b'12\x0b\n',
              b'1 2\n', b'007\n', b'_1\n', b'1__0\n', b'12\x00\n', b'1_\n', b'-\n', b'+-1', b' \t\x0c12\r\n',
              b'12\x1c\n', b'\x8512', b'-0\n', b'+', b'99999999999999999999999\n', b'- 1\n']:
        try:
            out = 'ok %d' % int(b)
        except ValueError:
            out = 'valueError'
        log.add('int %s' % hexb(b), out)


# ---------------------------------------------------------------- (d) start-up order in client._main

def main_case(ctx, rng, scratch, names, keys, log):
    opts = []
    for k in keys:
        if k in ('latency_control', 'auto_hosts', 'auto_nets'):
            opts.append((k, rng.choice([True, False])))
        elif k == 'latency_buffer_size':
            opts.append((k, rng.choice([32768, 1, 65536])))
        else:
            opts.append((k, rng.choice([None, '10.0.0.1@53'])))
    noise1 = bytes(rng.randrange(1, 256) for _ in range(rng.choice([0, 0, 3, 30])))
    noise2 = bytes(rng.randrange(1, 256) for _ in range(rng.choice([0, 0, 2])))
    body = rng.choice([b'SSHUTTLE0001'] * 5 + [b'SSHUTTLE0002', b'SSHUTTLE000', b''])
    tail = b'SS\x00\x00\x42\x07\x00\x00' if len(body) == 12 and rng.random() < 0.5 else b''
    stream = noise1 + b'\0' + noise2 + b'\0' + body + tail
    n = len(stream)
    cuts = sorted(set(rng.randrange(1, n) for _ in range(rng.choice([0, 1, 2, n // 2, n])))) if n > 1 else []
    chunks = [stream[a:b] for a, b in zip([0] + cuts, cuts + [n])]
    grant = rng.choice([None, 0, 1, 7, 15, 100])
    files = {n: b'# %d\n' % rng.randrange(100) for n in names}
    files['sshuttle.server'] = SERVER_STANDIN
    if rng.random() < 0.5:
        opts = distinct_options(rng, keys)     # pairwise different: an option fed from its sibling's value shows
    case = dict(files={n: hexb(d) for n, d in files.items()}, options=opts, chunks=[hexb(c) for c in chunks], grant=grant,
                level=next_level())
    ev, outcome, got = run_main(case, scratch)
    main_check(ctx, case, ev, outcome, got, log)


@leveled
def run_main(case, scratch):
    chunks = [common.unhex(c) for c in case['chunks']]
    obs = run_connect(dict(files={n: common.unhex(d) for n, d in case.get('files', {}).items()},
                           options=[tuple(o) for o in case['options']], level=case.get('level', 0)), scratch,
                      via_main=True, server_chunks=chunks, grants=[case['grant']], stop_at=3)
    case['_obs'] = obs
    return obs['events'], obs['outcome'], obs.get('got')


def split_upload(events, nasm):
    """what the client wrote before it first read the server's output, as (assembler part, rest)"""
    first_read = next((i for i, (k, _d) in enumerate(events) if k == 'r'), len(events))
    up = b''.join(d for i, (k, d) in enumerate(events) if k == 'w' and i < first_read)
    return up[:nasm], up[nasm:], first_read


def main_trace(events, outcome, got, nasm):
    """canonical trace: the upload (split where the one-liner's read ends), later writes, and `sync` at the
    point where the last handshake read returned"""
    c1, c2, first_read = split_upload(events, nasm)
    last_read = max([i for i, (k, _d) in enumerate(events) if k == 'r'], default=-1)
    toks = ['w:' + sum_of(c1), 'w:' + sum_of(c2)]
    if last_read < 0 and outcome == 'ok':
        toks.append('sync')
    for i, (k, d) in enumerate(events):
        if k == 'w' and i >= first_read:
            toks.append('w:' + sum_of(d))
        if i == last_read and outcome == 'ok':
            toks.append('sync')
    if outcome == 'fatal':
        toks.append('fatal:' + hexb(got))
    elif outcome != 'ok':
        toks.append(str(outcome))
    return ' '.join(toks)


def main_check(ctx, case, events, outcome, got, log):
    obs = case.pop('_obs', None) or {}
    if is_artefact(obs.get('error')):
        return
    argv = obs['popen'][0] if obs.get('popen') else []
    m = re.search(r'stdin\.read\((\d+)\)', ' '.join(argv))
    nasm = int(m.group(1)) if m else 0
    c1, c2, first_read = split_upload(events, nasm)
    line = 'main c1=%s c2=%s grant=%s srv=%s' % (hexb(c1), hexb(c2), 'N' if case['grant'] is None else case['grant'],
                                                ','.join(c for c in case['chunks'] if c != '-') or '_')
    log.add(line, main_trace(events, outcome, got, nasm))
    log.nontrivial = True
    # oracle 1: no tunnel write between the upload and the read that completed the init string
    last_read = max([i for i, (k, _d) in enumerate(events) if k == 'r'], default=-1)
    early = [i for i, (k, _d) in enumerate(events) if k == 'w' and first_read <= i < last_read]
    later = [i for i, (k, _d) in enumerate(events) if k == 'w' and i >= first_read]
    bad = None
    if early:
        bad = 'write of %s before the init string was read' % sum_of(events[early[0]][1])
    elif outcome == 'fatal' and later:
        bad = 'write after a failed handshake'
    # oracle 2: the upload the real client._main produced, decoded by the real bootstrap: the modules are the
    # client's files and server.main is entered with the values client._main was given, name by name
    r = None
    if not obs.get('error') and nasm:
        import random as _random
        r = remote_run(c1 + c2, nasm, size_policy(_random.Random(case.get('level', 0)), 'rand'), 8192,
                       {'sshuttle.server', 'sshuttle.cmdline_options'},
                       pyscript=argv[2] if len(argv) == 3 and argv[1] == '-c' else None)
        if r['end'] != 'done' or r['rest'] != b'':
            bad = bad or 'upload does not assemble: end=%s, %d bytes left over' % (r['end'], len(r['rest']))
    if bad:
        ctx.violation('C18:order:write-before-sync' if 'assemble' not in bad else 'C18:main:upload-corrupted',
                      case=dict(case, stream='main'),
                      expected='before sync the client writes the upload (assembler, packaged modules) and nothing else',
                      observed=bad, kind='ops')
    if r is not None and r['end'] == 'done':
        kind, ent = entered_with(r['main_args'])
        wrong = binding_problem([tuple(o) for o in case['options']], kind, ent)
        if wrong:
            ctx.violation('C18:options:client-main-to-server-main', case=dict(case, stream='main'),
                          expected=['%s=%s' % (k, val_tok(v)) for k, v in case['options']], observed=wrong,
                          note='real client._main given these session options -> real ssh.connect -> real assembler -> '
                               'arguments of main bound by the real server.main parameter list', kind='input')


# ---------------------------------------------------------------- (g) the option values the command line really produces

CMDLINES = [
    ['-r', 'host', '10.0.0.0/8'],
    ['-r', 'host', '--ns-hosts', '10.9.8.7', '--to-ns', '192.0.2.1:53', '10.0.0.0/8'],
    ['-r', 'host', '--ns-hosts', '10.9.8.7', '--to-ns', '[2001:db8::1]:5353', '10.0.0.0/8'],
    ['-r', 'host', '--ns-hosts', '10.9.8.7,10.9.8.8', '--to-ns', '192.0.2.9', '-N', '-H', '10.0.0.0/8'],
    ['-r', 'host', '--ns-hosts', '10.9.8.7', '10.0.0.0/8'],
    ['-r', 'host', '--to-ns', '192.0.2.1:53', '10.0.0.0/8'],
    ['-r', 'host', '--no-latency-control', '--latency-buffer-size', '1', '-N'],
    ['-r', 'host', '--latency-buffer-size', '65536', '-H', '--ns-hosts', '10.9.8.7', '--to-ns', '127.0.0.1:5300', '0/0'],
]


def observe_cmdline(argv):
    """The real cmdline.main -> client.main on this command line, up to its call of client._main: returns the
    arguments _main is called with, by name (the firewall helper process is faked; no ssh, no root needed)."""
    import inspect
    import sshuttle.client as client
    import sshuttle.cmdline as cmdline
    import sshuttle.helpers as helpers
    import sshuttle.methods as methods
    import sshuttle.sdnotify as sdnotify
    seen = {}
    real_main = client._main

    class Fw:
        def __init__(self, method_name, sudo_pythonpath):
            self.auto_nets = []
            self.method = methods.get_method('nat')
            self.method.set_firewall(self)
            self.p = None

        def setup(self, *a, **k):
            pass

        def done(self):
            pass

    def recorder(*a, **k):
        seen.update(inspect.signature(real_main).bind(*a, **k).arguments)
        return 0
    saved = (client.FirewallClient, client._main, sdnotify.send, sys.argv, sys.stdout, sys.stderr, helpers.verbose,
             helpers.logprefix, os.environ.pop('SSHUTTLE_ARGS', None))
    client.FirewallClient, client._main, sdnotify.send = Fw, recorder, (lambda *a: False)
    sys.argv = ['sshuttle', '--method', 'nat', '--disable-ipv6'] + list(argv)
    sys.stdout, sys.stderr = io.StringIO(), io.StringIO()
    err = None
    try:
        try:
            cmdline.main()
        except SystemExit as e:
            err = 'exit %s: %s' % (e.code, sys.stderr.getvalue()[-200:])
        except Exception as e:  # noqa
            err = '%s: %s' % (type(e).__name__, e)
    finally:
        (client.FirewallClient, client._main, sdnotify.send, sys.argv, sys.stdout, sys.stderr, helpers.verbose,
         helpers.logprefix) = saved[:8]
        if saved[8] is not None:
            os.environ['SSHUTTLE_ARGS'] = saved[8]
        for k in ('tcp_listener', 'udp_listener', 'dns_listener'):
            l = seen.get(k)
            for half in (getattr(l, 'v4', None), getattr(l, 'v6', None)):
                try:
                    if half is not None:
                        half.close() if hasattr(half, 'close') else None
                except Exception:  # noqa
                    pass
    return seen, err


PLAIN = (bool, int, type(None), str, list, tuple, float, bytes, dict)


def cmdline_problems(argv, level, scratch):
    """real command line -> real client.main -> real _main -> real ssh.connect -> real bootstrap/assembler ->
    what server.main is entered with.  -> (problems [(key, expected, observed)], note)"""
    okeys = client_option_keys()
    with at_level(level):
        seen, err = observe_cmdline(argv)
    if not seen:
        return [], 'client.main did not reach _main (%s)' % err      # not a case (e.g. no bindable port here)
    opts = [(k, seen[k]) for k in okeys if k in seen]
    files = {n: b'# m\n' for n in packaged_names()}
    files['sshuttle.server'] = SERVER_STANDIN
    obs = run_connect(dict(files=files, options=opts, level=level), scratch, via_main=True,
                      server_chunks=[b'\0\0SSHUTTLE0001'], grants=[100], stop_at=3)
    if is_artefact(obs.get('error')):
        return [], obs['error']
    shown = ['%s=%r' % (k, v) for k, v in opts]
    if obs.get('error'):
        return [('C18:cmdline:connect-raised', shown, obs['error'])], ''
    argv2 = obs['popen'][0] if obs.get('popen') else []
    m = re.search(r'stdin\.read\((\d+)\)', ' '.join(argv2))
    nasm = int(m.group(1)) if m else 0
    c1, c2, _fr = split_upload(obs['events'], nasm)
    r = remote_run(c1 + c2, nasm, size_policy(None, 'all'), 8192, {'sshuttle.server', 'sshuttle.cmdline_options'},
                   pyscript=argv2[2] if len(argv2) == 3 and argv2[1] == '-c' else None)
    if r['end'] != 'done':
        return [('C18:options:not-evaluable-remotely', shown,
                 'the remote interpreter ended with %s while assembling (modules so far: %s)'
                 % (r['end'], [n for n, _c in r['compiled']]))], ''
    kind, ent = entered_with(r['main_args'])
    if kind != 'ok':
        return [('C18:options:not-evaluable-remotely', shown, '%s: %s' % (kind, ent))], ''
    out = []
    want = dict(opts)
    for prm, v in ent:
        if prm in want and (v != want[prm] or type(v) is not type(want[prm]) or type(v) not in PLAIN):
            out.append(('C18:options:cmdline-value-differs', '%s=%r (%s)' % (prm, want[prm], type(want[prm]).__name__),
                        '%s=%r (%s)' % (prm, v, type(v).__name__)))
    for k in want:
        if k not in dict(ent):
            out.append(('C18:options:cmdline-value-differs', '%s=%r' % (k, want[k]), 'never handed to server.main'))
    return out, ''


def cmdline_cases(ctx, rng, scratch):
    seen_keys = set()
    for argv in CMDLINES:
        level = next_level()
        probs, note = cmdline_problems(argv, level, scratch)
        ctx.count()
        ctx.hist('cmdline' if not note else 'cmdline:skipped')
        if note:
            ctx.notes.append('cmdline %s: %s' % (' '.join(argv), note))
        ctx.mark(('cmdline', argv, level))
        for key, exp, ob in probs:
            if key in seen_keys:
                continue
            seen_keys.add(key)
            ctx.violation(key, case=dict(stream='cmdline', argv=list(argv), level=level), expected=exp, observed=ob,
                          note='sshuttle %s: the session options client.main forms, through the real serialisation, remote '
                               'exec and server.main binding' % ' '.join(argv), kind='input')


# ---------------------------------------------------------------- (e) entering the real server.main

_OBSERVED_KEYS = {}


def observe_client_options(args):
    """Run the real client._main with `args` (its own parameters, by name) up to its call of ssh.connect and
    return the options mapping it hands over (None if it never gets there)."""
    ssh, _ssnet, client, _helpers = _mods()
    seen = {}

    def recorder(*a, **k):
        import inspect
        try:
            b = inspect.signature(real).bind(*a, **k)
            seen['options'] = b.arguments.get('options')
        except TypeError:
            seen['options'] = k.get('options')
        raise _Stop()
    real = ssh.connect
    old_err = sys.stderr
    ssh.connect = recorder
    sys.stderr = io.StringIO()
    try:
        try:
            call_client_main(client, dict(args), _Listener(), _Fw())
        except _Stop:
            pass
        except Exception:  # noqa
            pass
    finally:
        ssh.connect = real
        sys.stderr = old_err
    o = seen.get('options')
    return list(o.items()) if hasattr(o, 'items') else None


def client_option_keys():
    """the names of the session options: the keys of the mapping the real client._main passes to ssh.connect
    (observed, whatever the shape of the code that builds it)"""
    if common.REPO not in _OBSERVED_KEYS:
        import inspect
        client = _mods()[2]
        params = list(inspect.signature(client._main).parameters)
        got = observe_client_options({p_: ('c18-probe', i) for i, p_ in enumerate(params)})
        _OBSERVED_KEYS[common.REPO] = [k for k, _v in got] if got else []
    return list(_OBSERVED_KEYS[common.REPO])


def distinct_options(rng, keys):
    """random option values, pairwise different (so an exchange of two of them is visible)"""
    while True:
        opts = [(k, rand_option_value(rng)) for k in keys]
        if len({val_tok(v) for _k, v in opts}) == len(opts):
            return opts


def enter_main(opts):
    """The argument expressions of assembler.py's real `main(...)` call, evaluated on an options
    module holding `opts` (any list of (name, value): the client's options, or what the uploaded
    module evaluates to), bound against the signature of the real `sshuttle.server.main`.
    -> ('ok', [(param, value)]) | ('typeError', msg) | ('attributeError', msg)"""
    import ast
    import inspect
    import sshuttle.server as server
    with open(os.path.join(common.REPO, 'sshuttle', 'assembler.py'), 'rb') as f:
        tree = ast.parse(f.read())
    call = [c for c in ast.walk(tree) if isinstance(c, ast.Call) and isinstance(c.func, ast.Name) and c.func.id == 'main'][0]
    ns = {'options': types.SimpleNamespace(**dict(opts))}

    def ev(e):
        return eval(builtins.compile(ast.Expression(e), 'assembler.py', 'eval'), ns)
    try:
        args = [ev(e) for e in call.args]
        kwargs = {kw.arg: ev(kw.value) for kw in call.keywords}
    except AttributeError as e:
        return 'attributeError', str(e)
    try:
        b = inspect.signature(server.main).bind(*args, **kwargs)
    except TypeError as e:
        return 'typeError', str(e)
    return 'ok', list(b.arguments.items())


def binding_problem(opts, kind, got):
    if kind != 'ok':
        return '%s: %s' % (kind, got)
    want = dict(opts)
    for p, v in got:
        if p not in want:
            return 'parameter %s of server.main is not an option the client sends' % p
        if val_tok(v) != val_tok(want[p]):
            return 'server.main parameter %s = %s, the client gave %s = %s' % (p, val_tok(v), p, val_tok(want[p]))
    missing = [k for k in want if k not in dict(got)]
    if missing:
        return 'options never handed to server.main: %s' % missing
    return None


def binding_case(ctx, opts, log):
    kind, got = enter_main(opts)
    out = ','.join('%s:%s' % (p, val_tok(v)) for p, v in got) if kind == 'ok' else kind
    log.add('enter o=%s' % opts_tok(opts), out)
    log.nontrivial = True
    bad = binding_problem(opts, kind, got)
    if bad:
        ctx.violation('C18:options:server-main-binding', case=dict(stream='binding', options=[[k, v] for k, v in opts]),
                      expected='every parameter of the real server.main receives the client\'s option of the same name',
                      observed=bad, note='assembler.py\'s call expression bound against the real server.main signature',
                      kind='input')


# ---------------------------------------------------------------- (f) whole session start: connect -> transport -> assembler -> main

FALSY = [False, 0, None, '', []]


def falsy_option_sets(rng, keys):
    """every option takes every falsy value once (the others pairwise distinct and truthy or random), plus
    all-falsy sets: a value that is dropped or defaulted anywhere on the way shows up"""
    out = []
    for k in keys:
        for f in FALSY:
            base = dict(distinct_options(rng, keys))
            base[k] = f
            out.append([(kk, base[kk]) for kk in keys])
    for f in FALSY:
        out.append([(k, f) for k in keys])
    out.append([(k, rng.choice(FALSY)) for k in keys])
    return out


class PartialStdin:
    """the child's unbuffered stdin pipe: a raw write() takes at most `limit` bytes and says how many"""

    def __init__(self, limit):
        self.limit = limit
        self.buf = bytearray()

    def write(self, b):
        n = len(b) if self.limit is None else min(self.limit, len(b))
        self.buf += bytes(b[:n])
        return n

    def flush(self):
        pass

    def close(self):
        pass


class BlockingStdout:
    """the child's stdout: silent until released, then EOF"""

    def __init__(self):
        self.ev = threading.Event()

    def read(self, n=-1):
        self.ev.wait(30)
        return b''

    def close(self):
        pass


def session_paths(case, scratch):
    real_dir = os.path.join(common.REPO, 'sshuttle')

    class Paths(dict):
        def get(self, name, default=None):
            if name in case['files']:
                if name not in self:
                    self[name] = scratch.put(case['files'][name])
                return self[name]
            rel = name.split('.')[1:] if name != 'sshuttle' else ['__init__']
            p = os.path.join(real_dir, *rel) + '.py'
            return p if os.path.exists(p) else None
    return Paths()


@leveled
def run_connect_win32(case, scratch, limit):
    """The win32 branch of the real ssh.connect: pipes to the child plus the real helpers.SocketRWShim
    threads.  Faked: sys.platform as ssh sees it, Popen, the file lookup, and the child's two pipe ends
    (stdin accepts at most `limit` bytes per write).  Returns what reached the child's stdin."""
    import socket as _socket
    ssh = _mods()[0]
    fi = FakeImportlib(session_paths(case, scratch))
    child_in, child_out, done = PartialStdin(limit), BlockingStdout(), threading.Event()
    popen_args = []

    class Proc:
        pid = 4242
        stdin = child_in
        stdout = child_out

        def terminate(self):
            done.set()

        def poll(self):
            return None

    def popen(argv, **kw):
        popen_args.append(list(argv))
        return Proc()
    saved = (ssh.importlib, ssh.ssubprocess, ssh.sys)
    old_err = sys.stderr
    ssh.importlib = fi
    ssh.ssubprocess = types.SimpleNamespace(Popen=popen, PIPE=subprocess.PIPE)
    ssh.sys = types.SimpleNamespace(platform='win32', executable=sys.executable, exit=sys.exit)
    sys.stderr = io.StringIO()
    obs = dict(error=None)
    rfile = wfile = None
    try:
        try:
            _p, rfile, wfile = ssh.connect(None, None, None, None, False, None, dict(case['options']))
            wfile._sock.shutdown(_socket.SHUT_WR)      # end of upload: lets the pump drain and finish
            if not done.wait(20):
                obs['error'] = 'pump-did-not-finish'
        except AttributeError as e:
            obs['error'] = classify_attribute_error(e)
        except (UnicodeError, ImportError, SyntaxError, OSError) as e:
            obs['error'] = type(e).__name__
    finally:
        child_out.ev.set()
        ssh.importlib, ssh.ssubprocess, ssh.sys = saved
        sys.stderr = old_err
        for f in (rfile, wfile):
            try:
                if f is not None:
                    f.close()
            except OSError:
                pass
    obs.update(stream=bytes(child_in.buf), popen=popen_args, asked=[a for a in fi.asked if a != 'sshuttle.assembler'],
               asked_all=list(fi.asked), paths=fi.paths)
    return obs


@leveled
@leveled
def run_connect_socket(case, scratch, bufsize):
    """The posix branch of the real ssh.connect over a real socket pair whose kernel buffers are `bufsize`
    bytes; the "child" (a thread holding the descriptor Popen was given) takes the upload slowly, so a write
    larger than the buffers has to wait for it.  Returns what reached the child's stdin."""
    import socket as _socket
    import time as _time
    ssh = _mods()[0]
    fi = FakeImportlib(session_paths(case, scratch))
    popen_args, got, fds, pairs = [], bytearray(), [], []
    done = threading.Event()

    def drain(fd):
        try:
            while True:
                d = os.read(fd, 1500)
                if not d:
                    break
                got.extend(d)
                _time.sleep(0.0005)
        except OSError:
            pass
        finally:
            done.set()

    class Proc:
        pid = 4242

        def poll(self):
            return None

    def popen(argv, stdin=None, **kw):
        popen_args.append(list(argv))
        fd = os.dup(stdin)                   # the child's inherited descriptor
        fds.append(fd)
        threading.Thread(target=drain, args=(fd,), daemon=True).start()
        return Proc()

    class SockMod:
        def __getattr__(self, name):
            return getattr(_socket, name)

        def socketpair(self, *a, **k):
            s1, s2 = _socket.socketpair(*a, **k)
            for x in (s1, s2):
                x.setsockopt(_socket.SOL_SOCKET, _socket.SO_SNDBUF, bufsize)
                x.setsockopt(_socket.SOL_SOCKET, _socket.SO_RCVBUF, bufsize)
            pairs.append((s1, s2))
            return s1, s2
    saved = (ssh.importlib, ssh.ssubprocess, ssh.socket)
    old_err = sys.stderr
    ssh.importlib = fi
    ssh.ssubprocess = types.SimpleNamespace(Popen=popen, PIPE=subprocess.PIPE)
    ssh.socket = SockMod()
    sys.stderr = io.StringIO()
    obs = dict(error=None)
    rfile = wfile = None
    try:
        try:
            _p, rfile, wfile = ssh.connect(None, None, None, None, False, None, dict(case['options']))
            wfile._sock.shutdown(_socket.SHUT_WR)
            if not done.wait(30):
                obs['error'] = 'child-did-not-see-eof'
        except AttributeError as e:
            obs['error'] = classify_attribute_error(e)
        except (UnicodeError, ImportError, SyntaxError) as e:
            obs['error'] = type(e).__name__
        except OSError as e:
            obs['error'] = 'raised-' + type(e).__name__
    finally:
        ssh.importlib, ssh.ssubprocess, ssh.socket = saved
        sys.stderr = old_err
        for f in (rfile, wfile):
            try:
                if f is not None:
                    f.close()
            except OSError:
                pass
        done.wait(2)
        for fd in fds:
            try:
                os.close(fd)
            except OSError:
                pass
        for s1, s2 in pairs:
            for x in (s1, s2):
                try:
                    x.close()
                except OSError:
                    pass
    obs.update(stream=bytes(got), popen=popen_args, asked=[a for a in fi.asked if a != 'sshuttle.assembler'],
               asked_all=list(fi.asked), paths=fi.paths)
    return obs


def run_session(case, scratch):
    """case: dict(files, options, transport='posix'|'win32', limit, policy, bufsize).  Real connect, the
    transport, then the real assembler on what arrived.  -> (obs, remote result or None)"""
    if case['transport'] == 'win32':
        obs = run_connect_win32(case, scratch, case.get('limit'))
    elif case['transport'] == 'socket':
        obs = run_connect_socket(case, scratch, case.get('sockbuf', 4096))
    else:
        obs = run_connect(dict(files=case['files'], options=case['options'], level=case.get('level', 0)), scratch)
        obs['stream'] = b''.join(d for k, d in obs['events'] if k == 'w')
    if obs['error']:
        return obs, None
    m = re.search(r'stdin\.read\((\d+)\)', ' '.join(obs['popen'][0])) if obs['popen'] else None
    obs['nasm'] = int(m.group(1)) if m else 0
    import random as _random
    argv = obs['popen'][0] if obs['popen'] else []
    r = remote_run(obs['stream'], obs['nasm'], size_policy(_random.Random(case.get('size_seed', 0)), case.get('policy', 'all')),
                   case.get('bufsize', 8192), {'sshuttle.server', 'sshuttle.cmdline_options'},
                   pyscript=argv[2] if len(argv) == 3 and argv[1] == '-c' else None)
    return obs, r


def session_problems(case, obs, r):
    """the property on one whole session start -> [(key, expected, observed)]"""
    opts = case['options']
    if is_artefact(obs['error']):
        return []
    if obs['error']:
        return [('C18:session:connect-raised', 'upload written', obs['error'])]
    disk = {n: file_bytes(obs['paths'].get(n)) for n in obs['asked_all'] if obs['paths'].get(n)}
    out = []
    if r['asm'] != disk.get('sshuttle.assembler'):
        out.append(('C18:session:upload-corrupted', 'assembler source ' + desc(disk.get('sshuttle.assembler', b'')),
                    desc(r['asm'])))
        return out
    want = packaged_names()
    got = r['compiled']
    if [n for n, _ in got] != want or r['end'] != 'done':
        out.append(('C18:session:upload-corrupted', want, dict(names=[n for n, _ in got], end=r['end'])))
        return out
    for n, have in got:
        if n in disk and have != disk[n]:
            out.append(('C18:session:upload-corrupted', dict(module=n, file=desc(disk[n])), desc(have)))
    if r['rest'] != b'':
        out.append(('C18:session:upload-corrupted', 'nothing after the terminator', desc(r['rest'])))
    kind, ent = entered_with(r['main_args'])
    bad = binding_problem(opts, kind, ent)
    if bad:
        out.append(('C18:options:server-main-entered', ['%s=%s' % (k, val_tok(v)) for k, v in opts], bad))
    return out


def sized_source(kind, n, seed):
    """module source of exactly `n` bytes, a function of (kind, n, seed) alone: 'rep' is highly compressible
    text, 'rnd' is incompressible bytes"""
    import random as _random
    if kind == 'rnd':
        return _random.Random(seed).randbytes(n)
    line = b'# %08d sshuttle sshuttle sshuttle sshuttle sshuttle sshuttle sshuttle\n' % (seed % 10 ** 8)
    return (line * (n // len(line) + 1))[:n]


def files_json(case):
    gen = case.get('gen') or {}
    return {n: ('gen:%s:%d:%d' % tuple(gen[n]) if n in gen else hexb(d)) for n, d in case['files'].items()}


def files_unjson(files):
    out = {}
    for n, d in files.items():
        if d.startswith('gen:'):
            _g, kind, size, seed = d.split(':')
            out[n] = sized_source(kind, int(size), int(seed))
        else:
            out[n] = common.unhex(d)
    return out


def desc(b):
    b = bytes(b)
    return sum_of(b) if len(b) <= 100000 else '%d:sha1=%s' % (len(b), hashlib.sha1(b).hexdigest()[:16])


def session_case_json(case):
    c = dict(case, stream='session', files=files_json(case), options=[[k, v] for k, v in case['options']])
    c.pop('gen', None)
    return c


def session_case(ctx, case, scratch, log, seen):
    obs, r = run_session(case, scratch)
    ctx.count()
    ctx.hist('session:%s%s' % (case['transport'], ':limit=%s' % case.get('limit') if case['transport'] == 'win32' else
                               ':sockbuf=%s' % case.get('sockbuf') if case['transport'] == 'socket' else ''))
    if r is not None and not r['end'].startswith(('crashed', 'asmBroken')) and len(obs['stream']) <= 300000:
        log.add(boot_line(obs['nasm'], [], r, obs['stream']), boot_out(r))
        log.nontrivial = True
    if r is not None and r['end'] == 'done':
        # the same session through the model: the uploaded options module evaluated, and main entered
        for n, content in r['compiled']:
            if n == 'sshuttle.cmdline_options':
                vals = eval_module(content)
                log.add('evalopts %s' % hexb(content), 'none' if vals is None else 'ok ' + opts_tok(vals))
        kind, ent = entered_with(r['main_args'])
        log.add('enter o=%s' % opts_tok(case['options']),
                ','.join('%s:%s' % (p_, val_tok(v)) for p_, v in ent) if kind == 'ok' else kind)
    for key, exp, ob in session_problems(case, obs, r):
        if key in seen:
            continue
        seen.add(key)
        ctx.violation(key, case=session_case_json(case), expected=exp, observed=ob,
                      note='real ssh.connect -> %s transport -> real assembler.py -> arguments of main, bound by the real '
                           'server.main parameter list' % case['transport'], kind='input')


def sessions_problems(cases, scratch):
    """several sessions opened one after the other by the same process; each upload is decoded on its own by
    a fresh remote interpreter -> [(index, key, expected, observed)]"""
    out = []
    for i, c in enumerate(cases):
        obs, r = run_session(c, scratch)
        for key, exp, ob in session_problems(c, obs, r):
            out.append((i, key, exp, ob))
    return out


def sessions_case(ctx, cases, scratch, seen):
    ctx.count(len(cases))
    ctx.hist('sessions-in-one-process:%d' % len(cases))
    ctx.mark(('sessions', [session_case_json(c) for c in cases]))
    for i, key, exp, ob in sessions_problems(cases, scratch):
        key = key + ':later-session' if i > 0 else key
        if key in seen:
            continue
        seen.add(key)
        ctx.violation(key, case=dict(stream='sessions', sessions=[session_case_json(c) for c in cases]),
                      expected=exp, observed='session #%d of %d opened by this process: %s' % (i + 1, len(cases), ob),
                      note='the real ssh.connect called several times in one process; every upload decoded on its own by the '
                           'real bootstrap/assembler', kind='ops')


def session_cases(ctx, rng, scratch, names, okeys, logs):
    seen = set()

    def tiny():
        files = {'sshuttle.server': SERVER_STANDIN}
        for n in names:
            if n not in ('sshuttle.cmdline_options', 'sshuttle.server'):
                files[n] = gen_source(rng, rng.choice(['small-py', 'mixed', 'crlf', 'one']), False)
        return files

    def one(opts, transport='posix', files=None):
        return dict(files=files if files is not None else tiny(), options=opts, transport=transport, limit=None,
                    policy=rng.choice(POLICIES), bufsize=8192, size_seed=rng.randrange(1 << 30), level=next_level())
    # the same session twice, two different sessions, three sessions over both transports, real sources twice
    for _ in range(ctx.scale(2, 10)):
        a, b = distinct_options(rng, okeys), distinct_options(rng, okeys)
        fa = tiny()
        sessions_case(ctx, [one(a, files=fa), one(a, files=fa)], scratch, seen)
        sessions_case(ctx, [one(a), one(b)], scratch, seen)
        sessions_case(ctx, [one(a, 'win32'), one(b), one(a)], scratch, seen)
    sessions_case(ctx, [one(distinct_options(rng, okeys), files={'sshuttle.server': SERVER_STANDIN}) for _ in range(2)],
                  scratch, seen)

    def files_for(small):
        files = {'sshuttle.server': SERVER_STANDIN}
        for n in names:
            if n in ('sshuttle.cmdline_options', 'sshuttle.server'):
                continue
            if small or rng.random() < 0.7:
                files[n] = gen_source(rng, rng.choice(['small-py', 'mixed', 'crlf', 'utf8', 'one', 'bom', 'latin1-coding']), False)
        return files       # names not listed are read from the working tree itself (the real sources)
    lg = Log('session')
    # module sources across orders of magnitude, compressible and incompressible, around the 64 KiB and 1 MiB marks
    blobs = [n for n in names if n not in ('sshuttle.cmdline_options', 'sshuttle.server')]
    K64, M1 = 1 << 16, 1 << 20
    sweeps = [[('rep', M1 + 1), ('rep', 1), ('rep', 0), ('rnd', K64 + 1)],
              [('rnd', M1), ('rep', M1 - 1), ('rep', K64 - 1), ('rnd', 1)],
              [('rep', 3 * M1 + 17), ('rnd', K64), ('rep', K64), ('rnd', 0)]]
    if ctx.thorough:
        sweeps += [[('rnd', M1 + 1), ('rnd', M1 - 1), ('rep', M1), ('rep', 2 * M1)],
                   [('rnd', 5 * M1 + 3), ('rep', 7), ('rnd', 4096), ('rep', 4 * M1)],
                   [('rep', M1 + 4096), ('rep', M1 + 4096), ('rnd', 2 * M1 + 1), ('rnd', 255)]]
    for sweep in sweeps * ctx.boost:
        order = list(blobs)
        rng.shuffle(order)
        gen = {n: (k, size, rng.randrange(1 << 30)) for n, (k, size) in zip(order, sweep)}
        files = {n: sized_source(*g) for n, g in gen.items()}
        files['sshuttle.server'] = SERVER_STANDIN
        for n in blobs:
            files.setdefault(n, b'# %s\n' % n.encode())
        for k, size in sweep:
            ctx.hist('size:%s:%s' % (k, '0' if size == 0 else '1' if size == 1 else '~64K' if size < 200000 else
                                     '~1M' if size < M1 + 5000 else '>1M'))
        session_case(ctx, dict(files=files, gen=gen, options=distinct_options(rng, okeys), transport='posix', limit=None,
                               policy=rng.choice([4096, 'all', 'rand']), bufsize=rng.choice([8192, 1 << 17]),
                               size_seed=rng.randrange(1 << 30), level=next_level()), scratch, lg, seen)
    sets = falsy_option_sets(rng, okeys)
    for i, opts in enumerate(sets):
        tr = 'win32' if i % 6 == 5 else 'posix'
        session_case(ctx, dict(files=files_for(True), options=opts, transport=tr, limit=rng.choice([None, 1000]),
                               policy=rng.choice(POLICIES), bufsize=8192, size_seed=rng.randrange(1 << 30),
                               level=next_level()), scratch, lg, seen)
    # the posix branch over a real socket pair: uploads several times larger than the kernel's socket buffers
    for sockbuf, extra in [(4096, None), (4096, ('rnd', 70000)), (65536, ('rnd', 400000))] * ctx.scale(1, 3):
        files, gen = {'sshuttle.server': SERVER_STANDIN}, {}
        if extra:
            n = rng.choice(blobs)
            gen[n] = (extra[0], extra[1], rng.randrange(1 << 30))
            files[n] = sized_source(*gen[n])
        session_case(ctx, dict(files=files, gen=gen, options=distinct_options(rng, okeys), transport='socket', sockbuf=sockbuf,
                               limit=None, policy=rng.choice([4096, 'all']), bufsize=8192, size_seed=rng.randrange(1 << 30),
                               level=next_level()), scratch, lg, seen)
    for limit in [None, 1, 1000, 4096] * ctx.scale(1, 4):
        for small in (True, False):
            session_case(ctx, dict(files=files_for(small and limit == 1), options=distinct_options(rng, okeys), transport='win32',
                                   limit=limit, policy=(rng.choice(POLICIES) if small and limit == 1 else rng.choice([4096, 'all'])),
                                   bufsize=8192, size_seed=rng.randrange(1 << 30), level=next_level()), scratch, lg, seen)
    logs.append(lg)


# ---------------------------------------------------------------- (ii) thorough: a real child interpreter

SUB_PKG_INIT = (b"import sys, builtins, hashlib, json\n"
                b"_rec = {}\n"
                b"_rec['sshuttle'] = hashlib.sha256(sys._getframe(1).f_globals['content']).hexdigest()\n"
                b"_orig = builtins.compile\n"
                b"def _compile(src, name, mode, *a, **k):\n"
                b"    if isinstance(src, (bytes, bytearray)):\n"
                b"        _rec[name] = hashlib.sha256(src).hexdigest()\n"
                b"    return _orig(src, name, mode, *a, **k)\n"
                b"builtins.compile = _compile\n")
# appended to the REAL sshuttle/server.py: `main` is entered by the real assembler call, its arguments are
# bound by the real parameter list, reported, and the I/O loop is not started
SUB_SERVER_TRAILER = (b"\n\nimport inspect as _c18_inspect, json as _c18_json\n"
                      b"_c18_real_main = main\n"
                      b"def main(*a, **k):\n"
                      b"    import sshuttle\n"
                      b"    b = _c18_inspect.signature(_c18_real_main).bind(*a, **k)\n"
                      b"    out = dict(rec=sshuttle._rec, bound=[[n, type(x).__name__, (list(map(ord, x)) if isinstance(x, str) else x)]\n"
                      b"                                         for n, x in b.arguments.items()])\n"
                      b"    sys.stdout.write('\\0\\0SSHUTTLE0001' + _c18_json.dumps(out))\n"
                      b"    sys.stdout.flush()\n")


class _SegWriter:
    """Unbuffered socket writer that hands every write to the kernel in three segments a few
    milliseconds apart: what an ssh channel or a slow link does to the upload."""

    def __init__(self, f):
        self._f = f

    def write(self, b):
        import time as _time
        b = bytes(b)
        n = len(b)
        cuts = sorted(set([n // 3, (2 * n) // 3, n]))
        pos = 0
        for c in cuts:
            if c > pos:
                mv = memoryview(b)[pos:c]
                while len(mv):
                    k = self._f.write(mv)
                    mv = mv[k if k is not None else len(mv):]
                pos = c
                if pos < n:
                    _time.sleep(0.04)
        return n

    def __getattr__(self, k):
        return getattr(self._f, k)


class _SegSock:
    def __init__(self, s):
        self._s = s

    def makefile(self, mode, buffering=0):
        f = self._s.makefile(mode, buffering=buffering)
        return _SegWriter(f) if 'w' in mode else f

    def __getattr__(self, k):
        return getattr(self._s, k)


class _SegSocketModule:
    """`socket` as ssh.connect sees it: socketpair() whose parent end writes in segments."""

    def __init__(self, real):
        self._real = real

    def socketpair(self, *a, **kw):
        s1, s2 = self._real.socketpair(*a, **kw)
        return s1, _SegSock(s2)

    def __getattr__(self, k):
        return getattr(self._real, k)


def subprocess_case(ctx, sub_seed, scratch, names, keys, level=0):
    """a real child interpreter runs the one-liner the real ssh.connect built at this verbosity level; the upload
    reaches it in segments a few milliseconds apart"""
    with at_level(level):
        return _subprocess_case(ctx, sub_seed, scratch, names, keys, level)


def _subprocess_case(ctx, sub_seed, scratch, names, keys, level):
    import random as _random
    rng = _random.Random(sub_seed)        # the case is a function of this seed alone (replayable)
    ssh = _mods()[0]
    files = {}
    real_dir = os.path.join(common.REPO, 'sshuttle')
    for n in names:
        if n == 'sshuttle.cmdline_options':
            continue
        if n == 'sshuttle':
            pad = rng.choice([b'', b'# \xe2\x82\xac\r\n', b'x = """a\r\nb"""\n'])
            files[n] = SUB_PKG_INIT + pad
            enc = rng.choice(['plain', 'latin1-coding', 'bom', 'crlf'])
            ctx.hist('subprocess-init:' + enc)
            if enc == 'latin1-coding':
                files[n] = b'# -*- coding: latin-1 -*-\n' + SUB_PKG_INIT + b'NAME = "caf\xe9"\n'
            elif enc == 'bom':
                files[n] = b'\xef\xbb\xbf' + SUB_PKG_INIT + b'NAME = "caf\xc3\xa9"\n'
            elif enc == 'crlf':
                files[n] = SUB_PKG_INIT.replace(b'\n', b'\r\n')
        elif n == 'sshuttle.server':
            files[n] = file_bytes(os.path.join(real_dir, 'server.py')) + SUB_SERVER_TRAILER
        else:
            rel = n.split('.')[1:]
            base = file_bytes(os.path.join(real_dir, *rel) + '.py')
            k = rng.choice(['none', 'big', 'huge', 'crlf', 'utf8'])
            ctx.hist('subprocess-trailer:' + k)
            if k == 'big':
                base += b'\n# ' + rng.randbytes(40000).hex().encode() + b'\n'
            elif k == 'huge':
                base += b'\n# ' + rng.randbytes(600000).hex().encode() + b'\n'
            elif k == 'crlf':
                base += b'\r\n# trailer\r\n# \r'
            elif k == 'utf8':
                base += ('\n# ' + ''.join(chr(rand_cp(rng)) for _ in range(500)).replace('\n', ' ').replace('\r', ' ') + '\n').encode('utf-8')
            files[n] = base
    opts = distinct_options(rng, keys)
    paths = {n: scratch.put(d) for n, d in files.items()}
    paths['sshuttle.assembler'] = os.path.join(real_dir, 'assembler.py')
    fi = FakeImportlib(paths)
    old = ssh.importlib
    ssh.importlib = fi
    old_sock = ssh.socket
    ssh.socket = _SegSocketModule(old_sock)
    old_err = sys.stderr
    sys.stderr = io.StringIO()
    p = None
    out = b''
    try:
        try:
            p, rfile, wfile = ssh.connect(None, None, None, subprocess.DEVNULL, False, None, dict(opts))
            rfile._sock.settimeout(120)
            while True:
                c = rfile.read(65536)
                if not c:
                    break
                out += c
            rfile.close()
            wfile.close()
            p.wait(timeout=60)
        except (OSError, UnicodeError) as e:
            out += b'<%s>' % type(e).__name__.encode()
    finally:
        ssh.importlib = old
        ssh.socket = old_sock
        sys.stderr = old_err
        if p is not None and p.poll() is None:
            p.kill()
    ctx.count()
    ctx.hist('subprocess')
    case = dict(stream='subprocess', sub_seed=sub_seed, level=level,
                files={n: hexb(d) if len(d) < 4096 else 'sha256:' + hashlib.sha256(d).hexdigest() for n, d in files.items()},
                options=[[k, v] for k, v in opts])
    if not out.startswith(b'\0\0SSHUTTLE0001'):
        ctx.violation('C18:subprocess:no-sync', case=case, expected='sync string then report', observed=repr(out[:80]), kind='input')
        return
    rep = json.loads(out[14:].decode('utf-8'))
    for n, d in files.items():
        want = hashlib.sha256(d).hexdigest()
        if rep['rec'].get(n) != want:
            ctx.violation('C18:subprocess:source-differs', case=case, expected='%s sha256 %s' % (n, want),
                          observed=str(rep['rec'].get(n)), kind='input')
    got = []
    for n, t, x in rep['bound']:
        got.append((n, ''.join(map(chr, x)) if t == 'str' else (None if t == 'NoneType' else (bool(x) if t == 'bool' else x))))
    bad = binding_problem(opts, 'ok', got)
    if bad:
        ctx.violation('C18:options:server-main-binding', case=case,
                      expected='every parameter of the real server.main receives the client\'s option of the same name',
                      observed=bad, note='real server.main entered by the real assembler in a child interpreter', kind='input')
    ctx.mark(('subprocess', sorted(case['files'].items()), case['options']))


# ---------------------------------------------------------------- run / replay

def compare(ctx, logs):
    if not ctx.model_available:
        ctx.notes.append('model driver unavailable: correspondence skipped, oracle only')
        return
    ins = []
    for lg in logs:
        ins.extend(lg.ins)
    outs = common.LeanBatch('C18').run(ins)
    if len(outs) != len(ins):
        ctx.corr_break('C18', case=None, impl='%d lines' % len(ins), model='%d lines' % len(outs),
                       note='driver output length differs')
        return
    pos = 0
    for lg in logs:
        n = len(lg.ins)
        mo = outs[pos:pos + n]
        pos += n
        if mo != lg.outs:
            i = next(k for k in range(n) if mo[k] != lg.outs[k])
            ctx.corr_break(lg.kind, case=[l[:2000] for l in lg.ins[i:i + 1]], impl=lg.outs[i][:2000], model=mo[i][:2000])
            if len(ctx.corr_breaks) > 20:
                return


def shrink_e2e(case, key, scratch):
    """smaller case with the same oracle key: drop unrelated modules, cut the failing source down"""
    def fails(c):
        try:
            return any(k == key for k, _e, _o in e2e_oracle(c, run_e2e(c, scratch)))
        except Exception:  # noqa
            return False
    best = dict(case, junk=b'', policy='all', bufsize=8192)
    if not fails(best):
        best = case
    for i in range(len(best['modules']) - 1, -1, -1):
        n = best['modules'][i][0]
        if n in ('sshuttle', 'sshuttle.server', 'sshuttle.cmdline_options', 'sshuttle.helpers'):
            cand = dict(best, modules=[m if j != i or m[2] == 'data' else [m[0], SERVER_STANDIN if m[0] == 'sshuttle.server' else b'#\n', 'file']
                                       for j, m in enumerate(best['modules'])])
        else:
            cand = dict(best, modules=best['modules'][:i] + best['modules'][i + 1:])
        if cand['modules'] != best['modules'] and fails(cand):
            best = cand
    for i, m in enumerate(best['modules']):
        d = m[1]
        while len(d) > 4 and m[2] == 'file' and m[0] != 'sshuttle.server':    # never cut the stand-in that reports
            for cut in (d[:len(d) // 2], d[len(d) // 2:]):
                cand = dict(best, modules=[mm if j != i else [m[0], cut, m[2]] for j, mm in enumerate(best['modules'])])
                if fails(cand):
                    best, d = cand, cut
                    break
            else:
                break
    return best


def case_json(case):
    c = dict(case)
    c['modules'] = [[n, hexb(d), v] for n, d, v in case['modules']]
    c['junk'] = hexb(case.get('junk', b''))
    c['options'] = [[k, v] for k, v in case.get('options') or []]
    c['stream'] = 'e2e'
    return c


def case_unjson(c):
    case = dict(c)
    case['modules'] = [[n, common.unhex(d), v] for n, d, v in c['modules']]
    case['junk'] = common.unhex(c.get('junk', '-'))
    case['options'] = [(k, v) for k, v in c.get('options') or []]
    return case


def run(ctx):
    rng = ctx.rng
    _LEVEL['i'], _LEVEL['shift'], _LEVEL['hist'] = 0, ctx.seed, {}
    del ARTEFACTS[:]
    scratch = Scratch()
    logs = []
    try:
        names = packaged_names()
        keys = client_option_keys()
        ctx.notes.append('packaged by ssh.connect: %s; options passed to server.main: %s' % (names, keys))
        # get_module_source alone, boundary contents first
        lg = Log('src')
        fixed = [b'', b'\n', b'x', b'a\r\nb', b'a\rb', b'\r', b'\r\n', b'\r\r\n', b'a\n\rb\r', b'caf\xc3\xa9\r\n',
                 b'\xef\xbb\xbfx=1\n', bytes(3), b'\xf0\x9f\x98\x80\r',
                 b'# -*- coding: latin-1 -*-\nNAME = "caf\xe9"\n', b'#!/bin/sh\n# coding: iso-8859-15\r\ns = "\xa4"\r\n',
                 b'\xef\xbb\xbf', b'\xef\xbb\xbf# coding: utf-8\r\nx = "\xc3\xa9"\r', b'# coding: utf-8\nx = "\xe2\x82\xac"\n']
        for d in fixed:
            src_case(ctx, scratch, d, lg, level=next_level())
            ctx.count()
        for _ in range(ctx.scale(40, 400)):
            src_case(ctx, scratch, gen_source(rng, rng.choice(['utf8', 'mixed', 'cr', 'crlf', 'one', 'zeros', 'latin1-coding', 'bom']), ctx.thorough)[:3000], lg, level=next_level())
            ctx.count()
        logs.append(lg)
        locale_case(ctx, scratch)
        lg = Log('int')
        int_cases(lg)
        logs.append(lg)
        # (a) end to end
        seen_keys = set()
        for i in range(ctx.scale(60, 300)):
            case = e2e_case(ctx, rng, scratch, names, keys, thorough_big=(ctx.thorough and i % 60 == 0))
            obs = run_e2e(case, scratch)
            lg = Log('e2e')
            e2e_lines(case, obs, lg)
            logs.append(lg)
            ctx.count()
            ctx.hist('policy:%s' % case['policy'])
            for key, exp, ob in e2e_oracle(case, obs):
                if key in seen_keys:
                    continue
                seen_keys.add(key)
                small = shrink_e2e(case, key, scratch)
                exp2 = [(k, e, o) for k, e, o in e2e_oracle(small, run_e2e(small, scratch)) if k == key]
                if exp2:
                    _k, exp, ob = exp2[0]
                ctx.violation(key, case=case_json(small), expected=exp, observed=ob,
                              note='module source as compiled on the remote side vs the client file', kind='input')
        # (b) the real connect
        for _ in range(ctx.scale(40, 300)):
            lg = Log('connect')
            connect_case(ctx, rng, scratch, names, keys, lg)
            logs.append(lg)
            ctx.count()
        # (c) malformed streams
        for _ in range(ctx.scale(60, 600)):
            lg = Log('malformed')
            malformed_case(ctx, rng, lg, level=next_level())
            logs.append(lg)
            ctx.count()
        # (d) start-up order
        for _ in range(ctx.scale(60, 600)):
            lg = Log('main')
            main_case(ctx, rng, scratch, names, keys, lg)
            logs.append(lg)
            ctx.count()
        # (e) the real call bound against the real signature
        okeys = client_option_keys()
        lg = Log('binding')
        for _ in range(ctx.scale(40, 400)):
            binding_case(ctx, distinct_options(rng, okeys), lg)
            ctx.count()
        logs.append(lg)
        # (g) option values as the real command line produces them
        cmdline_cases(ctx, rng, scratch)
        # (f) whole session starts: falsy option values, the win32 pipe transport with partial writes
        session_cases(ctx, rng, scratch, names, okeys, logs)
        if ctx.thorough:
            for _ in range(12 * ctx.boost):
                subprocess_case(ctx, rng.randrange(1 << 30), scratch, names, okeys, level=next_level())
        else:
            subprocess_case(ctx, rng.randrange(1 << 30), scratch, names, okeys, level=next_level())
    finally:
        scratch.close()
    for a in ARTEFACTS:
        ctx.corr_break('fakes', case=None, impl=a, model='-',
                       note='the real code used something the OS-boundary fakes do not provide: no verdict from those cases')
    for lv, n in sorted(_LEVEL.get('hist', {}).items()):
        ctx.hist('client-verbosity:%d' % lv, n)
    for lg in logs:
        ctx.hist(lg.kind)
        ctx.mark(lg.ins, lg.nontrivial)
    for kind in ('e2e', 'connect', 'malformed', 'main', 'src', 'binding', 'session'):
        for lg in logs:
            if lg.kind == kind and lg.ins:
                ctx.sample(dict(kind=kind, input=[l[:160] for l in lg.ins[:3]], real_code_output=[l[:160] for l in lg.outs[:3]]))
                break
    compare(ctx, logs)


def replay(ctx, rep):
    case = rep['case']
    scratch = Scratch()
    try:
        st = case.get('stream')
        if st == 'src':
            lg = Log('src')
            src_case(ctx, scratch, common.unhex(case['data']), lg, level=case.get('level', 0))
            return bool(ctx.violations), 'get_module_source: %s' % lg.outs[0][:200]
        if st == 'locale':
            locale_case(ctx, scratch)
            return bool(ctx.violations), (ctx.violations[0]['observed'] if ctx.violations else 'file bytes returned')
        if st == 'e2e':
            c = case_unjson(case)
            res = e2e_oracle(c, run_e2e(c, scratch))
            return bool(res), '; '.join('%s expected %s observed %s' % r for r in res)[:400] or 'remote modules equal the client files'
        if st == 'sessions':
            cs = [dict(c, files=files_unjson(c['files']), options=[tuple(o) for o in c['options']])
                  for c in case['sessions']]
            res = sessions_problems(cs, scratch)
            return bool(res), '; '.join('session #%d: %s: %s' % (i + 1, k, str(o)[:140]) for i, k, _e, o in res) or \
                'every one of the %d uploads decodes to the client files and options' % len(cs)
        if st == 'connect':
            c = dict(files={n: common.unhex(d) for n, d in case['files'].items()}, options=[tuple(o) for o in case['options']])
            for _again in range(2):        # first connect of this process, then a later one
                lg = Log('connect')
                connect_check(ctx, c, run_connect(c, scratch), lg)
            return bool(ctx.violations), '; '.join(sorted({v['key'] for v in ctx.violations})) or 'upload equals the client files and options'
        if st == 'main':
            ev, outcome, got = run_main(case, scratch)
            lg = Log('main')
            main_check(ctx, case, ev, outcome, got, lg)
            return bool(ctx.violations), 'trace: %s' % lg.outs[0][:300]
        if st == 'session':
            c = dict(case, files=files_unjson(case['files']), options=[tuple(o) for o in case['options']])
            res = [(k, e, o) for _i, k, e, o in sessions_problems([c, c], scratch)]
            return bool(res), '; '.join('%s: %s' % (k, str(o)[:160]) for k, _e, o in res) or \
                'the modules compiled remotely equal the client files and server.main is entered with the client\'s values'
        if st == 'cmdline':
            probs, note = cmdline_problems(case['argv'], case.get('level', 0), scratch)
            return bool(probs), '; '.join('%s: expected %s observed %s' % (k, str(e)[:120], str(o)[:160]) for k, e, o in probs) or \
                ('server.main is entered with the values the command line gives' + (' [%s]' % note if note else ''))
        if st == 'binding':
            opts = [tuple(o) for o in case['options']]
            kind, got = enter_main(opts)
            bad = binding_problem(opts, kind, got)
            return bool(bad), bad or 'server.main receives ' + ','.join('%s:%s' % (p, val_tok(v)) for p, v in got)
        if st == 'subprocess':
            subprocess_case(ctx, case['sub_seed'], scratch, packaged_names(), client_option_keys(), level=case.get('level', 0))
            return bool(ctx.violations), '; '.join('%s: %s' % (v['key'], str(v['observed'])[:120]) for v in ctx.violations) or \
                'the child interpreter reported the client\'s sources and options'
    finally:
        scratch.close()
    return True, 'unknown replay kind'
