"""C15 -- every valid option combination yields a consistent interception plan.

Correspondence: the real `cmdline.main` -> `client.main` (up to and including `fw.setup`) is run
in-process for every configuration of an enumerated cross product, with fakes only at the OS
boundary (helper process, sockets, passwd/group database, resolv.conf, the tunnel main loop);
the same configuration line goes to the Lean model `Code/ClientPlan.lean` (driver
`Drivers/C15.lean`) and the two canonical outcome lines are compared.
Oracle (independent of the model): the exception class that ended start-up (anything other than
Fatal / argparse usage / a deliberately re-raised bind OSError is an internal error) and the
consistency predicates (a)-(e) of the property evaluated on the recorded plan.
"""
import errno
import io
import ipaddress
import itertools
import os
import re
import sys
import weakref

import common

RULE = ("cases = enumerated (not sampled) cross product of: option --method (absent/auto/nat/nft/tproxy/pf/ipfw) x the "
        "method the helper answers with (auto -> nat/nft/pf/ipfw; plus a synthetic method without loopback_proxy_port) x "
        "--disable-ipv6 x 13 --listen forms (none, v4, v4:port, v6, v6:port, both, both with ports, both with one port, "
        "0.0.0.0, bare port, port equal to the first DNS search port) x DNS forms (off, --dns with v4/v6/both/no resolvers, "
        "--ns-hosts v4/v6, --ns-hosts equal to a resolver, scoped link-local / IPv4-mapped / compressed IPv6 name-server texts in resolv.conf and --ns-hosts, read by the real resolvconf_nameservers / family_ip_tuple) x --to-ns x subnets per family (none/one/the listen address itself, with and without a port/both families) x excludes (unrelated; entries whose IP equals an active listen address - default loopback or the --listen address of each family - plain, with another mask, with a port, with a port range, alone and combined with unrelated entries) x "
        "-N x user/group (absent, known, unknown, resolving to numeric id 0 or 1, for every method) x bind-oracle patterns (all free, first ports busy per protocol/family, "
        "explicit port busy, TCP-only / UDP-only / both busy per family at the first candidate and at the explicit --listen ports for every method, EACCES, EADDRNOTAVAIL on IPv6, everything busy, all but the last port busy, all UDP busy); "
        "quick tier = corpus of boundary configurations (incl. those of findings F11-F14, F21, F22) "
        "+ a seeded slice of the product, thorough = the whole product; every case runs at a verbosity level (-v count 0..3 on the real command line) taken from the rotation [0,0,3,0,2,0,3,1] shifted by the seed, stored in the replay; corpus cases and a sixteenth of the others at a level > 0 are also re-run without -v and must give the same outcome; a case is non-trivial when it left the default path "
        "(any option beyond one IPv4 subnet, or a busy port); distinct = distinct canonical configuration line")
MANIFEST = dict(
    level_text=("Machine-checked Lean 4 theorems (core only, 26 theorems, 9 examples) over a branch-by-branch model of "
                "cmdline.main's --method/--listen/--disable-ipv6 handling and client.main up to fw.setup, for every command "
                "line, feature table, passwd/group database, resolver list and bind oracle: no internal error (C15_total); "
                "every plan satisfies predicates (a)-(e) (C15_a..e, C15_consistent) and has non-empty per-family lists "
                "(C15_pf_nonempty). The PORT SEARCH AS A WHOLE, by induction over the candidate range (C15_port_search): the "
                "redirector search fails only with the IPv6-unavailable fatal message, a re-raised bind error other than "
                "EADDRINUSE, or EADDRINUSE when every candidate was busy; otherwise it binds on the first candidate on which "
                "all binds succeed, exactly the families with a listen address get a socket on exactly the reported non-zero "
                "port, the UDP redirector sits on the same addresses, and the DNS search ends on one non-zero port different "
                "from both redirector ports or fails the same ways; every socket named in a plan was granted by the bind "
                "oracle and the DNS listener never shares an address with the UDP redirector (C15_sockets_granted). The "
                "FEATURE CHECK in one statement over the regenerated key list and tables (C15_features, C15_features_table): "
                "a plan is handed over only if every feature it asks for - IPv4, IPv6 iff active, UDP iff planned, DNS iff "
                "name servers are handed over, user/group iff given, whatever numeric id they resolve to - is in the method's "
                "table; conversely 'Feature K not supported' is said only when K is checked, missing and asked for "
                "(C15_feature_fatal); C15_group_honoured / C15_user_honoured. FAMILY PRUNING exactly (C15_pruning_exact, "
                "C15_c): subnets, excludes and name servers handed over are the user's when IPv6 is active and exactly their "
                "IPv4 part when not, plus automatic entries that are exactly the host-wide excludes of the listen addresses the user did not list as a subnet - one for each such address, none for a listed one (C15_auto_exclude_exact); name-server texts are "
                "IPv6 iff they contain a colon (C15_ns_family). Documented method names are accepted (C15_methods). "
                "Structural facts of the source (where used_ports is initialised, the assert_features key list, the --method "
                "choices, the DNS search guard, the order of the bound check, family_ip_tuple's test) are regenerated from the "
                "tree on every run and enter as decide-checked side conditions (C15_side_conditions, C15_method_tables). The "
                "model is tied to the code by an enumerated differential run of the real cmdline.main/client.main "
                "(~6,000 configurations quick, ~216,000 thorough; every case at a -v level 0..3 from a seed-shifted rotation, the model having no notion of verbosity) and an independent oracle on the recorded plan."),
    level_note=("Trusted: Lean kernel; axioms propext/Classical.choice/Quot.sound only; the harness fakes (helper process, "
                "socket layer with a scripted bind oracle, passwd/group, resolv.conf files); argparse and getaddrinfo on "
                "numeric addresses. Decided by correspondence/oracle only, not by theorem: that MultiListener.bind and the "
                "two loops of the real code are the modelled ones (seeded changes that swallow an IPv4 EADDRINUSE or an IPv6 "
                "EADDRNOTAVAIL in MultiListener.bind are reported through the oracle with concrete replays); the parsing of "
                "option values (C16). A bind OSError that client.main re-raises on purpose is classed as an environment "
                "failure, not an internal error. C15_disable_ipv6_partial: --disable-ipv6 is overridden by an IPv6 --listen "
                "address (known finding, C15_disable_ipv6_false). CPython keeping a failed listener alive through a "
                "traceback and the dual-stack listen quirk are outside."),
    technique="Lean 4 proof (case analysis + induction over the port search) + enumerated differential correspondence with the real client.main",
)
DRIVER_TARGETS = ['SshuttleModel.Code.ClientPlan', 'SshuttleModel.Spec.PlanConsistent']
ASSUMPTIONS = [
    "the bind oracle is a function of (protocol, family, port); in addition a UDP bind fails with EADDRINUSE when this "
    "process' own UDP redirector already holds the same address (sockets of failed attempts are taken to be closed)",
    "the helper answers READY with the method named on the command line, or with one of get_auto_method's candidates for auto",
    "option values reach client.main through argparse and getaddrinfo on numeric addresses (their parsing is property C16)",
    "a bind error other than EADDRINUSE, or EADDRINUSE on every candidate port, ends start-up with the OSError the code "
    "re-raises on purpose; this is classed as an environment failure with the errno text, not as an internal error",
    "--daemon/--syslog/--namespace/pidfile handling is not part of the plan and is not exercised",
]

AF4, AF6 = 2, 10
LOOP4, LOOP6, ANY4, ANY6 = '127.0.0.1', '::1', '0.0.0.0', '::'


# ------------------------------------------------------------------ case representation

def mkcase(meth=None, helper=None, dis6=0, listen=None, dns=0, nsh=(), tons=None, inc=(), exc=(), an=0,
           user=None, group=None, remote=1, resolv=(), users=None, groups=None, bind=(), verbose=None):
    if helper is None:
        helper = meth if meth not in (None, 'auto') else 'nat'
    return dict(meth=meth, helper=helper, dis6=int(dis6), listen=None if listen is None else [tuple(x) for x in listen],
                dns=int(dns), nsh=[tuple(x) for x in nsh], tons=None if tons is None else tuple(tons),
                inc=[tuple(x) for x in inc], exc=[tuple(x) for x in exc], an=int(an), user=user, group=group,
                remote=int(remote), resolv=[tuple(x) for x in resolv],
                users=dict(users or {}), groups=dict(groups or {}), bind=[tuple(x) for x in bind],
                verbose=verbose)   # -v count; None = assigned from the rotation in run()


def ipnum(ip):
    return int(ipaddress.ip_address(ip))


def ns_fam(text):
    """The independent rule of the oracle: an address text with a colon is IPv6."""
    return 6 if ':' in text else 4


def nsnum(text):
    """Numeric name of a name-server text for the line protocol (injective on the texts used:
    the address value, plus a component for a zone id)."""
    import zlib
    if '%' in text:
        addr, zone = text.split('%', 1)
        return int(ipaddress.ip_address(addr)) + ((zlib.crc32(zone.encode()) + 1) << 128)
    return int(ipaddress.ip_address(text))


def tok_ns(x):
    text = x[1] if isinstance(x, (tuple, list)) else x
    return '%d,%s' % (nsnum(text), text)


def _fam(f):
    return 4 if f in (4, AF4) else 6


def tok_sub(s):
    f, ip, w, fp, lp = s
    return '%d:%d:%d:%d:%d' % (_fam(f), ipnum(ip), w, fp, lp)


def tok_list(xs, f):
    return ';'.join(f(x) for x in xs) if xs else '-'


def case_line(c):
    """The model input line (also the canonical identity of the case)."""
    parts = ['c',
             'meth=%s' % (c['meth'] or '-'),
             'helper=%s' % c['helper'],
             'dis6=%d' % c['dis6'],
             'listen=%s' % ('N' if c['listen'] is None else
                            tok_list(c['listen'], lambda x: '%d:%d:%d' % (_fam(x[0]), ipnum(x[1] or ANY4), x[2]))),
             'dns=%d' % c['dns'],
             'nsh=%s' % tok_list(c['nsh'], tok_ns),
             'tons=%s' % ('-' if c['tons'] is None else '%d:%d:%d' % (_fam(c['tons'][0]), ipnum(c['tons'][1]), c['tons'][2])),
             'inc=%s' % tok_list(c['inc'], tok_sub),
             'exc=%s' % tok_list(c['exc'], tok_sub),
             'an=%d' % c['an'],
             'user=%s' % ('-' if c['user'] is None else c['user']),
             'group=%s' % ('-' if c['group'] is None else c['group']),
             'remote=%d' % c['remote'],
             'resolv=%s' % tok_list(c['resolv'], tok_ns),
             'users=%s' % tok_list(sorted(c['users'].items()), lambda x: '%d:%d' % (int(x[0]), x[1])),
             'groups=%s' % tok_list(sorted(c['groups'].items()), lambda x: '%d:%d' % (int(x[0]), x[1])),
             'bind=%s' % tok_list(c['bind'], lambda x: '%s:%d:%d:%d:%s' % (x[0], _fam(x[1]), x[2], x[3], x[4])),
             'v=%d' % (c.get('verbose') or 0)]
    return ' '.join(parts)


def fmt_listen_item(x):
    f, ip, port = x
    if _fam(f) == 6:
        return '[%s]:%d' % (ip, port) if port else '[%s]' % ip
    if ip is None:                       # bare port form "-l 12300"
        return '%d' % port
    return '%s:%d' % (ip, port) if port else ip


def fmt_subnet(s):
    f, ip, w, fp, lp = s
    ports = '' if not fp else (':%d' % fp if lp == fp else ':%d-%d' % (fp, lp))
    if _fam(f) == 6:
        return '[%s/%d]%s' % (ip, w, ports) if ports else '%s/%d' % (ip, w)
    return '%s/%d%s' % (ip, w, ports)


def argv_of(c):
    a = []
    if c.get('verbose'):
        a += ['-' + 'v' * c['verbose']]
    if c['meth']:
        a += ['--method', c['meth']]
    if c['dis6']:
        a += ['--disable-ipv6']
    if c['listen'] is not None:
        a += ['--listen', ','.join(fmt_listen_item(x) for x in c['listen'])]
    if c['dns']:
        a += ['--dns']
    if c['nsh']:
        a += ['--ns-hosts', ','.join(x[1] for x in c['nsh'])]
    if c['tons'] is not None:
        f, ip, port = c['tons']
        a += ['--to-ns', fmt_listen_item((f, ip, port))]
    for s in c['exc']:
        a += ['-x', fmt_subnet(s)]
    if c['an']:
        a += ['-N']
    if c['user'] is not None:
        a += ['--user', 'u%d' % c['user']]
    if c['group'] is not None:
        a += ['--group', 'g%d' % c['group']]
    if c['remote']:
        a += ['-r', 'server.example']
    a += [fmt_subnet(s) for s in c['inc']]
    return a


# ------------------------------------------------------------------ fakes at the OS boundary

ERRNOS = dict(inuse=errno.EADDRINUSE, notavail=errno.EADDRNOTAVAIL, acces=errno.EACCES)


class World:
    """Scripted socket layer of one run."""

    def __init__(self, case):
        self.rules = case['bind']
        self.phase2 = False            # set by the first listen(): the redirector search is over
        self.dgram_phase1 = []         # weakrefs to UDP sockets bound during the redirector search
        self.binds = 0

    def oracle(self, proto, fam, port):
        for (p, f, lo, hi, res) in self.rules:
            if p == proto and _fam(f) == fam and lo <= port <= hi:
                return res
        return 'ok'


def make_socket_module(world):
    import socket as real

    class FakeSocket:
        def __init__(self, family=real.AF_INET, type=real.SOCK_STREAM, proto=0):
            self.family = family
            self.type = type
            self.bound = None
            self.opts = []

        def bind(self, addr):
            world.binds += 1
            fam = 6 if self.family == real.AF_INET6 else 4
            proto = 'tcp' if self.type == real.SOCK_STREAM else 'udp'
            ip, port = addr[0], addr[1]
            if proto == 'udp' and world.phase2:
                for r in world.dgram_phase1:
                    s = r()
                    if s is not None and s.family == self.family and s.bound == (ip, port):
                        raise OSError(errno.EADDRINUSE, 'Address already in use')
            res = world.oracle(proto, fam, port)
            if res != 'ok':
                raise OSError(ERRNOS[res], os.strerror(ERRNOS[res]))
            self.bound = (ip, port)
            if proto == 'udp' and not world.phase2:
                world.dgram_phase1.append(weakref.ref(self))

        def listen(self, n):
            world.phase2 = True

        def getsockname(self):
            if self.bound:
                return self.bound
            return ('::', 0, 0, 0) if self.family == real.AF_INET6 else ('0.0.0.0', 0)

        def setsockopt(self, *a):
            self.opts.append(a)

        def fileno(self):
            return 9999

        def close(self):
            self.bound = None

    class Mod:
        socket = FakeSocket

        def __getattr__(self, name):
            return getattr(real, name)
    return Mod()


class _Features:
    pass


def resolve_method(name):
    """The real method object the helper's READY line would lead to."""
    import sshuttle.methods as methods
    if name.startswith('x'):
        # synthetic feature table "x" + 7 bits: loopback ipv4 ipv6 udp dns user group
        bits = name[1:]

        class Synth(methods.BaseMethod):
            @staticmethod
            def get_supported_features():
                r = methods.Features()
                (r.loopback_proxy_port, r.ipv4, r.ipv6, r.udp, r.dns, r.user, r.group) = [b == '1' for b in bits]
                return r
        return Synth(name)
    return methods.get_method(name)


class _PwEnt:
    def __init__(self, n):
        self.pw_uid = n
        self.gr_gid = n


def run_real(case):
    """Run the real cmdline.main -> client.main on one configuration.  Returns a dict:
    kind = plan|fatal|usage|oserror|internal|return, and the recorded details."""
    import sshuttle.client as client
    import sshuttle.cmdline as cmdline
    import sshuttle.helpers as helpers
    import sshuttle.sdnotify as sdnotify
    world = World(case)
    rec = {}

    class RecorderFw:
        def __init__(self, method_name, sudo_pythonpath):
            rec['fw_method_arg'] = method_name
            self.auto_nets = []
            self.method = resolve_method(case['helper'])
            self.method.set_firewall(self)
            self.p = None

        def setup(self, subnets_include, subnets_exclude, nslist, redirectport_v6, redirectport_v4,
                  dnsport_v6, dnsport_v4, udp, user, group, tmark):
            rec['setup'] = dict(inc=list(subnets_include), exc=list(subnets_exclude), ns=list(nslist),
                                rp6=redirectport_v6, rp4=redirectport_v4, dp6=dnsport_v6, dp4=dnsport_v4,
                                udp=bool(udp), user=user, group=group, tmark=tmark)

        def done(self):
            pass

    def fake_main(tcp_listener, udp_listener, fw, ssh_cmd, remotename, python, latency_control,
                  latency_buffer_size, dns_listener, seed_hosts, auto_hosts, auto_nets, daemon,
                  to_nameserver, add_cmd_delimiter, remote_shell):
        def addrs(l):
            if l is None:
                return None
            return (l.v6.bound if l.v6 is not None else None, l.v4.bound if l.v4 is not None else None)
        rec['listeners'] = dict(tcp=addrs(tcp_listener), udp=addrs(udp_listener), dns=addrs(dns_listener))
        rec['tons'] = to_nameserver
        rec['auto_nets'] = bool(auto_nets)
        return 0

    def getpwnam(name):
        k = int(name[1:])
        if k in case['users'] or str(k) in case['users']:
            return _PwEnt(case['users'].get(k, case['users'].get(str(k))))
        raise KeyError(name)

    def getgrnam(name):
        k = int(name[1:])
        if k in case['groups'] or str(k) in case['groups']:
            return _PwEnt(case['groups'].get(k, case['groups'].get(str(k))))
        raise KeyError(name)

    logged = []
    saved = dict(fwc=client.FirewallClient, main=client._main, sock=client.socket, pw=client.getpwnam,
                 gr=client.getgrnam, rc=client.resolvconf_nameservers, sd=sdnotify.send, log=cmdline.log,
                 argv=sys.argv, out=sys.stdout, err=sys.stderr, verbose=helpers.verbose,
                 prefix=helpers.logprefix, env=os.environ.pop('SSHUTTLE_ARGS', None))
    client.FirewallClient = RecorderFw
    client._main = fake_main
    client.socket = make_socket_module(world)
    client.getpwnam = getpwnam
    client.getgrnam = getgrnam
    # the real helpers.resolvconf_nameservers / family_ip_tuple read scripted resolv.conf files
    texts = [x[1] for x in case['resolv']]
    first, second = (texts[:-1], texts[-1:]) if len(texts) >= 2 else (texts, [])
    files = {
        '/etc/resolv.conf': '# generated\nsearch example.test\noptions ndots:1\n' +
                            ''.join('nameserver %s\n' % t for t in first) + 'nameserver\n',
        '/run/systemd/resolve/resolv.conf': (''.join('NameServer\t%s  # x\n' % t for t in second)
                                             if second else None),
    }

    def fake_open(path, *a, **k):
        if path in files:
            if files[path] is None:
                raise FileNotFoundError(errno.ENOENT, 'No such file or directory', path)
            return io.StringIO(files[path])
        return open(path, *a, **k)
    helpers.open = fake_open
    sdnotify.send = lambda *a: False
    cmdline.log = lambda s: logged.append(s)
    sys.argv = ['sshuttle'] + argv_of(case)
    sys.stdout = io.StringIO()
    sys.stderr = io.StringIO()
    res = {}
    try:
        try:
            rv = cmdline.main()
            if rv == 99 and logged and logged[0].startswith('fatal: '):
                res = dict(kind='fatal', msg=logged[0][7:])
            elif 'setup' in rec and 'listeners' in rec and rv == 0:
                res = dict(kind='plan', **rec)
            else:
                res = dict(kind='return', rv=rv)
        except SystemExit as e:
            res = dict(kind='usage' if e.code == 2 else 'exit', code=e.code, msg=sys.stderr.getvalue()[-300:])
        except OSError as e:
            res = dict(kind='oserror', errno=e.errno, trace='%s: %s' % (type(e).__name__, e))
        except BaseException as e:  # noqa -- everything else is an internal error of start-up
            res = dict(kind='internal', exc=type(e).__name__, trace='%s: %s' % (type(e).__name__, e))
        res['warnings'] = sys.stdout.getvalue()
        res['binds'] = world.binds
    finally:
        client.FirewallClient = saved['fwc']
        client._main = saved['main']
        client.socket = saved['sock']
        client.getpwnam = saved['pw']
        client.getgrnam = saved['gr']
        if 'open' in vars(helpers):
            del helpers.open
        sdnotify.send = saved['sd']
        cmdline.log = saved['log']
        sys.argv = saved['argv']
        sys.stdout = saved['out']
        sys.stderr = saved['err']
        helpers.verbose = saved['verbose']
        helpers.logprefix = saved['prefix']
        if saved['env'] is not None:
            os.environ['SSHUTTLE_ARGS'] = saved['env']
    return res


# ------------------------------------------------------------------ canonical outcome line

FATAL_CLASSES = [
    (r'^You must use -r/--remote', 'no-remote'),
    (r'^An IPv6 listen address was supplied', 'ipv6-listen-unsupported'),
    (r'^User \S+ does not exist', 'user-missing'),
    (r'^Group \S+ does not exist', 'group-missing'),
    (r"^Can't redirect DNS traffic since IPv6 is not enabled", 'dns-all-v6'),
    (r'^Feature (\w+) not supported with method', 'feature-%s'),
    (r'^Could not bind to an IPv6 socket', 'bind-v6-notavail'),
    (r'^IPv6 subnets defined but not listening', 'v6-subnets-not-listening'),
    (r'^IPv6 ns servers defined but not listening', 'v6-ns-not-listening'),
    (r'^IPv4 subnets defined but not listening', 'v4-subnets-not-listening'),
    (r'^IPv4 ns servers defined but not listening', 'v4-ns-not-listening'),
]


def fatal_class(msg):
    for rx, cls in FATAL_CLASSES:
        m = re.match(rx, msg)
        if m:
            return cls % m.groups() if '%s' in cls else cls
    return 'other:' + msg[:60].replace(' ', '_')


def internal_tag(res):
    t = res.get('trace', '')
    if res['exc'] == 'UnboundLocalError' and 'used_ports' in t:
        return 'used_ports-unbound'
    if res['exc'] == 'UnboundLocalError' and 'dns_listener' in t:
        return 'dns_listener-unbound'
    if res['exc'] == 'TypeError' and 'NoneType' in t and 'subscriptable' in t:
        return 'listenip-none'
    if res['exc'] == 'AssertionError':
        return 'assert'
    return res['exc']


def usage_class(msg):
    if 'invalid choice' in msg and '--method' in msg:
        return 'method-choice'
    if 'at least one subnet' in msg:
        return 'no-subnets'
    return 'other'


def show_addr(a, fam):
    if a is None:
        return '-'
    return '%d:%d' % (ipnum(a[0]), a[1])


def show_listener(l):
    if l is None:
        return 'N'
    return '%s/%s' % (show_addr(l[0], 6), show_addr(l[1], 4))


def canon_out(res):
    k = res['kind']
    if k == 'plan':
        s = res['setup']
        tons = res['tons']
        return ('plan inc=%s exc=%s ns=%s rp6=%d rp4=%d dp6=%d dp4=%d udp=%d user=%s group=%s tcp=%s udp_l=%s dns_l=%s tons=%s'
                % (tok_list(s['inc'], tok_sub), tok_list(s['exc'], tok_sub),
                   tok_list(s['ns'], lambda x: '%d:%d' % (_fam(x[0]), nsnum(x[1]))),
                   s['rp6'], s['rp4'], s['dp6'], s['dp4'], 1 if s['udp'] else 0,
                   '-' if s['user'] is None else s['user'], '-' if s['group'] is None else s['group'],
                   show_listener(res['listeners']['tcp']), show_listener(res['listeners']['udp']),
                   show_listener(res['listeners']['dns']),
                   '-' if tons is None else '%d@%s' % (ipnum(tons.split('@')[0]), tons.split('@')[1])))
    if k == 'fatal':
        return 'fatal ' + fatal_class(res['msg'])
    if k == 'usage':
        return 'usage ' + usage_class(res['msg'])
    if k == 'oserror':
        return 'oserror %s' % errno.errorcode.get(res['errno'], res['errno'])
    if k == 'internal':
        return 'internal ' + internal_tag(res)
    return 'other %s' % res.get('rv', res.get('code'))


# ------------------------------------------------------------------ the property, on what the real code did

def method_features(case):
    """Feature table of the method in use, read from the real method object (an input of the
    property: 'for every combination of method capabilities')."""
    f = resolve_method(case['helper']).get_supported_features()
    return {k: bool(getattr(f, k)) for k in ('loopback_proxy_port', 'ipv4', 'ipv6', 'udp', 'dns', 'user', 'group')}


def documented_methods():
    with open(os.path.join(common.REPO, 'docs', 'manpage.rst'), encoding='utf-8') as f:
        m = re.search(r'^\.\. option:: --method <([^>]+)>', f.read(), re.M)
    return m.group(1).split('|') if m else []


def canon_ip(ip):
    return str(ipaddress.ip_address(ip))


def plan_checks(case, res, feats):
    """Predicates (a)-(e) + non-empty family lists on the recorded hand-over.  Returns
    {name: (ok, detail)} -- computed from the recorded fw.setup arguments and the addresses bound
    on the fake socket layer only."""
    s = res['setup']
    L = res['listeners']
    out = {}
    all_l = [l for l in (L['tcp'], L['udp'], L['dns']) if l is not None]
    loop = {6: '::1', 4: '127.0.0.1'}
    # (a)
    if case['listen'] is None and feats['loopback_proxy_port']:
        bad = [(fam, l[i]) for l in all_l for (i, fam) in ((0, 6), (1, 4))
               if l[i] is not None and canon_ip(l[i][0]) != loop[fam]]
        out['a'] = (not bad, 'sockets bound off loopback: %r' % (bad,))
    # (b)
    bad = []
    for (i, fam, width, af) in ((0, 6, 128, AF6), (1, 4, 32, AF4)):
        a = L['tcp'][i]
        if a is None:
            continue
        excluded = any(e[0] == af and canon_ip(e[1]) == canon_ip(a[0]) and tuple(e[2:]) == (width, 0, 0)
                       for e in s['exc'])
        listed = any(_fam(u[0]) == fam and canon_ip(u[1]) == canon_ip(a[0]) for u in case['inc'])
        if not excluded and not listed:
            bad.append((fam, a[0]))
    out['b'] = (not bad, 'listen address neither excluded nor listed by the user: %r' % (bad,))
    # ... and exactly so: client.main adds one host-wide exclude per listen address the user did not
    # list, none for one the user listed (the user's own -x entries are not counted)
    bad = []
    for (i, fam, width, af) in ((0, 6, 128, AF6), (1, 4, 32, AF4)):
        a = L['tcp'][i]
        if a is None:
            continue

        def host(e, fam_of):
            return fam_of(e[0]) == fam and canon_ip(e[1]) == canon_ip(a[0]) and tuple(e[2:]) == (width, 0, 0)
        n_plan = sum(1 for e in s['exc'] if host(e, lambda f: 6 if f == AF6 else 4))
        n_user = sum(1 for e in case['exc'] if host(e, _fam))
        listed = any(_fam(u[0]) == fam and canon_ip(u[1]) == canon_ip(a[0]) for u in case['inc'])
        if n_plan - n_user != (0 if listed else 1):
            bad.append('family %d listen address %s: listed by the user=%s, automatic excludes=%d'
                       % (fam, a[0], listed, n_plan - n_user))
    out['b-exact'] = (not bad, '; '.join(bad))
    # (c)
    active6 = L['tcp'][0] is not None
    # an entry is IPv6 by the independent rule "its address text contains a colon" (or by its tag)
    def is6(e):
        return e[0] == AF6 or ':' in str(e[1])
    v6_entries = ([e for e in s['inc'] if is6(e)], [e for e in s['exc'] if is6(e)],
                  [n for n in s['ns'] if is6(n)])
    mislabelled = [e for e in s['inc'] + s['exc'] + s['ns'] if (e[0] == AF6) != (':' in str(e[1]))]
    out['family'] = (not mislabelled, 'entries whose family tag contradicts their address text: %r' % (mislabelled,))
    v6_socks = [l for l in all_l if l[0] is not None]
    if active6:
        ok = s['rp6'] != 0 and bool(v6_entries[0] or v6_entries[1])
        out['c'] = (ok, 'IPv6 active but rp6=%r, v6 subnet entries=%r' % (s['rp6'], v6_entries[:2]))
    else:
        ok = s['rp6'] == 0 and s['dp6'] == 0 and not any(v6_entries) and not v6_socks
        out['c'] = (ok, 'IPv6 inactive but rp6=%r dp6=%r entries=%r sockets=%r'
                    % (s['rp6'], s['dp6'], v6_entries, v6_socks))
    if case['dis6']:
        out['c-disable'] = (not active6 and not any(v6_entries),
                            '--disable-ipv6 given but IPv6 is active (IPv6 --listen address wins)')
    # (d)
    bad = []
    for (i, fam, af, rp, dp) in ((0, 6, AF6, s['rp6'], s['dp6']), (1, 4, AF4, s['rp4'], s['dp4'])):
        t = L['tcp'][i]
        d = L['dns'][i] if L['dns'] is not None else None
        if any(e[0] == af for e in s['inc']) and t is None:
            bad.append('family %d has subnets but no TCP listener' % fam)
        if any((6 if ':' in str(n[1]) else 4) == fam for n in s['ns']) and d is None:
            bad.append('family %d has name servers but no DNS listener' % fam)
        if rp != (t[1] if t else 0):
            bad.append('redirect port %d of family %d is not the bound one %r' % (rp, fam, t))
        if dp != (d[1] if d else 0):
            bad.append('dns port %d of family %d is not the bound one %r' % (dp, fam, d))
        if (t is not None and t[1] == 0) or (d is not None and d[1] == 0):
            bad.append('family %d listener bound to port 0' % fam)
    if s['udp'] != (L['udp'] is not None) or (L['udp'] is not None and L['udp'] != L['tcp']):
        bad.append('udp=%r but UDP listener %r vs TCP %r' % (s['udp'], L['udp'], L['tcp']))
    out['d'] = (not bad, '; '.join(bad))
    # (e)
    bad = [(dp, rp) for dp in (s['dp6'], s['dp4']) if dp != 0 for rp in (s['rp6'], s['rp4']) if dp == rp]
    out['e'] = (not bad, 'DNS port equals a redirector port: %r' % (bad,))
    # non-empty per-family lists (what the pf rules need)
    bad = [fam for (i, fam, af) in ((0, 6, AF6), (1, 4, AF4))
           if L['tcp'][i] is not None and not any(e[0] == af for e in s['inc'] + s['exc'])]
    out['nonempty'] = (not bad, 'active families with an empty subnet list: %r' % (bad,))
    return out


KEYS = {
    'a': 'C15:a:default-listen-not-loopback',
    'b': 'C15:b:listen-address-not-excluded',
    'b-exact': 'C15:b:automatic-exclude-not-exactly-for-unlisted-listen-address',
    'c': 'C15:c:ipv6-entries-mismatch',
    'c-disable': 'C15:c:disable-ipv6-overridden-by-listen',
    'd': 'C15:d:listeners-do-not-match-plan',
    'e': 'C15:e:dns-port-equals-redirect-port',
    'nonempty': 'C15:pf:empty-family-list',
    'family': 'C15:c:entry-family-mislabelled',
}


SEARCH_HI, SEARCH_LO = 12300, 9001      # the candidate ports of both searches (property text: 12300 downwards)


def bind_error_unexplained(case, res):
    """A bind OSError that ends start-up must be explained by the environment: its errno is one a bind
    rule of this case answers with, and for EADDRINUSE the search had no way out -- an explicitly given
    --listen port is busy for some protocol/family, or fewer than three candidate ports are free for
    every protocol and family (the redirectors need one, the DNS listener another that is neither of
    the redirector ports).  Returns a text, or None when the error is explained.  Deliberately
    conservative: it never looks at what the model says."""
    w = World(case)
    name = {errno.EADDRINUSE: 'inuse', errno.EADDRNOTAVAIL: 'notavail', errno.EACCES: 'acces'}.get(res['errno'])
    if name is None or not any(r[4] == name for r in case['bind']):
        return 'no bind rule of this environment answers %s' % errno.errorcode.get(res['errno'], res['errno'])
    if name != 'inuse':
        return None

    def all_free(port):
        return all(w.oracle(pr, fam, port) == 'ok' for pr in ('tcp', 'udp') for fam in (4, 6))
    for (_f, _ip, port) in (case['listen'] or []):
        if port and not all_free(port):
            return None                  # an explicit port is busy: every attempt must fail
    free = 0
    for port in range(SEARCH_HI, SEARCH_LO - 1, -1):
        if all_free(port):
            free += 1
            if free >= 3:
                return ('EADDRINUSE although the explicit listen ports are free and candidate ports (e.g. %d) '
                        'are free for TCP and UDP on both families' % port)
    return None


def judge(case, res, docs):
    """All violations of the property in one run: list of (key, expected, observed)."""
    v = []
    k = res['kind']
    if k == 'internal':
        v.append(('C15:internal:' + internal_tag(res),
                  'start-up ends with a fatal message or a plan, never an internal error', res['trace']))
    elif k in ('return', 'exit'):
        v.append(('C15:internal:unexpected-exit', 'fatal message or plan', repr(res)))
    elif k == 'oserror':
        why = bind_error_unexplained(case, res)
        if why:
            v.append(('C15:oserror:bind-error-not-explained-by-environment',
                      'start-up ends with a plan bound to free ports or a fatal message; a bind error is re-raised '
                      'only when the environment leaves no way out (explicit port busy / every candidate busy)',
                      '%s; %s' % (res['trace'], why)))
    elif k == 'fatal' and fatal_class(res['msg']).startswith('other:'):
        v.append(('C15:fatal:unknown-message', 'one of the explanatory fatal messages', res['msg']))
    elif k == 'usage' and usage_class(res['msg']) == 'method-choice' and case['meth'] in docs:
        v.append(('C15:method-rejected:' + case['meth'],
                  'documented method name %r is accepted by the option parser' % case['meth'],
                  res['msg'].strip().split('\n')[-1]))
    # DNS capture asked for, every name server IPv6 (by its text), IPv6 not in use -> must be fatal
    asked = [x[1] for x in case['nsh']] + ([x[1] for x in case['resolv']] if case['dns'] else [])
    if asked and all(ns_fam(t) == 6 for t in asked) and k == 'plan' and res['listeners']['tcp'][0] is None:
        v.append(('C15:dns-all-ipv6-not-fatal',
                  "all name servers are IPv6 and IPv6 is off: fatal \"Can't redirect DNS traffic ...\"",
                  'plan handed over with ns=%r' % (res['setup']['ns'],)))
    if k == 'plan':
        feats = method_features(case)
        if case['group'] is not None and not feats['group']:
            v.append(('C15:group-ignored', '--group with a method lacking group support is fatal',
                      'plan handed over with group=%r' % (res['setup']['group'],)))
        if case['user'] is not None and not feats['user']:
            v.append(('C15:user-ignored', '--user with a method lacking user support is fatal',
                      'plan handed over with user=%r' % (res['setup']['user'],)))
        for name, (ok, detail) in plan_checks(case, res, feats).items():
            if not ok:
                v.append((KEYS[name], 'consistency predicate (%s) holds on the recorded plan' % name, detail))
    return v


def py_spec_line(case, res):
    """The five predicate values in the driver's format (cross-check of Spec/PlanConsistent's
    evaluators against this file's oracle).  (a) is reported raw here: without --listen, are all
    sockets on loopback (whatever the feature table)."""
    if res['kind'] != 'plan':
        return 'spec -'
    feats = dict(method_features(case), loopback_proxy_port=True)
    pc = plan_checks(case, res, feats)
    a = pc['a'][0] if 'a' in pc else True
    return 'spec a=%d b=%d c=%d d=%d e=%d' % (a, pc['b'][0], pc['c'][0], pc['d'][0], pc['e'][0])


# ------------------------------------------------------------------ enumeration

I4 = (4, '10.0.0.0', 8, 0, 0)
I4P = (4, '192.168.7.0', 24, 8000, 8080)
I6 = (6, '2001:db8::', 32, 0, 0)
X4 = (4, '10.1.0.0', 16, 0, 0)
X6 = (6, '2001:db8:1::', 48, 443, 443)
R4, R6 = (4, '8.8.8.8'), (6, '2001:db8::53')
P1, P2, PD = 12305, 12301, 12299     # explicit ports; PD = first DNS candidate after a default TCP bind

METHODS = [(None, 'nat'), ('auto', 'nft'), ('auto', 'pf'), ('auto', 'ipfw'), ('nat', 'nat'), ('nft', 'nft'),
           ('tproxy', 'tproxy'), ('pf', 'pf'), ('ipfw', 'ipfw'), ('auto', 'x0110100')]

LISTEN = {
    'none': None,
    'v4': [(4, LOOP4, 0)],
    'v4:port': [(4, LOOP4, P1)],
    'v6': [(6, LOOP6, 0)],
    'v6:port': [(6, LOOP6, P1)],
    'both': [(4, LOOP4, 0), (6, LOOP6, 0)],
    'both:ports': [(4, LOOP4, P1), (6, LOOP6, P2)],
    'both:v4port': [(4, LOOP4, PD), (6, LOOP6, 0)],
    'both:v6port': [(4, LOOP4, 0), (6, LOOP6, PD)],
    'any4': [(4, ANY4, 0)],
    'bareport': [(4, None, PD)],
    'both:sameport': [(6, LOOP6, 12300), (4, LOOP4, 12300)],
    'lan4': [(4, '10.9.8.7', 0)],
}
LISTEN_SMALL = ['none', 'v4:port', 'v6', 'both', 'both:ports']

DNS = {
    'off': dict(),
    'dns4': dict(dns=1, resolv=[R4]),
    'dns6': dict(dns=1, resolv=[R6]),
    'dns46': dict(dns=1, resolv=[R4, R6]),
    'dns0': dict(dns=1, resolv=[]),
    'nsh4': dict(nsh=[(4, '9.9.9.9')]),
    'nsh6': dict(nsh=[(6, '2001:db8::9')], resolv=[R4]),
    'nsh=resolv': dict(dns=1, nsh=[R4, R6], resolv=[R4, R6]),
}
NS_TEXT = {
    'dns6scoped': dict(dns=1, resolv=[(6, 'fe80::1%eth0')]),
    'dns4+6scoped': dict(dns=1, resolv=[R4, (6, 'fe80::2%1')]),
    'nsh6scoped': dict(nsh=[(6, 'fe80::1%eth0')], resolv=[R4]),
    'nsh6scoped+4': dict(nsh=[(6, 'fe80::2%1'), (4, '9.9.9.9')]),
    'dns6mapped': dict(dns=1, resolv=[(6, '::ffff:1.2.3.4')]),
    'dns6compressed+4': dict(dns=1, resolv=[(6, '2001:db8:0:0::53'), (4, '8.8.4.4'), (6, '::1')]),
}
DNS.update(NS_TEXT)
DNS_SMALL = ['off', 'dns46', 'nsh6']
DNS_CORE = [k for k in DNS if k != 'nsh=resolv' and k not in NS_TEXT]

SUBNETS = ['none', 'v4', 'v6', 'both', 'self4', 'self6', 'selfboth', 'self4port', 'self6range']
SUBNETS_SMALL = ['v4', 'both', 'none']

BIND_LIGHT = {
    'free': [],
    'tcp4-first2': [('tcp', 4, 12299, 12300, 'inuse')],
    'tcp6-first': [('tcp', 6, 12300, 12300, 'inuse')],
    'udp4-first3': [('udp', 4, 12298, 12300, 'inuse')],
    'explicit-busy': [('tcp', 4, P1, P1, 'inuse'), ('tcp', 6, PD, PD, 'inuse')],
    'acces4': [('tcp', 4, 0, 65535, 'acces')],
    'notavail6': [('tcp', 6, 0, 65535, 'notavail'), ('udp', 6, 0, 65535, 'notavail')],
}
# busy-port environments per protocol / family, at the first candidate of the search and at the
# explicit --listen ports (P1, P2, PD, 12300 are the explicit ports of the LISTEN forms)
def _at(ports, protos, fams):
    return [(pr, f, p, p, 'inuse') for p in ports for pr in protos for f in fams]


_FIRST, _EXPL = (12300,), (P1, P2, PD)
BIND_BUSY = {
    'first:tcp4': _at(_FIRST, ('tcp',), (4,)),
    'first:tcp6': _at(_FIRST, ('tcp',), (6,)),
    'first:udp4': _at(_FIRST, ('udp',), (4,)),
    'first:udp6': _at(_FIRST, ('udp',), (6,)),
    'first:udp46': _at(_FIRST, ('udp',), (4, 6)),
    'first:tcp+udp4': _at(_FIRST, ('tcp', 'udp'), (4,)),
    'first:tcp+udp46': _at(_FIRST, ('tcp', 'udp'), (4, 6)),
    'first2:udp4,second:tcp6': _at((12300, 12299), ('udp',), (4,)) + _at((12298,), ('tcp',), (6,)),
    'explicit:tcp4': _at(_EXPL, ('tcp',), (4,)),
    'explicit:udp4': _at(_EXPL, ('udp',), (4,)),
    'explicit:udp6': _at(_EXPL, ('udp',), (6,)),
    'explicit:tcp+udp46': _at(_EXPL, ('tcp', 'udp'), (4, 6)),
}
BIND_LIGHT_ALL = dict(BIND_LIGHT)
BIND_LIGHT_ALL.update(BIND_BUSY)
BIND_HEAVY = {
    'all-busy': [('tcp', 4, 0, 65535, 'inuse')],
    'all-but-last': [('tcp', 4, 9002, 65535, 'inuse')],
    'udp-all-busy': [('udp', 4, 0, 65535, 'inuse')],
    'udp6-all-but-last': [('udp', 6, 9002, 65535, 'inuse')],
}

# -x entries that coincide with what client.main adds by itself (the host-wide exclude of each
# listen address): same IP, with/without port or port range, other mask, alone and among others.
XSELF = ['x4port', 'x6range', 'x4plain', 'x6plain+x4range', 'x4mask', 'x6mask', 'x46port+other', 'x4port+x4plain']
SUBNETS_X = ['v4', 'both', 'self4port', 'none']


def excludes_of(form, lform):
    ip4, ip6 = listen_ips(lform)
    return {
        'x4port': [(4, ip4, 32, 22, 22)],
        'x6range': [(6, ip6, 128, 8000, 8080)],
        'x4plain': [(4, ip4, 32, 0, 0)],
        'x6plain+x4range': [(6, ip6, 128, 0, 0), (4, ip4, 32, 8000, 8080)],
        'x4mask': [(4, ip4, 8, 0, 0)],
        'x6mask': [(6, ip6, 64, 0, 0)],
        'x46port+other': [X4, (4, ip4, 32, 22, 22), (6, ip6, 128, 443, 443), X6],
        'x4port+x4plain': [(4, ip4, 32, 22, 22), (4, ip4, 32, 0, 0)],
    }[form]


UG = {
    'none': dict(),
    'user': dict(user=1, users={1: 1001}),
    'user?': dict(user=2, users={1: 1001}),
    'group': dict(group=1, groups={1: 2001}),
    'group?': dict(group=2, groups={1: 2001}),
    'both': dict(user=1, group=1, users={1: 1001}, groups={1: 2001}),
}
# accounts whose resolved numeric id is 0 (root) or another small id: "an id was given" must not be
# confused with "the id is truthy" (seeded change M-C15-G)
UG_IDS = {
    'user0': dict(user=3, users={3: 0, 1: 1001}),
    'group0': dict(group=3, groups={3: 0, 1: 2001}),
    'both0': dict(user=3, group=3, users={3: 0}, groups={3: 0}),
    'user0+group': dict(user=3, group=1, users={3: 0}, groups={1: 2001}),
    'user+group0': dict(user=1, group=3, users={1: 1001}, groups={3: 0}),
    'small': dict(user=4, group=4, users={4: 1}, groups={4: 1}),
}
UG.update(UG_IDS)
UG_REST = ['none', 'user', 'user?', 'group', 'group?', 'both']


def listen_ips(form):
    l = LISTEN[form]
    ip4 = ip6 = None
    for (f, ip, _p) in (l or []):
        if _fam(f) == 4:
            ip4 = ip or ANY4
        else:
            ip6 = ip
    return ip4 or LOOP4, ip6 or LOOP6


def subnets_of(form, lform):
    ip4, ip6 = listen_ips(lform)
    return {
        'none': [], 'v4': [I4], 'v6': [I6], 'both': [I4P, I6],
        'self4': [(4, ip4, 32, 0, 0)], 'self6': [(6, ip6, 128, 0, 0), I4],
        'selfboth': [(4, ip4, 32, 0, 0), (6, ip6, 128, 0, 0)],
        'self4port': [(4, ip4, 32, 22, 22), I6],
        'self6range': [(6, ip6, 128, 8000, 8080), I4],
    }[form]


def build(m, dis6, lf, df, sf, bf, tons=None, exc=(), an=None, ug='none', heavy=False, xlabel=''):
    inc = subnets_of(sf, lf)
    if an is None:
        an = 1 if not inc and (hash_small(m, lf, df) % 2 == 0) else 0
    kw = dict(DNS[df])
    kw.update(UG[ug])
    return mkcase(meth=m[0], helper=m[1], dis6=dis6, listen=LISTEN[lf], inc=inc, exc=exc, an=an, tons=tons,
                  bind=(BIND_HEAVY if heavy else BIND_LIGHT_ALL)[bf], **kw), \
        '%s/%s|%s|%s|%s|%s|%s' % (m[0] or '-', m[1], lf, df, sf, bf, xlabel)


def hash_small(*xs):
    return sum(sum(map(ord, repr(x))) for x in xs)


def product_core():
    for m, dis6, lf, df, sf, bf in itertools.product(METHODS, (0, 1), LISTEN, DNS_CORE, SUBNETS, BIND_LIGHT):
        yield build(m, dis6, lf, df, sf, bf)


def product_rest():
    for m, dis6, lf, df, sf, tons, exc, an, ug in itertools.product(
            METHODS, (0, 1), LISTEN_SMALL, DNS_SMALL, SUBNETS_SMALL, (None, (4, '1.1.1.1', 53)),
            ((), (X4,), (X4, X6)), (0, 1), UG_REST):
        yield build(m, dis6, lf, df, sf, 'free', tons=tons, exc=exc, an=an, ug=ug)


def product_coincide():
    """User entries that coincide with entries client.main adds by itself."""
    for m, dis6, lf, xf, sf, df in itertools.product(METHODS, (0, 1), LISTEN, XSELF, SUBNETS_X, ('off', 'dns46', 'nsh=resolv')):
        yield build(m, dis6, lf, df, sf, 'free', exc=excludes_of(xf, lf), xlabel=xf)


def product_ids():
    """--user/--group resolving to id 0 / small ids, for every method."""
    for m, dis6, lf, df, sf, ug in itertools.product(METHODS, (0, 1), LISTEN_SMALL, DNS_SMALL, ('v4', 'both'), UG_IDS):
        yield build(m, dis6, lf, df, sf, 'free', ug=ug)


def product_nstext():
    """Name-server texts in the spellings the family classification must get right."""
    for m, dis6, lf, df, sf in itertools.product(METHODS, (0, 1), LISTEN_SMALL + ['v4'], NS_TEXT, ('v4', 'both')):
        yield build(m, dis6, lf, df, sf, 'free')


def product_busy():
    """Busy ports per protocol and family at the first candidate / at the explicit ports, every method."""
    for m, dis6, lf, df, bf in itertools.product(METHODS, (0, 1), LISTEN, ('off', 'dns46'), BIND_BUSY):
        yield build(m, dis6, lf, df, 'both', bf)


def product_heavy():
    for m, dis6, lf, df, bf in itertools.product(METHODS, (0,), LISTEN, ('off', 'dns4', 'dns46'), BIND_HEAVY):
        yield build(m, dis6, lf, df, 'both', bf, heavy=True)


def corpus():
    """Boundary configurations that run first in every tier (incl. the witnesses of the findings)."""
    nat, nft, tpx = (None, 'nat'), ('auto', 'nft'), ('tproxy', 'tproxy')
    out = [
        build(nat, 0, 'none', 'off', 'v4', 'free'),
        build(nat, 0, 'none', 'dns46', 'both', 'free'),
        build(nat, 0, 'both:ports', 'off', 'v4', 'free'),                    # F11
        build(nat, 0, 'both:ports', 'dns4', 'both', 'explicit-busy'),        # F11, EADDRINUSE branch
        build(nat, 1, 'bareport', 'dns4', 'v4', 'free'),                     # F12
        build(nat, 0, 'both:v6port', 'dns46', 'both', 'free'),               # F12 (IPv6 port)
        build(tpx, 0, 'both:v4port', 'dns4', 'v4', 'free'),                  # F12 shape, UDP redirector holds the port
        build(nat, 0, 'both:sameport', 'dns46', 'both', 'free'),             # F11 + F12
        build(nft, 0, 'none', 'off', 'v4', 'free', ug='group'),              # F13
        build(tpx, 0, 'none', 'off', 'v4', 'free', ug='both'),
        build(('nft', 'nft'), 0, 'none', 'off', 'v4', 'free'),               # F14
        build(nat, 0, 'none', 'dns4', 'v4', 'all-but-last', heavy=True),     # F21
        build(nat, 0, 'v6', 'off', 'v6', 'free'),                            # F22
        build(nat, 0, 'v6:port', 'dns46', 'both', 'free'),                   # F22 + IPv4 subnets without IPv4 listener
        build(nat, 1, 'both', 'off', 'v4', 'free'),                          # --disable-ipv6 vs IPv6 --listen
        build(nat, 1, 'none', 'dns6', 'v6', 'free'),                         # all resolvers IPv6, IPv6 off
        build(('ipfw', 'ipfw'), 0, 'both', 'off', 'v4', 'free'),
        build(('ipfw', 'ipfw'), 0, 'none', 'nsh6', 'both', 'free'),
        build(nat, 0, 'none', 'off', 'none', 'free', an=0),
        build(nat, 0, 'none', 'off', 'none', 'free', an=1),
        build(nat, 0, 'none', 'off', 'selfboth', 'free'),
        build(nat, 0, 'none', 'dns4', 'v4', 'all-busy', heavy=True),
        build(tpx, 0, 'none', 'dns4', 'v4', 'udp-all-busy', heavy=True),
        build(nat, 0, 'none', 'dns46', 'both', 'udp6-all-but-last', heavy=True),
        build(nat, 0, 'none', 'off', 'v4', 'notavail6'),
        build(nat, 0, 'none', 'off', 'v4', 'acces4'),
        build(('auto', 'x0110100'), 0, 'none', 'dns4', 'v4', 'free'),
        build(nat, 0, 'none', 'dns4', 'v4', 'free', tons=(4, '1.1.1.1', 53)),
        build(nat, 0, 'none', 'off', 'v4', 'free', tons=(4, '1.1.1.1', 53)),
        build(nat, 0, 'both', 'dns46', 'both', 'free', tons=(6, '2001:db8::1', 5353)),
        build(nat, 1, 'none', 'dns4', 'v4', 'all-but-last', heavy=True),
    ]
    # user excludes / includes on the listen address itself (seeded change M-C15-C)
    for lf in ('none', 'lan4', 'both:ports', 'v6'):
        for xf in XSELF:
            out.append(build(nat, 0, lf, 'off', 'both', 'free', exc=excludes_of(xf, lf), xlabel=xf))
    out += [
        build(tpx, 0, 'none', 'dns46', 'v4', 'free', exc=excludes_of('x46port+other', 'none'), xlabel='x46port+other'),
        build(nat, 1, 'none', 'off', 'v4', 'free', exc=excludes_of('x6range', 'none'), xlabel='x6range'),
        build(nat, 0, 'none', 'off', 'self4port', 'free'),
        build(nat, 0, 'none', 'off', 'self6range', 'free'),
        build(nat, 0, 'none', 'off', 'self4port', 'free', exc=excludes_of('x4port', 'none'), xlabel='x4port'),
        build(nat, 0, 'none', 'nsh=resolv', 'both', 'free'),
    ]
    # accounts with numeric id 0 / small ids, every method (seeded change M-C15-G)
    for m in METHODS:
        for ug in ('user0', 'group0', 'both0', 'small'):
            out.append(build(m, 0, 'none', 'off', 'v4', 'free', ug=ug))
    # scoped / mapped / compressed IPv6 name servers (seeded change M-C15-I)
    for m in (nat, ('ipfw', 'ipfw'), tpx):
        for dis6 in (0, 1):
            for df in NS_TEXT:
                out.append(build(m, dis6, 'none', df, 'v4', 'free'))
    out.append(build(nat, 0, 'v4', 'dns6scoped', 'both', 'free'))
    # busy ports per protocol/family, every method (seeded change M-C15-P: UDP-only busy at the first port)
    for m in METHODS:
        for bf in ('first:udp4', 'first:udp6', 'first:tcp+udp46'):
            out.append(build(m, 0, 'none', 'dns4', 'v4', bf))
    for bf in BIND_BUSY:
        out.append(build(tpx, 0, 'both:v4port', 'dns46', 'both', bf))
        out.append(build(tpx, 0, 'both:ports', 'off', 'both', bf))
        out.append(build(nat, 0, 'v4:port', 'dns4', 'v4', bf))
    # subnets equal to a listen address (default loopback, --listen address), at every -v level
    for lv in (0, 1, 2, 3):
        for (lf, sf) in (('none', 'selfboth'), ('none', 'self4port'), ('lan4', 'self4'), ('both', 'self6'),
                         ('v6', 'self6range'), ('both:ports', 'selfboth')):
            cc, lab = build(nat if lv % 2 else tpx, 0, lf, 'off', sf, 'free')
            cc['verbose'] = lv
            out.append((cc, lab))
    c, _ = build(nat, 0, 'none', 'off', 'v4', 'free')
    c['remote'] = 0
    out.append((c, 'no-remote'))
    return out


def gen_cases(ctx):
    cases = list(corpus())
    rng = ctx.rng
    if ctx.thorough:
        cases += list(product_core()) + list(product_rest()) + list(product_coincide()) + list(product_ids()) + list(product_nstext()) + list(product_busy()) + list(product_heavy())
    else:
        frac_core, frac_rest, n_heavy = 0.03 * ctx.boost, 0.02 * ctx.boost, 12 * ctx.boost
        cases += [x for x in product_core() if rng.random() < frac_core]
        cases += [x for x in product_rest() if rng.random() < frac_rest]
        cases += [x for x in product_coincide() if rng.random() < frac_core]
        cases += [x for x in product_ids() if rng.random() < frac_core]
        cases += [x for x in product_nstext() if rng.random() < frac_core]
        cases += [x for x in product_busy() if rng.random() < frac_core]
        heavy = list(product_heavy())
        cases += rng.sample(heavy, min(n_heavy, len(heavy)))
    return cases


VERBOSITY_ROTATION = [0, 0, 3, 0, 2, 0, 3, 1]


def complexity(c):
    return (len(c['bind']) + len(c['inc']) + len(c['exc']) + len(c['nsh']) + len(c['resolv']) + c['dns'] + c['dis6'] +
            c['an'] + (c['tons'] is not None) + (c['user'] is not None) + (c['group'] is not None) +
            2 * len(c['listen'] or []) + (c['meth'] is not None) + (c.get('verbose') or 0))


def ensure_generated(ctx):
    """Several checks share lean/SshuttleModel/Gen/: another run (against another tree) may have
    rewritten Gen/C15.lean after this run's build.  Regenerate it from this run's tree and rebuild
    the driver's modules if it differs, so that the model compared is the model of this tree."""
    import extract_params
    from params import c15 as pc
    extract_params.REPO = common.REPO
    g = extract_params.Gen()
    g.raw('/- GENERATED by harness/params/c15.py from the working tree of the repository. Do not edit. -/')
    g.raw('namespace Sshuttle.Gen.C15')
    pc.generate(g, extract_params)
    g.raw('end Sshuttle.Gen.C15')
    text = '\n'.join(g.lines) + '\n'
    path = os.path.join(common.LEAN_DIR, 'SshuttleModel', 'Gen', 'C15.lean')
    try:
        with open(path) as f:
            same = f.read() == text
    except OSError:
        same = False
    if not same:
        extract_params.write_if_changed(path, text)
        ok, _out, _s = common.lake_build(DRIVER_TARGETS)
        ctx.notes.append('Gen/C15.lean had been rewritten by a concurrent run; regenerated, driver rebuilt: %s' % ok)


def run(ctx):
    import sshuttle.helpers as helpers
    helpers.verbose = 0
    docs = documented_methods()
    cases = gen_cases(ctx)
    lines, impl, spec = [], [], []
    best = {}                      # violation key -> (complexity, case, expected, observed)
    seen = set()
    n_corpus = len(corpus())
    for idx, (case, label) in enumerate(cases):
        if case.get('verbose') is None:
            # verbosity is a dimension of every scenario: -v count from a rotation shifted by the seed
            case['verbose'] = VERBOSITY_ROTATION[(idx + ctx.seed) % len(VERBOSITY_ROTATION)]
        line = case_line(case)
        if line in seen:
            continue
        seen.add(line)
        res = run_real(case)
        out = canon_out(res)
        ctx.hist('verbosity:-v*%d' % case['verbose'])
        if case['verbose'] and (idx < n_corpus or idx % 16 == 0):
            # the plan must not depend on the level: same configuration without -v
            quiet = canon_out(run_real(dict(case, verbose=0)))
            if quiet != out:
                cx = complexity(case)
                key = 'C15:outcome-depends-on-verbosity'
                if key not in best or cx < best[key][0]:
                    best[key] = (cx, case, 'the same outcome as without -v: ' + quiet[:300], out[:300])
        ctx.count()
        ctx.hist('outcome:' + out.split(' ')[0] + (':' + out.split(' ')[1] if not out.startswith('plan') else ''))
        ctx.hist('method:' + case['helper'])
        ctx.hist('listen:' + label.split('|')[1] if '|' in label else 'listen:-')
        if label.count('|') >= 5 and label.split('|')[5]:
            ctx.hist('exclude-on-listen-address:' + label.split('|')[5])
        default = (case['listen'] is None and not case['dns'] and not case['bind'] and len(case['inc']) == 1
                   and not case['exc'] and case['user'] is None and case['group'] is None and not case['nsh'])
        ctx.mark(line, not default)
        if len(ctx.samples) < 6 and (len(ctx.samples) < 2 or out.split(' ')[0] not in
                                     [s['real_code_output'].split(' ')[0] for s in ctx.samples]):
            ctx.sample(dict(argv=' '.join(argv_of(case)), helper_method=case['helper'], bind_rules=case['bind'],
                            real_code_output=out[:300]))
        for key, expected, observed in judge(case, res, docs):
            ctx.hist('violation:' + key)
            cx = complexity(case)
            if key not in best or cx < best[key][0]:
                best[key] = (cx, case, expected, observed)
        lines.append(line)
        impl.append(out)
        spec.append(py_spec_line(case, res))
    for key, (_cx, case, expected, observed) in sorted(best.items()):
        ctx.violation(key, case=dict(config=case, argv=argv_of(case)), expected=expected, observed=observed,
                      note='replay: run cmdline.main with this argv, helper method %r, bind rules %r'
                           % (case['helper'], case['bind']), kind='input')
    if not ctx.model_available:
        ctx.notes.append('model driver unavailable: correspondence skipped, oracle only')
        return
    ensure_generated(ctx)
    outs = common.LeanBatch('C15').run(lines)
    if len(outs) != 2 * len(lines):
        ctx.corr_break('C15', case=None, impl='%d lines' % (2 * len(lines)), model='%d lines' % len(outs),
                       note='driver output length differs')
        return
    for i, line in enumerate(lines):
        if outs[2 * i] != impl[i]:
            ctx.corr_break('plan', case=line, impl=impl[i], model=outs[2 * i])
        elif outs[2 * i + 1] != spec[i]:
            ctx.corr_break('spec', case=line, impl=spec[i], model=outs[2 * i + 1],
                           note='Spec/PlanConsistent evaluators and the Python oracle disagree on the same plan')
        if len(ctx.corr_breaks) > 20:
            break


def search(ctx):
    """The tie broke and the oracle was silent: enumerate a larger slice on the real code."""
    run(ctx)


def replay(ctx, rep):
    import sshuttle.helpers as helpers
    helpers.verbose = 0
    case = rep['case']['config']
    case = mkcase(**{k: case[k] for k in ('meth', 'helper', 'dis6', 'listen', 'dns', 'nsh', 'tons', 'inc', 'exc', 'an',
                                          'user', 'group', 'remote', 'resolv', 'users', 'groups', 'bind')},
                  verbose=case.get('verbose') or 0)
    res = run_real(case)
    vs = judge(case, res, documented_methods())
    keys = [k for k, _e, _o in vs]
    if case['verbose'] and canon_out(run_real(dict(case, verbose=0))) != canon_out(res):
        keys.append('C15:outcome-depends-on-verbosity')
    still = rep.get('key') in keys if rep.get('key') else bool(keys)
    return still, 'sshuttle %s -> %s%s' % (' '.join(argv_of(case)), canon_out(res)[:200],
                                            ('; violated: ' + ', '.join(keys)) if keys else '')
