"""C08 — a fault in one flow never takes down the tunnel or other flows.

Engine: the tunnel simulator of C01 with fault injection (every errno class the code handles at
connect, send, recv and shutdown time, at every callback of a designated faulty flow), plus
directed cases for id exhaustion on TCP / DNS / UDP arrivals, late frames for closed flows and
errors in the server's DNS / UDP proxies.  Oracle on the real run: no exception escapes an
accept callback, a Proxy/Mux callback or runonce; healthy flows still satisfy the C01 prefix
and completeness oracles; the faulty flow's socket was shut.
"""
import errno
import io
import sys

import common
import tunnel_gen as tg
from tunnel_sim import Io

RULE = ("scenario = one faulty flow + 0..3 healthy neighbours; base schedule as C01; faults = connect errno from the "
        "handled set (ECONNREFUSED ETIMEDOUT EHOSTUNREACH ENETUNREACH EHOSTDOWN ENETDOWN ECONNABORTED ECONNRESET "
        "EACCES EPERM, EINVAL->SO_ERROR), recv reset, send reset, EPIPE, shutdown error, injected at random callbacks "
        "of the faulty flow (quick) / every callback index (thorough); directed: id exhaustion for tcp/dns/udp, late "
        "frames, DnsProxy/UdpProxy socket errors, getpeername errnos at accept, accept() failing with EMFILE/ENFILE/other "
        "errnos at 0/1/7 free descriptor slots (counting os shim); non-trivial = at least one fault fired; distinct = distinct script")
DRIVER_TARGETS = ['SshuttleModel.Code.Tunnel', 'SshuttleModel.Code.Accept', 'SshuttleModel.Code.Alloc']
DRIVERS = ['Tunnel', 'C08']
ASSUMPTIONS = [
    "errnos outside the handled set at connect time are re-raised by design (try_connect: 'barf completely') and are "
    "outside the property's quantifier",
    "the peer's frames are well-formed (a flow's channel only ever carries DATA/EOF/STOP_SENDING)",
]
MANIFEST = dict(
    level_text=("Lean 4 theorems over the tunnel model, whose step alphabet contains every fault (any connect errno, recv "
                "error, send error/EPIPE, failing shutdown, frames for closed flows, id exhaustion): a Proxy.callback ends "
                "the process exactly when a pending connect fails with an errno outside the handled set "
                "(C08_callback_dies_iff, C08_callback_total); a failed connect / a receive error leaves the wrapper shut "
                "both ways and the local socket shut down (C08_connect_error_closes, C08_recv_error_closes); in every "
                "reachable state of every schedule, with no hypothesis at all, a recorded error means wrapper closed and "
                "socket shut down, and ok=False means finished and unregistered (C08_error_means_closed); a callback of "
                "one flow changes no other flow's record and queues only frames of its own channel (C08_step_frame); every "
                "other flow keeps C01's prefix guarantee under arbitrary fault schedules (C08_neighbours_safe); the "
                "complete list of steps that can end a process (C08_death_causes: unknown connect errno, CONNECT for a live "
                "id, non-stream frame on a TCP channel - nothing else), and none of them can occur: from start-up, for "
                "every schedule whose connect errnos are in the handled set and whose DNS/UDP/control frames are not "
                "addressed to a TCP flow id, with pairwise distinct flow ids, neither process ever ends (C08_no_death); in front of the flow, the accept handler: getpeername() failing on the "
                "accepted socket with ENOTCONN / EINVAL / ENOTSOCK (a reset before the wrapper exists) is tolerated "
                "(C08_reset_at_accept_contained, over the errno set read off ssnet._try_peername on every run), and accept() "
                "failing with EMFILE / ENFILE ends only the arriving connection for EVERY number of free descriptor slots, zero "
                "included: the handler's descriptor operations, in the order read off client.onaccept_tcp on every run, never "
                "need a slot they have not freed and leave the spare descriptor open again (C08_fd_exhaustion_contained); no identifier free "
                "for a TCP accept, DNS query or new UDP source discards the arrival and leaves the client's tables exactly as they "
                "were (C08_exhaustion_discards, over the table model C06 keeps in lock-step with the real handlers). Replayed against the real classes with fault "
                "injection on every run; exhaustion / late-frame / server UDP and DNS proxy faults are driven on the real "
                "client and server functions."),
    level_note=("Trusted: as C01. UDP/DNS flows are outside the Lean model: their containment is decided on the real code "
                "only. 'Eventually torn down' for the faulty flow is checked by the fair-drain oracle on the real code. Defects found and repaired: F2 (7d459d6), F3 (540f989), F4 (0da7bbb); see known_findings/C08.json."),
    technique="Lean 4 proof (totality + frame lemma + C01 invariant under faults) + fault-injection replay on the real classes",
)


def scenario(ctx, rng, o):
    sc = tg.Scenario(rng, o)
    try:
        for _ in range(o.steps):
            sc.random_step()
            if sc.stop:
                break
            if not tg.oracle_prefix(ctx, sc, 'C08', 'random phase'):
                break
        if not sc.stop:
            sc.drain(on_round=lambda s: tg.oracle_prefix(ctx, s, 'C08', 'drain'))
            for i in range(len(sc.t.flows)):
                sc.do(('ae', i))
                sc.do(('de', i))
            q = sc.drain(on_round=lambda s: tg.oracle_prefix(ctx, s, 'C08', 'final drain'))
            if not sc.stop:
                tg.oracle_complete(ctx, sc, 'C08', q)        # healthy flows deliver everything
                if q:
                    tg.oracle_quiet(ctx, sc, 'C08')
                # the faulty flow's sockets end up shut (closed rather than left hanging)
                for i in sorted(sc.faulty):
                    f = sc.t.flows[i]
                    if f.s_ever and q and not (f.app.saw_shut and f.dst.saw_shut):
                        tg.report(ctx, sc, 'C08:faulty-flow:socket-left-open', i, 'quiescence',
                                  'both sockets of the failed flow shut', dict(app=f.app.saw_shut, dst=f.dst.saw_shut))
        # a death is only a violation when no out-of-set errno was injected (none is, by construction)
        tg.oracle_alive(ctx, sc, 'C08', 'run')
        return sc.s.ins, sc.s.outs, bool(sc.faulty)
    finally:
        sc.close()


# ------------------------------------------------------------------ directed cases on client/server functions

class _Dummy:
    def __init__(self, n=900):
        self.n = n

    def fileno(self):
        return self.n

    def read(self, n):
        return b''

    def write(self, b):
        return len(b)


def directed(ctx):
    """Exhaustion and proxy-socket faults on the real accept handlers and server proxies."""
    import sshuttle.ssnet as ssnet
    import sshuttle.client as client
    import sshuttle.server as server
    import sshuttle.helpers as helpers
    helpers.verbose = 0
    old_err = sys.stderr
    sys.stderr = io.StringIO()
    saved = dict(max=ssnet.MAX_CHANNEL, nb=ssnet.set_non_blocking_io, t=client.time.time, ssock=server.socket)
    try:
        ssnet.set_non_blocking_io = lambda fd: None
        client.time.time = lambda: 1000.0
        # --- id exhaustion on each kind of arrival
        for kind in ('tcp', 'dns', 'udp'):
            ssnet.MAX_CHANNEL = 3
            client.dnsreqs.clear()
            client.udp_by_src.clear()
            mux = ssnet.Mux(_Dummy(), _Dummy())
            for c in (1, 2, 3):
                mux.channels[c] = lambda cmd, data: None
            handlers = []
            closed = []

            class S:
                family = 2

                def getsockname(self):
                    return ('127.0.0.1', 12300)

                def getpeername(self):
                    return ('10.0.0.9', 5)

                def close(self):
                    closed.append(1)

                def setblocking(self, b):
                    pass

                def fileno(self):
                    return 77

            class L:
                family = 2

                def accept(self):
                    return S(), ('10.0.0.9', 5)

            class M:
                def get_tcp_dstip(self, s):
                    return ('192.0.2.1', 80)

                def recv_udp(self, l, n):
                    return (('10.0.0.9', 5), ('192.0.2.1', 53), b'query')

                def send_udp(self, *a):
                    pass
            n_out = len(mux.outbuf)
            ctx.count()
            ctx.hist('directed:exhaust-' + kind)
            ctx.mark(('exhaust', kind), True)
            try:
                if kind == 'tcp':
                    client.onaccept_tcp(L(), M(), mux, handlers)
                    ok = closed == [1] and not handlers
                elif kind == 'dns':
                    client.ondns(L(), M(), mux, handlers)
                    ok = not client.dnsreqs
                else:
                    client.onaccept_udp(L(), M(), mux, handlers)
                    ok = not client.udp_by_src
                if not ok or len(mux.outbuf) != n_out:
                    ctx.violation('C08:exhaustion-%s:state-changed' % kind, case=dict(kind='exhaust', flow=kind),
                                  expected='arrival discarded, nothing registered or sent',
                                  observed=dict(handlers=len(handlers), closed=closed, frames=len(mux.outbuf) - n_out))
            except Exception as e:  # noqa
                ctx.violation('C08:exhaustion-%s:exception-%s' % (kind, type(e).__name__),
                              case=dict(kind='exhaust', flow=kind),
                              expected='the arrival is discarded; the client keeps running', observed=repr(e))
        ssnet.MAX_CHANNEL = saved['max']
        # --- a reply that arrives after the client has expired the query / association is discarded
        for kind in ('dns', 'udp'):
            client.dnsreqs.clear()
            client.udp_by_src.clear()
            now = [1000.0]
            client.time.time = lambda: now[0]
            mux = ssnet.Mux(_Dummy(), _Dummy())
            handlers = []
            sent = []

            class L2:
                family = 2

            class M2:
                def __init__(self):
                    self.n = 0

                def recv_udp(self, l, n):
                    self.n += 1
                    return (('10.0.0.%d' % self.n, 5), ('192.0.2.1', 53), b'query%d' % self.n)

                def send_udp(self, *a):
                    sent.append(a)
            m2 = M2()
            ctx.count()
            ctx.hist('directed:late-' + kind)
            ctx.mark(('late', kind), True)
            try:
                fn = client.ondns if kind == 'dns' else client.onaccept_udp
                fn(L2(), m2, mux, handlers)
                old = [c for c, v in mux.channels.items() if v]
                now[0] += 31.0
                fn(L2(), m2, mux, handlers)             # a newer arrival runs the expiry sweep
                for c in old:
                    if kind == 'dns':
                        mux.got_packet(c, ssnet.CMD_DNS_RESPONSE, b'late answer')
                    else:
                        mux.got_packet(c, ssnet.CMD_UDP_DATA, b'198.51.100.7,77,late')
                now[0] += 31.0
                fn(L2(), m2, mux, handlers)             # and the next sweep still works
                if len(sent) != 0:
                    ctx.violation('C08:late-%s:reached-a-flow' % kind, case=dict(kind='exhaust', flow='late-' + kind),
                                  expected='late frame for an expired flow is discarded', observed=len(sent))
            except Exception as e:  # noqa
                ctx.violation('C08:late-%s:exception-%s' % (kind, type(e).__name__),
                              case=dict(kind='exhaust', flow='late-' + kind),
                              expected='a late message for a closed flow is discarded; the client keeps running',
                              observed=repr(e))
        client.time.time = lambda: 1000.0
        # --- server proxies: socket errors of the handled set must not escape
        errs = [errno.ECONNREFUSED, errno.ENETUNREACH, errno.EHOSTUNREACH, errno.ETIMEDOUT, errno.ECONNRESET]
        for where in ('udp-recvfrom', 'dns-connect', 'dns-send', 'dns-recv'):
            for en in errs:
                ctx.count()
                ctx.hist('directed:' + where)
                ctx.mark((where, en), True)
                mux = ssnet.Mux(_Dummy(), _Dummy())

                class FS:
                    def __init__(self, *a, **k):
                        self.calls = []

                    def connect(self, addr):
                        if where == 'dns-connect':
                            raise OSError(en, 'scripted')

                    def send(self, b):
                        if where == 'dns-send':
                            raise OSError(en, 'scripted')
                        return len(b)

                    def recv(self, n):
                        raise OSError(en, 'scripted')

                    def recvfrom(self, n):
                        raise OSError(en, 'scripted')

                    def sendto(self, b, a):
                        return len(b)

                    def fileno(self):
                        return 55

                class SockMod:
                    def __getattr__(self, n):
                        return getattr(saved['ssock'], n)

                    def socket(self, *a, **k):
                        return FS()

                    @staticmethod
                    def getaddrinfo(peer, port, *a, **k):
                        return [(2, 2, 17, '', (peer, int(port)))]
                server.socket = SockMod()
                try:
                    if where == 'udp-recvfrom':
                        h = server.UdpProxy(mux, 5, 2)
                        h.callback(h.sock)
                    else:
                        h = server.DnsProxy(mux, 5, b'q', '192.0.2.53@53')
                        if where == 'dns-recv':
                            for s in list(h.socks):
                                h.callback(s)
                except Exception as e:  # noqa
                    ctx.violation('C08:server-%s:exception-%s' % (where, type(e).__name__),
                                  case=dict(kind='server-proxy', where=where, errno=en),
                                  expected='the error ends at most this flow; the server keeps running',
                                  observed=repr(e))
                finally:
                    server.socket = saved['ssock']
    finally:
        ssnet.MAX_CHANNEL = saved['max']
        ssnet.set_non_blocking_io = saved['nb']
        client.time.time = saved['t']
        server.socket = saved['ssock']
        client.dnsreqs.clear()
        client.udp_by_src.clear()
        sys.stderr = old_err


def dgram_faults(ctx):
    """Faults in UDP / DNS flows, driven through the REAL server.main loop and the real client handlers by the
    datagram engine of C10/C11: after the fault, later messages for the same flow (another datagram, the close sent
    at expiry) must not end either process."""
    import dgram_engine as E
    T = 30 * E.TICKS
    u = 'cudp 2 10.0.0.5|4001 5.6.7.8|99 %s'
    q = 'cdns 2 10.0.0.5|4000 9.9.9.9|53 %s'
    cfg_u = 'cfg method=tproxy max=65535 probes=1024 ns=- tons=-'
    cfg_d = 'cfg method=tproxy max=65535 probes=1024 ns=1.1.1.1,8.8.8.8 tons=-'
    cases = [
        ('udp-recv-error-then-data-and-close', 'udp', cfg_u,
         [u % '01', 'sround 2', 'ssock 0 e 111', 'sround 0', u % '02', 'sround 1', 'tick %d' % (T + 1), 'caccept', 'sround 2',
          u % '03', 'sround 2', 'ssock 1 d 5.6.7.8|99 aa', 'cdeliver']),
        ('udp-recv-error-twice', 'udp', cfg_u,
         [u % '01', 'sround 2', 'ssock 0 e 104', 'ssock 0 e 111', u % '02', 'sround 1', 'ssock 0 d 5.6.7.8|99 aa', 'cdeliver']),
        ('udp-silence-then-data', 'udp', cfg_u,
         [u % '01', 'sround 2', 'ssock 0 d 5.6.7.8|99 aa', 'cdeliver', 'tick %d' % (T + 15 * E.TICKS), 'sround 0',
          u % '02', 'sround 1', 'ssock 0 d 5.6.7.8|99 bb', 'cdeliver', 'tick %d' % (2 * T), 'sround 0', u % '03', 'sround 2']),
        ('dns-recv-error-then-late-reply', 'dns', cfg_d,
         [q % '01', 'sround 1', 'ssock 0 e 111', 'sround 0', 'tick %d' % (T + 1), q % '02', 'sround 1', 'cdeliver']),
    ]
    for focus in ('udp', 'dns'):
        for name, cfg, steps in E.corpus(focus):
            if 'error' in name or 'retries' in name or 'no-free-id' in name:
                cases.append((name, focus, cfg, steps))
    for n_case, (name, focus, cfg, steps) in enumerate(cases):
        if hasattr(E, 'at_level'):
            cfg = E.at_level(cfg, n_case, ctx.seed)      # verbosity is a dimension of every scenario
        lg = E.execute('c08:' + name, cfg, steps, 0)
        ctx.count()
        ctx.mark(('dgram', name), True)
        ctx.hist('directed:dgram-fault')
        for v in lg.violations:
            k = v['key']
            if 'raised' in k or 'died' in k or 'dead' in k:
                ctx.violation('C08:dgram:' + k.split(':', 1)[1],
                              case=dict(kind='dgram', name=name, focus=focus, cfg=cfg, steps=list(steps)),
                              expected='a fault in a UDP/DNS flow ends at most that flow; client and server keep running',
                              observed=dict(observed=v.get('observed'), at_step=v.get('line')))
                break


def accept_faults(ctx, only=None):
    """Faults in front of the flow, through the REAL client.onaccept_tcp: getpeername() failing on the accepted
    socket (a reset between accept() and the wrapper), and accept() failing for lack of descriptors with the process
    at / near its descriptor limit (the os-level open/close of the spare descriptor go through a counting shim).
    Outcomes are compared with the model (Code/Accept.lean, whose errno sets and operation order are extracted from
    the source) and judged by the property: the tolerated resets and EMFILE/ENFILE must not end the client."""
    import socket
    import sshuttle.ssnet as ssnet
    import sshuttle.client as client

    class DF:
        def fileno(self):
            return 999

        def read(self, n):
            return b''

        def write(self, b):
            return len(b)

    class Budget:
        def __init__(self, free):
            self.free, self.extra, self.sock = free, True, False

    class Sock:
        family = 2

        def __init__(self, b, err):
            self.b, self.err, self.closed = b, err, False

        def getsockname(self):
            return ('127.0.0.1', 12300)

        def getpeername(self):
            if self.err is not None:
                raise socket.error(self.err, os_strerror(self.err))
            return ('10.9.0.1', 40000)

        def close(self):
            if not self.closed:
                self.closed = True
                self.b.sock = False
                self.b.free += 1

        def setblocking(self, x):
            pass

        def shutdown(self, how):
            pass

        def fileno(self):
            return 2001

    def os_strerror(e):
        import os
        return os.strerror(e)

    class Listener:
        family = 2

        def __init__(self, b, first_err, peer_err):
            self.b, self.first_err, self.peer_err, self.calls = b, first_err, peer_err, 0

        def accept(self):
            self.calls += 1
            if self.calls == 1 and self.first_err is not None:
                raise socket.error(self.first_err, os_strerror(self.first_err))
            if self.b.free == 0:
                raise socket.error(errno.EMFILE, os_strerror(errno.EMFILE))
            self.b.free -= 1
            self.b.sock = True
            self.last = Sock(self.b, self.peer_err)
            return self.last, ('10.9.0.1', 40000)

    class Method:
        def get_tcp_dstip(self, sock):
            return ('192.0.2.1', 80)

    EXTRA = 987654

    class OsShim:
        def __init__(self, real, b):
            self._real, self._b = real, b

        def __getattr__(self, n):
            return getattr(self._real, n)

        def close(self, fd):
            if fd == EXTRA and self._b.extra:
                self._b.extra = False
                self._b.free += 1
                return
            raise OSError(errno.EBADF, 'Bad file descriptor')

        def open(self, path, flags, *a):
            if self._b.free == 0:
                raise OSError(errno.EMFILE, 'Too many open files')
            self._b.free -= 1
            self._b.extra = True
            return EXTRA

    def one(first_err, peer_err, free):
        b = Budget(free)
        saved = (client.os, client._extra_fd, ssnet.set_non_blocking_io if hasattr(ssnet, 'set_non_blocking_io') else None)
        client.os = OsShim(saved[0], b)
        client._extra_fd = EXTRA
        old_stderr = sys.stderr
        sys.stderr = io.StringIO()
        handlers = []
        try:
            mux = ssnet.Mux(DF(), DF())
            lst = Listener(b, first_err, peer_err)
            try:
                client.onaccept_tcp(lst, Method(), mux, handlers)
            except Exception as e:  # noqa
                return 'died', '%s: %s' % (type(e).__name__, e)
            if handlers:
                return 'created', ''
            return 'refused free=%d extra=%d sock=%d' % (b.free, int(b.extra and client._extra_fd == EXTRA), int(b.sock)), ''
        finally:
            sys.stderr = old_stderr
            client.os, client._extra_fd = saved[0], saved[1]

    ins, outs, meta = [], [], []
    tolerated = [errno.ENOTCONN, errno.EINVAL, errno.ENOTSOCK]
    for e in [None] + tolerated + [errno.ECONNRESET, errno.EBADF, errno.EIO]:
        if only and only != ('peername', e):
            continue
        out, why = one(None, e, 5)
        ins.append('peername %s' % ('none' if e is None else e))
        outs.append(out)
        meta.append(dict(kind='accept-fault', what='peername', errno=e))
        ctx.count()
        ctx.mark(('peername', e), e is not None)
        ctx.hist('directed:accept-peername')
        if e in tolerated and out != 'created':
            ctx.violation('C08:accept:reset-before-the-wrapper-ends-the-client',
                          case=dict(kind='accept-fault', what='peername', errno=e),
                          expected='getpeername() failing with %s on the accepted socket is tolerated: the flow is created '
                                   '(and ends through the ordinary error path); the client keeps running' % errno.errorcode[e],
                          observed='%s %s' % (out, why))
    for e in [errno.EMFILE, errno.ENFILE, errno.EAGAIN, errno.ECONNABORTED]:
        for free in (0, 1, 7):
            if only and only != ('accepterr', e, free):
                continue
            out, why = one(e, None, free)
            ins.append('accepterr %d %d' % (e, free))
            outs.append(out)
            meta.append(dict(kind='accept-fault', what='accepterr', errno=e, free=free))
            ctx.count()
            ctx.mark(('accepterr', e, free), True)
            ctx.hist('directed:accept-fd-exhaustion')
            if e in (errno.EMFILE, errno.ENFILE) and out != 'refused free=%d extra=1 sock=0' % free:
                ctx.violation('C08:accept:descriptor-exhaustion-ends-the-client',
                              case=dict(kind='accept-fault', what='accepterr', errno=e, free=free),
                              expected='the arriving connection is accepted and closed, the spare descriptor is open again, '
                                       '%d free slots as before; the client keeps running' % free,
                              observed='%s %s' % (out, why))
    if only or not ctx.model_available:
        return ins, outs
    mo = common.LeanBatch('C08').run(ins)
    if len(mo) != len(ins):
        ctx.corr_break('C08', case=None, impl='%d lines' % len(ins), model='%d lines' % len(mo))
        return ins, outs
    for i, (a, b2) in enumerate(zip(outs, mo)):
        if a != b2:
            ctx.corr_break('C08', case=meta[i], impl=a, model=b2, note='input line: ' + ins[i])
    return ins, outs


def reset_in_same_round(ctx, rng, which):
    """A flow's endpoint resets in the SAME select round in which traffic of another flow arrives on the mux, with
    the faulty flow already half-closed by its peer: one real ssnet.runonce must survive it and the neighbour's
    bytes must be intact.  `which` = the end whose endpoint resets."""
    o = tg.Opts(nflows=2, steps=0)
    sc = tg.Scenario(rng, o)
    try:
        t = sc.t
        full = Io('ok', 'd65536', 's65536', False)
        for _ in range(2):
            sc.do(('accept',))
        sc.do(('deliver', 's', 'ok'))
        sc.do(('deliver', 's', 'ok'))
        sc.do(('deliver', 's', 'ok'))
        if sc.stop or len(t.flows) < 2:
            return sc.s.ins, sc.s.outs
        near, far = ('s', 'c') if which == 's' else ('c', 's')
        far_eof = ('ae', 0) if which == 's' else ('de', 0)
        far_side = 'app' if which == 's' else 'dst'
        # flow 0: the far endpoint closes; its EOF crosses the tunnel and is processed at the near end
        sc.do(far_eof)
        sc.do(('cb', far, 0, full))
        while (t.cmux.outbuf if far == 'c' else t.smux.outbuf) and not sc.stop:
            sc.do(('deliver', near, 'ok'))
        # flow 1: data on its way towards the near end, still in the queue
        sc.env_write(1, far_side, tg.payload(rng, 3000, 4))
        sc.do(('cb', far, 1, full))
        sc.faulty.add(0)
        # the round: flow 1's frames arrive on the mux file AND flow 0's near endpoint is ready and resets
        sc.do(('round', near, 5, [0], Io('ok', 'x', 's65536', False)))
        tg.oracle_alive(ctx, sc, 'C08', 'round with a reset and mux traffic')
        if not sc.stop and not t.died:
            sc.do(('ae', 1))
            sc.do(('de', 1))
            q = sc.drain()
            tg.oracle_prefix(ctx, sc, 'C08', 'after the round')
            tg.oracle_complete(ctx, sc, 'C08', q)
            if q:
                tg.oracle_quiet(ctx, sc, 'C08')
            tg.oracle_alive(ctx, sc, 'C08', 'run')
        return sc.s.ins, sc.s.outs
    finally:
        sc.close()


def client_delivery_faults(ctx, only=None):
    """The reply of a DNS query or of a UDP association cannot be handed to the local requester: the send on the
    CLIENT's side fails with a network error (the requester's address has become unreachable, a local filter refuses
    the packet, no buffer space).  That is a failure confined to one flow: the client process keeps running, and a
    neighbouring flow's reply, arriving in the same read right behind it, is delivered.  Real ondns / onaccept_udp /
    dns_done / udp_done, real Mux.handle through the real ssnet.runonce; DNS goes through the real BaseMethod
    (recvfrom / sendto on the listener socket, which is scripted), UDP through a scripted method."""
    import struct
    import sshuttle.ssnet as ssnet
    import sshuttle.client as client
    import sshuttle.helpers as helpers
    from sshuttle.methods import BaseMethod

    class Feed:
        def __init__(self):
            self.data = b''

        def fileno(self):
            return 997

        def read(self, n):
            out, self.data = self.data[:n], self.data[n:]
            return out if out else None

        def write(self, b):
            return len(b)

    class Listener:
        """the client's DNS / UDP listener socket"""
        family = 2

        def __init__(self):
            self.next = None
            self.sent = []
            self.fail = None

        def recvfrom(self, n):
            return self.next

        def sendto(self, data, dst):
            if self.fail is not None:
                e, self.fail = self.fail, None
                raise OSError(e, 'scripted: ' + __import__('os').strerror(e))
            self.sent.append((dst, data))
            return len(data)

    class UdpMethod:
        def __init__(self, listener):
            self.listener = listener
            self.next = None

        def recv_udp(self, listener, bufsize):
            return self.next

        def send_udp(self, sock, srcip, dstip, data):
            return self.listener.sendto(data, dstip)

    def frame(chan, cmd, data):
        return struct.pack('!ccHHH', b'S', b'S', chan, cmd, len(data)) + data

    errs = sorted(set(int(x) for x in ssnet.NET_ERRS) | {errno.EPERM, errno.EACCES, errno.ENOBUFS, errno.EMSGSIZE})
    levels = [0, 3, 1, 2]
    n_case = 0
    for kind in ('dns', 'udp'):
        for eno in errs:
            n_case += 1
            if only is not None and only != [kind, eno]:
                continue
            ctx.count()
            ctx.hist('directed:client-delivery-fault')
            ctx.mark(('client-delivery-fault', kind, eno), True)
            saved = dict(select=ssnet.select, nbio=ssnet.set_non_blocking_io, verbose=helpers.verbose, stderr=sys.stderr,
                         time=client.time.time)
            what = None
            try:
                helpers.verbose = levels[(n_case + int(ctx.seed)) % len(levels)]
                sys.stderr = io.StringIO()
                ssnet.set_non_blocking_io = lambda fd: None
                client.time.time = lambda: 1000.0
                client.dnsreqs.clear()
                client.udp_by_src.clear()
                feed = Feed()
                mux = ssnet.Mux(feed, Feed())
                handlers = [mux]
                lst = Listener()
                real_select = saved['select']

                class Sel:
                    def select(s, r, w, x, *a):
                        return ([i for i in r if i is feed and feed.data], [], [])

                    def __getattr__(s, n):
                        return getattr(real_select, n)
                ssnet.select = Sel()
                if kind == 'dns':
                    method = BaseMethod('nat')
                    lst.next = (b'query-A', ('10.0.0.5', 4000))
                    client.ondns(lst, method, mux, handlers)
                    lst.next = (b'query-B', ('10.0.0.6', 4001))
                    client.ondns(lst, method, mux, handlers)
                    ids = sorted(client.dnsreqs)
                    burst = [frame(ids[0], ssnet.CMD_DNS_RESPONSE, b'answer-A'), frame(ids[1], ssnet.CMD_DNS_RESPONSE, b'answer-B')]
                    want = (('10.0.0.6', 4001), b'answer-B')
                else:
                    method = UdpMethod(lst)
                    method.next = (('10.0.0.5', 4000), ('5.6.7.8', 99), b'dgram-A')
                    client.onaccept_udp(lst, method, mux, handlers)
                    method.next = (('10.0.0.6', 4001), ('5.6.7.8', 99), b'dgram-B')
                    client.onaccept_udp(lst, method, mux, handlers)
                    ids = sorted(ch for (ch, _t) in client.udp_by_src.values())
                    burst = [frame(ids[0], ssnet.CMD_UDP_DATA, b'5.6.7.8,99,reply-A'), frame(ids[1], ssnet.CMD_UDP_DATA, b'5.6.7.8,99,reply-B')]
                    want = (('10.0.0.6', 4001), b'reply-B')
                if len(ids) != 2:
                    what = 'harness: the two flows were not opened (%r)' % (ids,)
                else:
                    lst.fail = eno                      # the send of the first reply fails
                    feed.data = b''.join(burst)
                    try:
                        ssnet.runonce(handlers, mux)
                        ssnet.runonce(handlers, mux)
                    except Exception as e:  # noqa
                        what = ('the client\'s loop ended with %s: %s (the send of one %s reply to its requester failed with %s)'
                                % (type(e).__name__, e, kind, errno.errorcode.get(eno, eno)))
                    if what is None and want not in lst.sent:
                        what = 'the neighbouring flow\'s reply, in the same read behind the failing one, was not delivered: sent %r' % (lst.sent,)
                    if what is None and not mux.ok:
                        what = 'the tunnel handler was marked finished'
            finally:
                ssnet.select = saved['select']
                ssnet.set_non_blocking_io = saved['nbio']
                helpers.verbose = saved['verbose']
                sys.stderr = saved['stderr']
                client.time.time = saved['time']
                client.dnsreqs.clear()
                client.udp_by_src.clear()
            if what:
                ctx.violation('C08:client-delivery:%s-reply-send-error-ends-the-client' % kind,
                              case=dict(kind='client-delivery-fault', flow=kind, errno=eno),
                              expected='the reply that cannot be delivered is dropped (at most that flow ends); the client '
                                       'keeps running and the neighbouring flow gets its reply', observed=what)
                break


def run(ctx):
    rng = ctx.rng
    tg.set_verbosity_seed(ctx.seed)
    directed(ctx)
    dgram_faults(ctx)
    accept_faults(ctx)
    client_delivery_faults(ctx)
    all_in, all_out = [], []
    for which in ('s', 'c'):
        ins, outs = reset_in_same_round(ctx, rng, which)
        all_in.append(ins)
        all_out.append(outs)
        ctx.count()
        ctx.mark(('reset-in-same-round', which), True)
        ctx.hist('directed:reset-in-same-round')
    # every errno of the code's own handled set, at receive and at send, at either endpoint: the flow ends, both
    # processes live, the state at rest is quiet
    import sshuttle.ssnet as _ssnet
    for e in sorted(set(int(x) for x in _ssnet.NET_ERRS) | set(tg.OTHER_SOCK_ERRS)):
        for which in ('app', 'dst'):
            for fault in ('recv', 'send'):
                ins, outs = tg.failure_tears_down(ctx, rng, 'C08', which, fault, err='x%d' % e)
                all_in.append(ins)
                all_out.append(outs)
                ctx.count()
                ctx.mark(('errno-sweep', e, which, fault), True)
                ctx.hist('directed:errno-sweep')
    n = ctx.scale(60, 1500)
    for k in range(n):
        o = tg.Opts(nflows=rng.choice([1, 2, 3, 4]), steps=rng.randrange(20, 80), faults=True,
                    latency=rng.random() < 0.3, bufsize=rng.choice([100, 2048, 32768]))
        ins, outs, nontrivial = scenario(ctx, rng, o)
        all_in.append(ins)
        all_out.append(outs)
        ctx.count()
        ctx.mark(tuple(ins), nontrivial)
        ctx.hist('flows=%d' % o.nflows)
        if k < 2:
            ctx.sample(dict(script=[l for l in ins if ' x ' in l or ' p ' in l or 'e1' in l][:8] or ins[:8]))
        if len(ctx.violations) > 3:
            break
    tg.compare(ctx, all_in, all_out, 'C08')


def replay(ctx, rep):
    case = rep['case']
    if case.get('kind') == 'dgram':
        c2 = type(ctx)(ctx.prop_id, 'quick', 0)
        dgram_faults(c2)
        hit = [v for v in c2.violations if v['key'] == rep.get('key')]
        return bool(hit), (str(hit[0]['observed'])[:300] if hit else 'both processes keep running')
    if case.get('kind') == 'accept-fault':
        c2 = type(ctx)(ctx.prop_id, 'quick', 0)
        only = ('peername', case['errno']) if case['what'] == 'peername' else ('accepterr', case['errno'], case['free'])
        _ins, outs = accept_faults(c2, only=only)
        hit = [v for v in c2.violations if v['key'] == rep.get('key')]
        return bool(hit), (str(hit[0]['observed'])[:300] if hit else 'outcome: %s' % (outs[0] if outs else '-'))
    if case.get('kind') in ('exhaust', 'server-proxy'):
        c2 = type(ctx)(ctx.prop_id, 'quick', 0)
        directed(c2)
        hit = [v for v in c2.violations if v['key'] == rep['key']]
        return bool(hit), (hit[0]['observed'] if hit else 'directed case passes')
    if case.get('kind') == 'client-delivery-fault':
        c2 = type(ctx)(ctx.prop_id, 'quick', 0)
        client_delivery_faults(c2, only=[case['flow'], case['errno']])
        hit = [v for v in c2.violations if v['key'] == rep['key']]
        return bool(hit), (hit[0]['observed'] if hit else 'the undeliverable reply is dropped, the client runs on, the neighbour gets its reply')
    if ':work:' in rep.get('key', ''):
        return tg.replay_work(case)
    s, wrote = tg.replay_script(case)
    try:
        common_verdict = tg.replay_common(s)
        if common_verdict:
            return common_verdict
        t = s.t
        if t.died:
            return True, 'process died: %s' % t.died
        if 'flow-not-torn-down' in rep.get('key', ''):
            return tg.replay_torn_down(s, case)
        for i, f in enumerate(t.flows):
            up, down = wrote.get((i, 'app'), b''), wrote.get((i, 'dst'), b'')
            if f.dst.delivered != up[:len(f.dst.delivered)] or f.app.delivered != down[:len(f.app.delivered)]:
                return True, 'flow %d: delivered bytes are not a prefix of the written ones' % i
        return False, 'tunnel alive and every flow consistent on the recorded schedule'
    finally:
        s.close()
