"""C17 — automatically discovered routes are canonical and always reach the client.

Real code driven (all from the working tree, fakes only at the OS boundary):
  * `server.main()` itself, with `ssubprocess.Popen` / `which` / `io.FileIO` / `sys.stdout` replaced and
    stopped right after the ROUTES message was queued on the real `Mux`: this runs the real
    `list_routes` -> `_list_routes` -> `_route_iproute`/`_route_netstat` -> `_ipmatch`/`_maskbits`/`_shl`
    and the real packet builder on generated tool output;
  * the bytes that server wrote (sync header + frames) are fed to the real `client._main`
    (handshake), whose `Mux` then parses them with `Mux.handle()` and calls the real `onroutes`;
    the firewall is a real `FirewallClient` object with a recording pipe, so the real
    `FirewallClient.start` writes the plan;
  * per line, `_list_routes` / `list_routes` on that line alone (for line-level diffs), and the
    library-level functions `_ipmatch`, `_maskbits`, `_shl`, `int()`, binary-file line iteration.
Against: `Code/Routes.lean` through `Drivers/C17.lean`.
Oracle (independent of the model): `ipaddress.ip_network(strict=False)` on the destination the
generator wrote vs the tuple advertised; default/0.x/127.x omitted; junk never raises; every
advertised network is in the plan the recording pipe received, before NSLIST/GO, once.
"""
import errno
import io
import ipaddress
import os
import shutil
import struct
import subprocess
import sys
import tempfile
import threading
import time
import zlib

import common
from common import hexb

RULE = ("cases = routing-tool output tables (ip-route and netstat -rn, Linux and BSD forms) of 0..40000 lines built "
        "from line classes: prefix routes for every length 0..32 with and without host bits, all 33 contiguous and "
        "random non-contiguous netmasks, BSD abbreviations a/n a.b/n a.b.c/n a a.b a.b.c, default, "
        "blackhole/unreachable/prohibit, bare host routes, 0.x and 127.x destinations, IPv6 lines, headers, blank "
        "lines of every white-space kind, and malformed lines (non-integer or signed or underscored prefix length, "
        "two slashes, octet > 255, octal-looking octets, non-ASCII bytes, \\x1c-only lines, > 4300 digits); each table is run "
        "through the real server.main up to the queued ROUTES frame and on through the real client handshake, "
        "Mux.handle, onroutes and FirewallClient.start; plus table sizes around the 65535-byte frame limit, "
        "direct malformed ROUTES payloads to the client, and unit streams for _ipmatch/_maskbits/_shl/int()/line "
        "iteration. A case is non-trivial when at least one line was advertised, filtered or skipped for a reason "
        "other than being blank; distinct = distinct canonical input")
MANIFEST = dict(
    level_text=("Machine-checked Lean 4 theorems over a statement-by-statement model of server._ipmatch/_maskbits/_shl/"
                "_route_iproute/_route_netstat/_list_routes/list_routes, the ROUTES packet builder on Mux.send, client "
                "onroutes and the ROUTES section of FirewallClient.start. Proved for all inputs: the mask arithmetic yields "
                "the canonical network for every address and width (C17_mask); _maskbits is the prefix length of all 33 "
                "contiguous netmasks (C17_maskbits); every destination of the ip-route and netstat (Linux and BSD) grammars, "
                "with anything after it (gateway, device, metric), is advertised as (canonical network, prefix length), "
                "default/0.x/127.x omitted (C17_iproute_line, C17_netstat_line, C17_netstat_bsd_line); every ip-route line whose "
                "first word has no '/' (default, blackhole/unreachable/prohibit lines, titles, bare hosts) carries nothing "
                "(C17_iproute_no_slash_omitted, C17_iproute_default_omitted, C17_iproute_host_gap); no byte line makes the loop "
                "raise (C17_skip_junk_full, C17_list_routes_total); list_routes is the in-order list of per-line contributions, "
                "so skipped lines never change what the other lines yield, for every interleaving (C17_list_routes_linewise, "
                "C17_junk_transparent, C17_junk_line_inserted, C17_uninterpretable_contributes_nothing); END TO END "
                "(C17_end_to_end_iproute, C17_end_to_end_netstat): for every table built from the grammars' line forms in any "
                "number and order whose advertisement fits one frame, list_routes yields exactly the specification's networks, "
                "the server queues one ROUTES frame that decodes back to the same message, and the client adds exactly those "
                "networks when the user asked for an IPv4 listener and none otherwise, clears got_routes and starts the "
                "firewall once with the plan (configured includes, these networks as 2,<w>,0,<ip>,0,0, excludes, then "
                "NSLIST..GO); for arbitrary messages the client starts the firewall exactly once and writes every accepted "
                "network before what follows (C17_client_adds); the message is queued iff it fits 65535 bytes (C17_delivery_iff) "
                "and the unbounded statement is refuted (C17_delivery_full_false, C17_end_to_end_size_false). Tied to the code "
                "on every run by a differential run of the real server.main (verbosity 0..2, routing tool in memory and as a "
                "real child process) / client._main with real MultiListener objects / FirewallClient.start on generated tables, "
                "plus an ipaddress oracle."),
    level_note=("Trusted: Lean kernel; axioms propext/Classical.choice/Quot.sound only; the correspondence harness; the "
                "models of CPython int()/str.split/bytes.strip/re.match on the one anchored expression and glibc "
                "inet_aton/inet_ntoa (each with its own correspondence stream); the tool grammars and table line forms of "
                "Spec/Routes.lean (ip route prints the IPv4 table only; an IPv6 row starting with a digit, or a netstat row "
                "with fewer than three columns, is outside the table grammar and covered only by the all-inputs theorems "
                "C17_skip_junk_full / C17_list_routes_linewise and by testing). Not proved, decided by the differential run "
                "and oracle only: which() tool selection and argv, Popen/pipe behaviour (a tool larger than the pipe buffer "
                "is drained), independence of server verbosity, MultiListener.bind leaving v4/v6 set iff asked for, the "
                "transport of the frame between the two Mux objects beyond encode/decode (C07). The 65535-byte bound is a "
                "hypothesis of the delivery theorems: tables whose ROUTES message exceeds one frame are a recorded known "
                "finding; bare ip-route host routes are dropped for the whole grammar (C17_iproute_host_gap), a recorded "
                "known finding on the reading of 'every route printed'. The BSD flags column must not be the word "
                "'default' (hypothesis of C17_netstat_bsd_line). Windows `route PRINT` parsing is outside."),
    technique="Lean 4 proof (bit-level lemmas, grammar-to-tuple theorems, line-wise induction, end-to-end composition) + differential correspondence with the real server/client code + ipaddress oracle",
)
DRIVER_TARGETS = ['SshuttleModel.Code.Routes']
ASSUMPTIONS = [
    "the routing tools print destinations in the grammars of Spec/Routes.lean (iproute2: a.b.c.d/n or a bare host "
    "address, keywords default/blackhole/unreachable/prohibit/...; netstat -rn: Linux dotted destination + Genmask column, "
    "BSD abbreviated networks with the flags in the third column)",
    "which() and Popen behave as the stubs do: the tool's standard output is a byte stream iterated line by line",
    "the tunnel between the two Mux objects is the reliable byte pipe of C07",
    "server and client run CPython 3.12 on glibc (int(), str.split, inet_aton as modelled)",
]
TRUSTED_EXTRA = ["CPython/glibc library models in Code/Routes.lean (int(), str.split(None), bytes.strip, re.match on the "
                 "_ipmatch expression, inet_aton on four decimal parts, inet_ntoa)"]

KEY_JUNK = 'C17:list_routes:uninterpretable-line-raises'
KEY_WRONG = 'C17:list_routes:advertised-route-differs-from-canonical-network'
KEY_BAREHOST = 'C17:iproute:bare-host-route-omitted'
KEY_BIG = 'C17:delivery:routes-message-exceeds-one-frame'
KEY_DELIV = 'C17:delivery:advertised-networks-not-in-plan'
KEY_CLIENT = 'C17:client:onroutes'
KEY_HANG = 'C17:delivery:routes-never-announced'

FIXED_INCLUDE = [(2, '192.0.2.0', 24, 0, 0), (10, '2001:db8::', 32, 80, 90)]
FIXED_EXCLUDE = [(2, '127.0.0.1', 32, 0, 0)]


class _Stop(Exception):
    pass


def _mods():
    import sshuttle.ssnet as ssnet
    import sshuttle.client as client
    import sshuttle.server as server
    import sshuttle.helpers as helpers
    return ssnet, client, server, helpers


# ---- diagnostics level: a dimension of every case.  What is advertised and what reaches the plan must not
# depend on it.  10 + n = level n with a stderr whose write() raises EIO (a forcibly closed terminal).
LEVELS = [0, 0, 3, 0, 2, 0, 13, 1]
CLOCKS_ROTATION = ['none', 'small', 'fwd-hour', 'back-hour', 'slow-2ms']
# exit status of the routing tool, independent of what it printed (negative: killed by that signal)
EXIT_ROTATION = [0, 1, 0, 2, 255, 0, -15]
_case_counter = [0]
_level_shift = [0]


_table_counter = [0]


def next_clock():
    """(time profile, tool exit status) of the next table case: rotations by a per-run counter shifted by the
    seed (never ctx.rng); the periods 5 and 7 (and 8 for the level) are coprime, so all combinations occur."""
    i = _table_counter[0] + _level_shift[0]
    _table_counter[0] += 1
    return CLOCKS_ROTATION[i % len(CLOCKS_ROTATION)], EXIT_ROTATION[i % len(EXIT_ROTATION)]


def next_level():
    """Level of the next case: the rotation indexed by a per-run case counter, shifted by the seed
    (never drawn from ctx.rng, so the random streams do not depend on it)."""
    lv = LEVELS[(_case_counter[0] + _level_shift[0]) % len(LEVELS)]
    _case_counter[0] += 1
    return lv


class EioStderr:
    def write(self, s):
        raise OSError(errno.EIO, 'Input/output error')

    def flush(self):
        raise OSError(errno.EIO, 'Input/output error')


def set_diag(level):
    """sshuttle.helpers.verbose and sys.stderr for a call into the real code; returns what to restore."""
    import sshuttle.helpers as helpers
    old = (helpers.verbose, sys.stderr)
    helpers.verbose = int(level) % 10
    sys.stderr = EioStderr() if int(level) >= 10 else io.StringIO()
    return old


def clear_diag(old):
    import sshuttle.helpers as helpers
    helpers.verbose, sys.stderr = old


def excname(e):
    if isinstance(e, struct.error):
        return 'struct.error'
    return type(e).__name__


# ------------------------------------------------------------------ fakes at the OS boundary

# ---- time: a dimension of every case.  The routing tool's output is delivered under a VIRTUAL clock; what is
# advertised must be the interpretable routes of the tool's COMPLETE output whatever the clock does meanwhile.
CLOCKS = ['none', 'small', 'fwd-hour', 'back-hour', 'slow-2ms']
_real_time = (time.time, time.monotonic, time.sleep)


class VClock:
    """Virtual wall clock + monotonic clock.  `tick(i, n)` is called before output line `i` of `n` is handed out:
    none: nothing; small: 3 ms per line; slow-2ms: 2 ms per line (a long dump: 5000 lines take 10 s);
    fwd-hour / back-hour: the wall clock (not the monotonic one) steps by an hour before the middle line."""

    def __init__(self, profile):
        self.profile = profile
        self.wall = 1700000000.0
        self.mono = 50000.0

    def time(self):
        return self.wall

    def monotonic(self):
        return self.mono

    def sleep(self, secs):
        self.wall += max(0.0, secs)
        self.mono += max(0.0, secs)

    def tick(self, i, n):
        if self.profile == 'small':
            self.sleep(0.003)
        elif self.profile == 'slow-2ms':
            self.sleep(0.002)
        elif self.profile == 'fwd-hour' and i == n // 2:
            self.wall += 3600.0
        elif self.profile == 'back-hour' and i == n // 2:
            self.wall -= 3600.0


def set_clock(profile, modules=()):
    """Install a virtual clock: time.time / time.monotonic / time.sleep on the real `time` module, and every
    global of the modules under test that was bound to one of them (`from time import time`).  Returns the undo list."""
    if not profile or profile == 'none':
        FakePopen.clock = None
        return []
    clk = VClock(profile)
    FakePopen.clock = clk
    undo = []
    repl = dict(zip(_real_time, (clk.time, clk.monotonic, clk.sleep)))
    for name, fn in (('time', clk.time), ('monotonic', clk.monotonic), ('sleep', clk.sleep)):
        undo.append((time, name, getattr(time, name)))
        setattr(time, name, fn)
    for mod in modules:
        for name, val in list(vars(mod).items()):
            for real_fn, fake in repl.items():
                if val is real_fn:
                    undo.append((mod, name, val))
                    setattr(mod, name, fake)
    return undo


def clear_clock(undo):
    for obj, name, val in reversed(undo):
        setattr(obj, name, val)
    FakePopen.clock = None


class PacedOutput:
    """The tool's stdout: hands out the lines of the complete output, ticking the virtual clock before each."""

    def __init__(self, data, clock):
        self.lines = list(io.BytesIO(data))
        self.i = 0
        self.clock = clock

    def __iter__(self):
        return self

    def __next__(self):
        if self.i >= len(self.lines):
            raise StopIteration
        if self.clock is not None:
            self.clock.tick(self.i, len(self.lines))
        ln = self.lines[self.i]
        self.i += 1
        return ln

    def readline(self, *a):
        try:
            return next(self)
        except StopIteration:
            return b''

    def read(self, *a):
        return b''.join(self)

    def close(self):
        pass


class FakePopen:
    """`ssubprocess.Popen(argv, stdout=PIPE, env=...)`: a tool run with the given complete output, delivered line by
    line under the case's virtual clock."""
    output = b''
    calls = []
    clock = None
    rc = 0          # what wait() reports, whatever was printed

    def __init__(self, argv, stdout=None, env=None, **kw):
        FakePopen.calls.append(list(argv))
        self.stdout = PacedOutput(FakePopen.output, FakePopen.clock)
        self.returncode = None

    def wait(self, *a, **k):
        if self.returncode is None:
            self.returncode = FakePopen.rc
        return self.returncode

    def poll(self):
        return self.returncode

    def kill(self):
        self.returncode = -9

    terminate = kill


class DummyFile:
    def __init__(self, fd=0, mode='r'):
        self.fd = fd
        self.written = []

    def fileno(self):
        return 1000 + self.fd

    def write(self, b):
        self.written.append(bytes(b))
        return len(b)

    def read(self, n=-1):
        return b''

    def flush(self):
        pass


class FakeIo:
    """stands in for the `io` module inside server.py (only FileIO is used there)."""

    def __init__(self):
        self.files = []

    def FileIO(self, fd, mode='r'):
        f = DummyFile(fd, mode)
        self.files.append(f)
        return f


class FakeStdout:
    def __init__(self):
        self.data = ''

    def write(self, s):
        self.data += s

    def flush(self):
        pass


class Patches:
    """Patch attributes, restore in reverse order."""

    def __init__(self):
        self.saved = []

    def set(self, obj, name, val):
        self.saved.append((obj, name, getattr(obj, name)))
        setattr(obj, name, val)

    def restore(self):
        for obj, name, val in reversed(self.saved):
            setattr(obj, name, val)
        self.saved = []


TOOLS = {'i': ('ip',), 'n': ('netstat',), 'x': (), 'b': ('ip', 'netstat')}   # which() finds these
ARGV = {'i': ['ip', 'route'], 'b': ['ip', 'route'], 'n': ['netstat', '-rn']}
MODEL_TOOL = {'i': 'i', 'n': 'n', 'x': 'x', 'b': 'i'}


REAL_POPEN = subprocess.Popen          # taken before anything is patched
CAT = shutil.which('cat')
SH = shutil.which('sh') if shutil.which('cat') else None
HANG_TIMEOUT = 8.0                     # seconds a real-process server.main may take before it counts as hung


class RealToolPopen:
    """`ssubprocess.Popen(argv, stdout=PIPE, env=...)` answered by a REAL child process that writes the
    table to a REAL pipe (so the OS pipe buffer, blocking writes and wait() behave as in production)."""
    path = None
    children = []

    def __new__(cls, argv, stdout=None, env=None, **kw):
        FakePopen.calls.append(list(argv))
        rc = FakePopen.rc
        if rc != 0 and SH:
            cmd = [SH, '-c', 'cat "$1"; ' + (('kill -%d $$' % -rc) if rc < 0 else ('exit %d' % rc)), 'sh', RealToolPopen.path]
        elif CAT:
            cmd = [CAT, RealToolPopen.path]
        else:
            cmd = [sys.executable, '-c', 'import sys,shutil; shutil.copyfileobj(open(sys.argv[1],"rb"), sys.stdout.buffer)',
                   RealToolPopen.path]
        child = REAL_POPEN(cmd, stdout=stdout, stdin=subprocess.DEVNULL, close_fds=True)
        RealToolPopen.children.append(child)
        return child


def reap_children():
    """Kill and reap every tool process still around; close our ends of their pipes."""
    killed = 0
    for ch in RealToolPopen.children:
        if ch.poll() is None:
            killed += 1
            try:
                ch.kill()
            except OSError:
                pass
        try:
            ch.wait(timeout=10)
        except Exception:  # noqa
            pass
    return killed


def close_children():
    for ch in RealToolPopen.children:
        try:
            if ch.stdout:
                ch.stdout.close()
        except Exception:  # noqa
            pass
    RealToolPopen.children = []


def run_server(tool, output, verbose=0, real=False, clock='none', rc=0):
    """The real `server.main(auto_nets=True)` up to and including `mux.send(0, CMD_ROUTES, …)`, with the
    server-side verbosity `verbose` (what `sshuttle -v` forwards).  `real=False`: the routing tool is an
    in-memory Popen stand-in; `real=True`: it is a child process writing to a pipe, `server.main` runs in a
    thread and a run longer than HANG_TIMEOUT is reported as ('hang', seconds).
    Returns (status, wire): status = ('sent',) | ('raise', name) | ('hang', secs)."""
    ssnet, client, server, helpers = _mods()
    p = Patches()
    muxes = []

    class RecMux(ssnet.Mux):
        def __init__(self, r, w):
            muxes.append(self)
            ssnet.Mux.__init__(self, r, w)

    class StopHostwatch:
        def __init__(self):
            raise _Stop()

    fio = FakeIo()
    out = FakeStdout()
    FakePopen.output = output
    FakePopen.calls = []
    FakePopen.rc = int(rc)
    old_stdout, old_stderr = sys.stdout, sys.stderr
    old_prefix = helpers.logprefix
    tmp = None
    try:
        if real:
            fd, tmp = tempfile.mkstemp(prefix='c17-table-')
            with os.fdopen(fd, 'wb') as f:
                f.write(output)
            RealToolPopen.path = tmp
            RealToolPopen.children = []
        p.set(ssnet, 'set_non_blocking_io', lambda fd: None)
        p.set(server.ssubprocess, 'Popen', RealToolPopen if real else FakePopen)
        p.set(server, 'which', lambda name, *a: ('/sbin/' + name) if name in TOOLS[tool] else None)
        p.set(server, 'io', fio)
        p.set(server, 'Mux', RecMux)
        p.set(server, 'Hostwatch', StopHostwatch)
        sys.stdout = out
        set_diag(verbose)
        clock_undo = set_clock(None if real else clock, (server, helpers, ssnet))
        box = {}

        def body():
            try:
                server.main(True, ssnet.LATENCY_BUFFER_SIZE, False, None, True)
                box['status'] = ('raise', 'returned')
            except _Stop:
                box['status'] = ('sent',)
            except BaseException as e:  # noqa  (AssertionError, ValueError, SystemExit …: the server process ends)
                box['status'] = ('raise', excname(e))
        try:
            if real:
                t0 = time.time()
                th = threading.Thread(target=body, daemon=True)
                th.start()
                th.join(HANG_TIMEOUT)
                hung = th.is_alive()
                if hung:
                    reap_children()          # unblocks a server stuck in wait()/read()
                    th.join(20)
                    box['status'] = ('hang', '%.0f' % (time.time() - t0)) if not th.is_alive() else ('hang', 'thread-stuck')
            else:
                body()
        finally:
            clear_clock(clock_undo)
            helpers.verbose = 0
            sys.stdout, sys.stderr = old_stdout, old_stderr
        status = box.get('status', ('raise', 'no-status'))
        wire = out.data.encode('latin-1')
        if muxes and status[0] != 'hang':
            m = muxes[0]
            guard = 0
            while m.outbuf and guard < 1000:
                guard += 1
                m.flush()
            wire += b''.join(m.wfile.written)
        return status, wire
    finally:
        p.restore()
        FakePopen.rc = 0
        helpers.verbose = 0
        helpers.logprefix = old_prefix
        sys.stdout, sys.stderr = old_stdout, old_stderr
        if real:
            reap_children()
            close_children()
            if tmp:
                try:
                    os.unlink(tmp)
                except OSError:
                    pass


def line_real(tool, line, level=0, clock='none', rc=0):
    """`_list_routes` and `list_routes` of the real code on a one-line tool output."""
    ssnet, client, server, helpers = _mods()
    p = Patches()
    old_stderr = sys.stderr
    clock_undo = []
    try:
        p.set(server.ssubprocess, 'Popen', FakePopen)
        p.set(server, 'which', lambda name, *a: ('/sbin/' + name) if name in TOOLS[tool] else None)
        set_diag(level)
        clock_undo = set_clock(clock, (server, helpers))
        FakePopen.rc = int(rc)
        FakePopen.output = line
        try:
            kept = list(server.list_routes())
        except Exception as e:  # noqa
            return 'raise ' + excname(e)
        if kept:
            return 'route %d,%s,%d' % tuple(kept[0][:3])
        if tool == 'x':
            return 'skip'
        FakePopen.output = line
        extractor = server._route_iproute if tool in 'ib' else server._route_netstat
        try:
            raw = server._list_routes(['x'], extractor)        # internal: only (family, ip, width) is looked at
            if raw:
                return 'filt %d,%s,%d' % tuple(raw[0][:3])
        except Exception:  # noqa  (internal shape changed: list_routes above already said nothing is advertised)
            pass
        return 'skip'
    finally:
        clear_clock(clock_undo)
        FakePopen.rc = 0
        p.restore()
        helpers.verbose = 0
        sys.stderr = old_stderr


class RawReader:
    """Unbuffered socket file: read(n) returns at most the next segment."""

    def __init__(self, chunks):
        self.chunks = [bytes(c) for c in chunks if c]

    def read(self, n=-1):
        if not self.chunks:
            return b''
        c = self.chunks[0]
        out, rest = c[:n], c[n:]
        if rest:
            self.chunks[0] = rest
        else:
            self.chunks.pop(0)
        return out

    def fileno(self):
        return 1000


class FakeProc:
    pid = 4242

    def __init__(self):
        self.polls = 0

    def poll(self):
        self.polls += 1
        if self.polls > 1:
            raise _Stop()
        return None


class FakeSock:
    """`socket.socket(family, type, proto)` as MultiListener uses it: records bind/listen, never fails."""

    def __init__(self, family=None, kind=None, proto=0, *a):
        self.family = family
        self.kind = kind
        self.addr = None
        self.backlog = None
        self.opts = []

    def bind(self, addr):
        self.addr = addr

    def listen(self, backlog):
        self.backlog = backlog

    def setsockopt(self, *a):
        self.opts.append(a)

    def getsockname(self):
        return self.addr

    def fileno(self):
        return 2000 + int(self.family or 0)

    def close(self):
        pass


class SocketModuleProxy:
    """stands in for the `socket` module inside client.py while a listener is bound:
    everything is the real module's except the `socket` class."""

    def __init__(self, real):
        self._real = real
        self.socket = FakeSock

    def __getattr__(self, name):
        return getattr(self._real, name)


# listener configurations the methods use (client.main: '127.0.0.1'/'::1' with loopback_proxy_port, else
# '0.0.0.0'/'::'; a family the user did not ask for gets None), same port for both families
LISTEN_ADDRS = {'loop': (('::1', 12300), ('127.0.0.1', 12300)), 'wild': (('::', 12300), ('0.0.0.0', 12300))}


def make_listener(client, v4, v6, listen):
    """A REAL `client.MultiListener`, bound and listening as `client.main` does it, on fake sockets.
    `v4`/`v6`: the user asked for a listener of that family."""
    a6, a4 = LISTEN_ADDRS[listen]
    p = Patches()
    try:
        p.set(client, 'socket', SocketModuleProxy(client.socket))
        ml = client.MultiListener()
        ml.bind(a6 if v6 else None, a4 if v4 else None)
        ml.listen(10)
        ml.print_listening("TCP redirector")
    finally:
        p.restore()
    return ml


class RecPipe:
    """The firewall helper's pipe as the client sees it: records writes, answers STARTED."""

    def __init__(self):
        self.writes = []
        self.flushes = 0

    def write(self, b):
        self.writes.append(bytes(b))
        return len(b)

    def flush(self):
        self.flushes += 1

    def readline(self):
        return b'STARTED\n'


class FwProc:
    def poll(self):
        return None


class ClientRun:
    def __init__(self):
        self.error = None      # exception name raised out of Mux.handle / _main
        self.starts = 0
        self.plan = []         # writes of the last start(), up to and including NSLIST
        self.all_writes = []
        self.auto_nets = []
        self.handler = None

    def show(self):
        if self.error:
            return 'raise ' + self.error
        return 'nets=%d starts=%d lines=%d adler=%d handler=%d' % (
            len(self.auto_nets), self.starts, len(self.plan), zlib.adler32(b''.join(self.plan)), 1 if self.handler else 0)


def run_client(flags, wire_chunks, second_payload=None, listen='loop', incl=None, excl=None, level=0):
    """The real `client._main` over `wire_chunks` (sync header + frames): handshake inside `_main`,
    then the Mux that `_main` created handles the remaining bytes (PING, ROUTES) with the real `onroutes`
    and the real `FirewallClient.start` on a recording pipe."""
    ssnet, client, server, helpers = _mods()
    from sshuttle import ssh
    v4, v6, auton = flags[0] == '1', flags[1] == '1', flags[2] == '1'
    res = ClientRun()
    p = Patches()
    muxes = []

    class RecMux(ssnet.Mux):
        def __init__(self, r, w):
            muxes.append(self)
            ssnet.Mux.__init__(self, r, w)

    fw = object.__new__(client.FirewallClient)
    fw.auto_nets = []
    fw.method = None
    fw.argv = ['fw']
    fw.p = FwProc()
    fw.pfile = RecPipe()
    fw.setup([tuple(x) for x in (FIXED_INCLUDE if incl is None else incl)],
             [tuple(x) for x in (FIXED_EXCLUDE if excl is None else excl)], [], 0, 12300, 0, 0, False, None, None, '0x01')
    real_start = fw.start
    marks = []

    def counting_start():
        res.starts += 1
        marks.append(len(fw.pfile.writes))
        return real_start()
    fw.start = counting_start

    reader = RawReader(wire_chunks)
    proc = FakeProc()
    old_stderr = sys.stderr
    old_prefix = helpers.logprefix
    import os
    old_notify = os.environ.pop('NOTIFY_SOCKET', None)
    try:
        p.set(ssnet, 'set_non_blocking_io', lambda fd: None)
        p.set(ssh, 'connect', lambda *a, **k: (proc, reader, DummyFile(1)))
        p.set(client, 'Mux', RecMux)
        set_diag(level)
        try:
            client._main(make_listener(client, v4, v6, listen), None, fw, None, 'host', None, True, 32768,
                         None, None, False, auton, False, None, False, None)
            res.error = 'returned'
        except _Stop:
            pass
        except Exception as e:  # noqa
            res.error = 'main:' + excname(e)
        if not res.error:
            mux = muxes[0]
            try:
                guard = 0
                while reader.chunks and guard < 100000:
                    guard += 1
                    mux.handle()
                if second_payload is not None:
                    mux.got_packet(0, ssnet.CMD_ROUTES, second_payload)
            except Exception as e:  # noqa
                res.error = excname(e)
            res.handler = mux.got_routes
    finally:
        p.restore()
        helpers.verbose = 0
        sys.stderr = old_stderr
        helpers.logprefix = old_prefix
        if old_notify is not None:
            os.environ['NOTIFY_SOCKET'] = old_notify
    res.auto_nets = list(fw.auto_nets)
    res.all_writes = list(fw.pfile.writes)
    if marks:
        w = fw.pfile.writes[marks[-1]:]
        if b'NSLIST\n' in w:
            w = w[:w.index(b'NSLIST\n') + 1]
        res.plan = w
    return res


def frame(ssnet, payload):
    return struct.pack('!ccHHH', b'S', b'S', 0, ssnet.CMD_ROUTES, len(payload)) + payload


SYNC = b'\0\0SSHUTTLE0001'


# ------------------------------------------------------------------ generators

GW = [b'0.0.0.0', b'192.168.1.1', b'10.0.0.1', b'link#4', b'*']
IP_REST = [b'dev eth0 proto kernel scope link src 192.168.1.7', b'via 10.0.0.1 dev eth0', b'dev tun0 scope link',
           b'via 192.168.1.1 dev wlan0 proto static metric 600', b'dev docker0 proto kernel scope link src 172.17.0.1 linkdown',
           b'', b'dev lo',
           b'proto static metric 100', b'via 10.0.0.1', b'via 10.0.0.1 proto static metric 20', b'proto static',
           b'scope link', b'via 10.0.0.1 onlink', b'proto bird metric 32', b'nhid 12 proto static metric 100',
           b'via inet6 fe80::1 dev eth0', b'dev eth0 proto dhcp scope link src 10.0.0.5 metric 100 mtu 1400 advmss 1360']
NEXTHOPS = [b'\tnexthop via 10.0.0.1 dev eth0 weight 1\n', b'\tnexthop via 10.0.0.2 dev eth1 weight 1\n',
            b'\tnexthop dev tun0 weight 2\n']
NS_REST = [b'U 0 0 0 eth0', b'UG 0 0 0 wlan0', b'UGH 100 0 0 tun0', b'U']
BSD_FLAGS = [b'UGSc', b'UCS', b'UH', b'UHLWIi', b'UCSI', b'UGScI']
BSD_REST = [b'en0', b'lo0', b'utun3 1500', b'17 0 en0']


def rand_addr(rng):
    r = rng.random()
    if r < 0.15:
        return rng.choice([0, 0xffffffff, 0x7f000001, 0x7f000000, 0x00ffffff, 0x01000000, 0x7effffff, 0x80000000,
                           0xc0a80100, 0xa9fe0000, 0xe0000000, 0x0a000000])
    if r < 0.3:
        return rng.getrandbits(8) << 24 | rng.getrandbits(24)
    if r < 0.4:
        return rng.choice([0, 127]) << 24 | rng.getrandbits(24)
    return rng.getrandbits(32)


def dotted(a):
    return b'%d.%d.%d.%d' % (a >> 24, (a >> 16) & 255, (a >> 8) & 255, a & 255)


def sep(rng):
    return rng.choice([b' ', b' ', b'  ', b'\t', b'     ', b' \t '])


def nl(rng):
    return rng.choice([b'\n'] * 8 + [b'\r\n', b' \n'])


def net_of(a, n):
    return a & ((0xffffffff << (32 - n)) & 0xffffffff)


def iproute_line(rng, n=None):
    """(line, intent). intent: ('route', padded_addr_text, n) | ('omit',) | ('lenient',) | ('barehost', addr_text)"""
    r = rng.random()
    if r < 0.55:
        n = rng.randrange(0, 33) if n is None else n
        a = rand_addr(rng)
        if rng.random() < 0.5:
            a = net_of(a, n)
        pre = b''
        if rng.random() < 0.04:
            pre = rng.choice([b' ', b'\t', b'\x1c'])        # leading white space (str sense)
        line = pre + dotted(a) + b'/%d' % n + (sep(rng) + rng.choice(IP_REST)).rstrip() + nl(rng)
        return line, ('route', dotted(a).decode(), n)
    if r < 0.62:
        return b'default' + sep(rng) + b'via 192.168.1.1 dev wlan0  proto static' + nl(rng), ('omit',)
    if r < 0.68:
        kw = rng.choice([b'blackhole', b'unreachable', b'prohibit', b'throw', b'broadcast', b'local', b'multicast',
                         b'unicast', b'anycast', b'nat'])
        tail = rng.choice([b' proto static', b'', b' dev eth0 proto kernel scope link', b' via 10.0.0.1 dev eth0', b' metric 1024'])
        return kw + b' ' + dotted(rand_addr(rng)) + rng.choice([b'', b'/%d' % rng.randrange(0, 33)]) + tail + nl(rng), ('omit',)
    if r < 0.74:
        a = rand_addr(rng)
        return dotted(a) + sep(rng) + rng.choice(IP_REST[:5]) + nl(rng), ('barehost', dotted(a).decode())
    if r < 0.80:
        return rng.choice([b'fe80::/64 dev eth0 proto kernel metric 256 pref medium', b'::1 dev lo proto kernel metric 256',
                           b'2001:db8::/32 via fe80::1 dev eth0', b'default via fe80::1 dev eth0 metric 1024']) + nl(rng), ('omit',)
    if r < 0.86:
        return rng.choice([b'\n', b'   \n', b'\t\n', b'\r\n', b'\x0b\x0c\n', b' ']), ('omit',)
    return junk_line(rng, 'i')


def with_nexthops(pairs):
    """iproute2 prints an ECMP / multipath route as a head line `a.b.c.d/n proto … metric …` (no `dev`, no `via`)
    followed by indented `nexthop …` lines; add those after every such head."""
    out = []
    for k, (line, intent) in enumerate(pairs):
        out.append((line, intent))
        if intent[0] == 'route' and b' dev ' not in line and b' via ' not in line and b'proto' in line:
            for j in range(1 + k % 3):
                out.append((NEXTHOPS[(k + j) % len(NEXTHOPS)], ('omit',)))
    return out


def junk_line(rng, tool):
    a = dotted(rand_addr(rng))
    r = rng.random()
    if r < 0.45:
        # the F17 classes: extractor raises on the unrepaired code
        t = rng.choice([a + b'/8x', a + b'/24/1', b'a/b/c', a + b'/', b'/24', b'/', b'//', a + b'/2 4'.replace(b' ', b'.'),
                        b'300.1.1.0/24', b'1.2.3.256/24', b'1.2.3.4.5/24x', b'08.0.0.0/8', b'1.2.3.09/24',
                        b'99999999999999999999.0.0.0/8', b'10.0.0.0/\xc2\xb2', b'caf\xc3\xa9 route', b'\xff\xfe',
                        b'10.0.0.0/8 dev \xe9th0', b'\x1c', b'\x1d \x1f', a + b'/0x10', a + b'/1__6', a + b'/_8', a + b'/8_',
                        a + b'/+', a + b'/-', a + b'/+-8', a + b'/8.0', a + b'/e'])
        if tool == 'n':
            t = rng.choice([t + b' 0.0.0.0 255.0.0.0 U', a + b' 0.0.0.0 255.256.0.0 U', a + b' gw 08.0.0.0 U',
                            b'1.2.3.999 0.0.0.0 255.0.0.0 U', a + b'/' + b'9' * rng.choice([5, 40]) + b'x gw UGS',
                            b'\xff\xfe\xfd gw 255.0.0.0', a + b' gw 255.0.0.0 \xe9', b'09 link#1 UCS en0',
                            b'1.2.3.4/5/6 gw 255.0.0.0 U'])
        return t + nl(rng), ('omit',)
    if r < 0.7:
        # accepted leniently by int()/inet_aton: outside the tools' grammar, only "no exception, canonical" is demanded
        t = rng.choice([a + b'/+8', a + b'/-8', a + b'/1_6', a + b'/008', a + b'/40', a + b'/99999', b'010.0.0.0/8',
                        b'0377.1.2.3/16', b'1.2.3/24', b'10.1/16', b'10/8', b'1.2.3/30', a + b'/-0',
                        b'00.0.0.0/0', a + b'/' + b'0' * 30 + b'24', a + b'/-64'])
        if tool == 'n':
            t = rng.choice([a + b' gw 0377.0.0.0 U', a + b'/99999 gw 255.255.0.0 U', b'010.1.2.3 gw 255.255.255.0 U',
                            b'10.1/24 link#4 UCS', b'10/24 link#4 UCS', b'1.2.3/30 link#4 UCS',
                            a + b' gw 255.0.255.0 U', a + b' gw 0.255.0.0 U', a + b' gw 1 U', a + b' gw 255.255 U',
                            a + b'/8 gw 255.255.0.0 U', a + b' gw 255.255.0.0/8 U', a + b' gw default U'])
        return t + sep(rng) + b'dev x' + nl(rng), ('lenient',)
    if r < 0.85:
        n = rng.randrange(1, 30)
        return bytes(rng.choice(b'abcxyz0123456789./:- \t_#%') for _ in range(n)) + b'\n', ('lenient',)
    hdr = [b'Kernel IP routing table', b'Destination     Gateway         Genmask         Flags   MSS Window  irtt Iface',
           b'Routing tables', b'Internet:', b'Internet6:', b'Destination        Gateway            Flags        Netif Expire',
           b'RTNETLINK answers: Operation not permitted', b'Dump terminated']
    return rng.choice(hdr) + nl(rng), ('omit',)


def contiguous(n):
    return (0xffffffff << (32 - n)) & 0xffffffff


def netstat_line(rng, n=None):
    r = rng.random()
    if r < 0.35:
        # Linux: destination gateway genmask flags …
        n = rng.randrange(0, 33) if n is None else n
        a = rand_addr(rng)
        if rng.random() < 0.6:
            a = net_of(a, n)
        line = dotted(a) + sep(rng) + rng.choice(GW[:3]) + sep(rng) + dotted(contiguous(n)) + sep(rng) + rng.choice(NS_REST) + nl(rng)
        return line, ('route', dotted(a).decode(), n)
    if r < 0.42:
        a = rand_addr(rng)
        m = rng.getrandbits(32)
        line = dotted(a) + sep(rng) + b'0.0.0.0' + sep(rng) + dotted(m) + sep(rng) + b'U 0 0 0 eth0' + nl(rng)
        nn = bin(m)[2:].zfill(32)
        if '01' not in nn:
            return line, ('route', dotted(a).decode(), nn.count('1'))
        return line, ('lenient',)
    if r < 0.68:
        # BSD: abbreviated network [/n] gateway flags …
        k = rng.randrange(1, 5)
        a = rand_addr(rng)
        octs = [a >> 24, (a >> 16) & 255, (a >> 8) & 255, a & 255][:k]
        text = b'.'.join(b'%d' % o for o in octs)
        padded = '.'.join([str(o) for o in octs] + ['0'] * (4 - k))
        if rng.random() < 0.5:
            n = rng.randrange(0, 8 * k + 1)
            text += b'/%d' % n
        else:
            n = 8 * k
        line = text + sep(rng) + rng.choice(GW) + sep(rng) + rng.choice(BSD_FLAGS) + sep(rng) + rng.choice(BSD_REST) + nl(rng)
        return line, ('route', padded, n)
    if r < 0.74:
        return b'default' + sep(rng) + b'192.168.1.1' + sep(rng) + rng.choice([b'UGSc', b'UGScI']) + sep(rng) + b'en0' + nl(rng), ('omit',)
    if r < 0.78:
        return b'0.0.0.0' + sep(rng) + b'192.168.1.1' + sep(rng) + b'0.0.0.0' + sep(rng) + b'UG 0 0 0 wlan0' + nl(rng), ('omit',)
    if r < 0.84:
        return rng.choice([b'fe80::%lo0/64 fe80::1%lo0 UcI lo0', b'::1 ::1 UHL lo0', b'ff02::/16 ::1 UmCI lo0',
                           b'default fe80::%utun0 UGcI utun0', b'10.0.0.1', b'10.0.0.0 0.0.0.0', b'one two']) + nl(rng), ('omit',)
    if r < 0.88:
        return rng.choice([b'\n', b'   \n', b'\t\n', b'\r\n']), ('omit',)
    return junk_line(rng, 'n')


def expected_of(intent):
    """The property on the generator's own knowledge of the line: advertised (ip, width) or None."""
    if intent[0] == 'route' or intent[0] == 'barehost':
        n = intent[2] if intent[0] == 'route' else 32
        net = ipaddress.ip_network('%s/%d' % (intent[1], n), strict=False)
        first = net.network_address.packed[0]
        if first in (0, 127):
            return None
        return (str(net.network_address), net.prefixlen)
    return None


def sized_table(target):
    """ip-route table whose ROUTES payload is exactly `target` bytes (each route 13..21 bytes as '2,<ip>,32\\n')."""
    lines = []
    exp = []
    sizes = []
    left = target
    while left > 42:
        sizes.append(13)
        left -= 13
    if left > 21:
        sizes += [left // 2, left - left // 2]
    else:
        sizes.append(left)
    assert all(13 <= x <= 21 for x in sizes), sizes
    i = 0
    for size in sizes:
        iplen = size - 6
        # an address text of exactly iplen characters, first octet in 1..126 / 128..223
        i += 1
        widths = {7: (1, 1, 1, 1), 8: (2, 1, 1, 1), 9: (2, 2, 1, 1), 10: (2, 2, 2, 1), 11: (2, 2, 2, 2), 12: (3, 2, 2, 2),
                  13: (3, 3, 2, 2), 14: (3, 3, 3, 2), 15: (3, 3, 3, 3)}[iplen]
        octs = []
        for j, w in enumerate(widths):
            lo, hi = {1: (1, 9), 2: (10, 99), 3: (100, 223 if j == 0 else 255)}[w]
            v = lo + (i * (7 + 2 * j) + j * 13) % (hi - lo + 1)
            if j == 0 and v == 127:
                v = 128
            octs.append(v)
        ip = '.'.join(str(o) for o in octs)
        assert len(ip) == iplen, (ip, iplen)
        lines.append(('%s/32 dev eth0 scope link\n' % ip).encode())
        exp.append((ip, 32))
    assert sum(len('2,%s,%d\n' % e) for e in exp) == target
    return lines, exp


def minimal_table(nroutes):
    """`nroutes` routes of the shortest possible advertisement ('2,a.0.0.0,8\\n' = 12 bytes)."""
    lines, exp = [], []
    for i in range(nroutes):
        a = 1 + (i % 9)
        lines.append(b'%d.0.0.0/8 dev eth%d\n' % (a, i % 10))
        exp.append(('%d.0.0.0' % a, 8))
    return lines, exp


# ------------------------------------------------------------------ cases

def big_table(nroutes):
    """`nroutes` verbose iproute2 lines (~70 bytes each: 3000 routes = ~210 kB of tool output, far more than a
    pipe buffer) whose advertisement (~15 bytes each) still fits one frame up to ~4300 routes."""
    lines, intents = [b'default via 192.168.1.1 dev wlan0 proto dhcp metric 600\n'], [('omit',)]
    for i in range(nroutes):
        a, b = divmod(i, 250)
        c = (i * 7) % 256
        lines.append(b'10.%d.%d.%d/24 dev eth%d proto kernel scope link src 10.%d.%d.1 metric %d\n'
                     % (a + 1, b, c, i % 4, a + 1, b, 100 + i % 5))
        intents.append(('route', '10.%d.%d.%d' % (a + 1, b, c), 24))
        if i % 50 == 0:
            lines.append(b'unreachable 10.250.%d.0/24 metric 1024\n' % (i // 50))
            intents.append(('omit',))
    lines.append(b'127.0.0.0/8 dev lo scope host\n')
    intents.append(('route', '127.0.0.0', 8))
    return lines, intents


PORT_CHOICES = [(0, 0), (443, 443), (8000, 8100), (1, 65535), (22, 22)]


def user_plan(rng, exp):
    """The user's own subnets, built to coincide with what the server is going to advertise: the same
    address/width as an advertised route with all ports, one port or a port range; the same address with a
    neighbouring width; advertised routes given as excludes; next to unrelated subnets."""
    incl, excl = [], []
    if rng.random() < 0.5:
        incl.append(FIXED_INCLUDE[rng.randrange(len(FIXED_INCLUDE))])
    for (ip, w) in rng.sample(exp, min(len(exp), rng.choice([1, 1, 2, 3]))):
        r = rng.random()
        if r < 0.7:
            fp, lp = rng.choice(PORT_CHOICES)
            incl.append((2, ip, w, fp, lp))
            if rng.random() < 0.2:
                incl.append((2, ip, w) + rng.choice(PORT_CHOICES))       # the same network twice, other ports
        elif r < 0.85:
            incl.append((2, ip, max(0, min(32, w + rng.choice([-1, 1]))), 0, 0))
        else:
            excl.append((2, ip, w) + rng.choice([(0, 0), (22, 22)]))
    if rng.random() < 0.6:
        excl.append(FIXED_EXCLUDE[0])
    rng.shuffle(incl)
    return incl, excl


def plan_class(incl, excl, exp):
    adv = set(exp)
    inc_hit = [x for x in incl if (x[1], x[2]) in adv and x[0] == 2]
    exc_hit = [x for x in excl if (x[1], x[2]) in adv and x[0] == 2]
    if not inc_hit and not exc_hit:
        return 'unrelated'
    out = []
    if any((x[3], x[4]) == (0, 0) for x in inc_hit):
        out.append('include=route,all-ports')
    if any((x[3], x[4]) != (0, 0) for x in inc_hit):
        out.append('include=route,ports')
    if exc_hit:
        out.append('exclude=route')
    return '+'.join(out)


def plan_spec(incl, excl):
    def enc(xs):
        return ';'.join('%d/%s/%d/%d/%d' % tuple(x) for x in xs) or '-'
    return 'I:%s X:%s' % (enc(incl), enc(excl))


class CaseLog:
    def __init__(self, kind):
        self.kind = kind
        self.ins = []
        self.outs = []
        self.nontrivial = False

    def add(self, i, o):
        self.ins.append(i)
        self.outs.append(o)


def split_lines(output):
    return list(io.BytesIO(output))


def table_case(ctx, tool, lines, intents, flags, perline=True, label='table', verbose=None, real=False, regen=None,
               listen=None, plan=None, clock=None, rc=None):
    """One routing table end to end.  `intents[i]` belongs to `lines[i]`.  `verbose`: server-side verbosity;
    `real`: the routing tool is a real child process on a real pipe; `regen`: how replay rebuilds a big table."""
    ssnet, client, server, helpers = _mods()
    level = next_level()                     # diagnostics level of this case (rotation), unless directed
    if verbose is None:
        verbose = level
    ctx.hist('level:%d' % verbose)
    rot, rot_rc = next_clock()               # how the clock moves while the tool's output is read; the tool's exit status
    if clock is None:
        clock = rot
    if rc is None:
        rc = rot_rc
    ctx.hist('tool-exit:%d' % rc)
    if real:
        clock = 'none'                       # a real child process runs on the real clock
    ctx.hist('clock:' + clock)
    output = b''.join(lines)
    log = CaseLog(label)
    log.add('begin ' + MODEL_TOOL[tool], 'ok')
    raised_line = None
    if perline:
        for ln, it in zip(lines, intents):
            out = line_real(tool, ln, verbose, clock, rc)
            log.add('l ' + hexb(ln), out)
            ctx.count()
            cls = out.split()[0]
            ctx.hist('%s:%s:%s' % (tool, it[0], cls))
            if cls != 'skip' or ln.strip():
                log.nontrivial = True
            line_oracle(ctx, tool, ln, it, out, verbose, clock, rc)
            if cls == 'raise':
                raised_line = ln
                break
    else:
        for ln in lines:
            log.ins.append('q ' + hexb(ln))
    status, wire = run_server(tool, output, verbose=verbose, real=real, clock=clock, rc=rc)
    ctx.hist('server:verbose=%d:%s' % (verbose, 'real-process' if real else 'in-memory'))
    if FakePopen.calls[:1] != ([ARGV[tool]] if tool != 'x' else []):
        ctx.violation('C17:list_routes:wrong-tool', case=dict(stream='tool', tool=tool), expected='argv %r' % ARGV.get(tool),
                      observed='Popen calls %r' % FakePopen.calls[:3], kind='input')
    exp = [e for e in (expected_of(it) for it in intents) if e is not None] if tool != 'x' else []
    strict = all(it[0] != 'lenient' for it in intents)
    known_gap = [expected_of(it) for it in intents if it[0] == 'barehost' and expected_of(it)]
    if listen is None:
        listen = ctx.rng.choice(['loop', 'wild'])
    # the user's own subnets (command line): fixed ones, or ones that coincide with what the server advertises
    if plan is None:
        plan = user_plan(ctx.rng, exp) if (exp and ctx.rng.random() < 0.4) else (FIXED_INCLUDE, FIXED_EXCLUDE)
    incl, excl = [list(x) for x in plan[0]], [list(x) for x in plan[1]]
    ctx.hist('user-plan:' + plan_class(incl, excl, exp))
    end_cmd = 'end %s %s' % (flags, plan_spec(incl, excl))
    ctx.hist('listener:%s:v4=%s,v6=%s' % (listen, flags[0], flags[1]))
    tcase = dict(stream='table', tool=tool, flags=flags, listen=listen, verbose=verbose, clock=clock, exit=rc, real=real, regen=regen,
                 incl=incl, excl=excl,
                 table=None if regen else hexb(output), strict=strict,
                 expect=None if regen else [list(e) for e in exp], gap=[list(e) for e in known_gap])
    if status[0] == 'hang':
        log.add(end_cmd, 'pkt hang')
        log.ins.append(None)
        log.outs.append('client -')
        ctx.hist('delivery:hang')
        ctx.violation(KEY_HANG, case=tcase,
                      expected='the ROUTES message is sent and the firewall is started with the %d networks '
                               '(%d bytes of tool output through a real pipe)' % (len(exp), len(output)),
                      observed='server.main had not reached the ROUTES message after %.0f s with the routing tool as a real child '
                               'process (it returned only after the tool was killed, %s s): the advertisement is never sent'
                               % (HANG_TIMEOUT, status[1]), kind='input')
    elif status[0] == 'sent':
        assert wire.startswith(SYNC)
        # frames on the wire: PING then ROUTES
        body = wire[len(SYNC):]
        frames = []
        pos = 0
        while pos < len(body):
            s1, s2, ch, cmd, ln_ = struct.unpack('!ccHHH', body[pos:pos + 8])
            frames.append((ch, cmd, body[pos + 8:pos + 8 + ln_]))
            pos += 8 + ln_
        routes_frames = [f for f in frames if f[1] == ssnet.CMD_ROUTES]
        payload = routes_frames[0][2] if routes_frames else b''
        nroutes = payload.count(b'\n')
        head = 'pkt routes=%d len=%d adler=%d sent frame=%d' % (nroutes, len(payload), zlib.adler32(payload), len(payload) + 8)
        # cut the wire at random places: the client's reads are segments
        cuts = sorted(set(ctx.rng.randrange(1, len(wire)) for _ in range(ctx.rng.choice([0, 1, 3])))) if len(wire) > 1 else []
        chunks = [wire[a:b] for a, b in zip([0] + cuts, cuts + [len(wire)])]
        cr = run_client(flags, chunks, listen=listen, incl=incl, excl=excl, level=verbose)
        log.add(end_cmd, head)
        log.ins.append(None)                     # `end` answers with two lines
        log.outs.append('client ' + cr.show())
        delivery_oracle(ctx, tcase, exp, known_gap, strict, cr, len(routes_frames))
    else:
        name = status[1]
        payload_len = sum(len('2,%s,%d\n' % e) for e in exp)
        if name == 'AssertionError' and raised_line is None:
            # which payload did the builder try to send?  recompute from the real list_routes
            FakePopen.output = output
            FakePopen.rc = rc
            p = Patches()
            old_err = sys.stderr
            try:
                set_diag(verbose)
                p.set(server.ssubprocess, 'Popen', FakePopen)
                p.set(server, 'which', lambda nm, *a: ('/sbin/' + nm) if nm in TOOLS[tool] else None)
                rts = list(server.list_routes())
            finally:
                p.restore()
                FakePopen.rc = 0
                helpers.verbose = 0
                sys.stderr = old_err
            pl = ''.join('%d,%s,%d\n' % r for r in rts).encode()
            log.add(end_cmd, 'pkt routes=%d len=%d adler=%d raise AssertionError' % (len(rts), len(pl), zlib.adler32(pl)))
            log.ins.append(None)
            log.outs.append('client -')
            big = len(pl) > 65535
            ctx.hist('delivery:assert')
            ctx.violation(KEY_BIG if big else KEY_DELIV,
                          case=dict(stream='table-size', tool=tool, nlines=len(lines), payload_len=len(pl), verbose=verbose, clock=clock, exit=rc,
                                    routes=len(rts), table=(hexb(output) if len(output) < 4000 else None),
                                    regen=('minimal:%d' % len(lines)) if label.startswith('minimal') else
                                          ('sized:%d' % len(pl)) if label.startswith('sized') else None),
                          expected='the ROUTES message is delivered and the firewall is started with the %d networks' % len(rts),
                          observed='server.main raised AssertionError in Mux.send: payload %d bytes > 65535; the server '
                                   'process ends, the client never starts the firewall' % len(pl),
                          kind='input')
        else:
            log.add(end_cmd, 'pkt raise ' + name)
            log.ins.append(None)
            log.outs.append('client -')
            if raised_line is None:
                # per-line run did not locate it (perline off): find the first line that raises alone
                for ln in lines:
                    if line_real(tool, ln, verbose, clock, rc).startswith('raise'):
                        raised_line = ln
                        break
            ctx.violation(KEY_JUNK if raised_line is not None else KEY_DELIV,
                          case=dict(stream='line', tool=tool, verbose=verbose, clock=clock, exit=rc, line=hexb(raised_line if raised_line is not None else output),
                                    intent=['omit']),
                          expected='a line that cannot be interpreted is skipped; the other routes are advertised',
                          observed='server.main raised %s while listing routes: the server process ends' % name,
                          kind='input')
    log.ins = [x for x in log.ins]
    ctx.count()
    return log


def line_oracle(ctx, tool, ln, intent, out, level=0, clock='none', rc=0):
    cls = out.split()[0]
    exp = expected_of(intent) if tool != 'x' else None
    if cls == 'raise':
        ctx.violation(KEY_JUNK, case=dict(stream='line', tool=tool, verbose=level, clock=clock, exit=rc, line=hexb(ln), intent=list(intent)),
                      expected=('advertise %s/%d' % exp) if exp else 'line skipped, no exception',
                      observed='list_routes raised ' + out.split()[1], kind='input')
        return
    got = None
    if cls == 'route':
        f, ip, w = out.split()[1].split(',')
        got = (ip, int(w))
        if f != '2':
            got = ('family ' + f, int(w))
    if intent[0] == 'lenient':
        # outside the grammars: whatever is advertised must still be a canonical network
        if cls == 'route':
            f, ip, w = out.split()[1].split(',')
            try:
                ok = 0 <= int(w) <= 32 and str(ipaddress.ip_network('%s/%s' % (ip, w), strict=True).network_address) == ip
            except ValueError:
                ok = False
            if ip.split('.')[0] in ('0', '127'):
                ok = False
            if not ok:
                ctx.violation(KEY_WRONG, case=dict(stream='line', tool=tool, verbose=level, clock=clock, exit=rc, line=hexb(ln), intent=list(intent)),
                              expected='a canonical network address with a prefix length 0..32, or nothing',
                              observed=out, kind='input')
        return
    if got != exp:
        key = KEY_BAREHOST if (intent[0] == 'barehost' and got is None) else KEY_WRONG
        ctx.violation(key, case=dict(stream='line', tool=tool, verbose=level, clock=clock, exit=rc, line=hexb(ln), intent=list(intent)),
                      expected=('advertise %s/%d' % exp) if exp else 'nothing advertised (default / 0.x / 127.x / not a route)',
                      observed=out, kind='input')


def plan_lines(nets):
    return [b'%d,%d,0,%s,%d,%d\n' % (f, w, ip.encode(), fp, lp) for (f, ip, w, fp, lp) in nets]


def plan_problems(flags, exp, known_gap, strict, cr, nframes, incl=None, excl=None):
    """Every network the property says is advertised is in the plan the pipe received, once, before NSLIST."""
    v4, v6, auton = flags[0] == '1', flags[1] == '1', flags[2] == '1'
    problems = []
    if nframes != 1:
        problems.append('%d ROUTES frames on the wire' % nframes)
    if cr.error:
        problems.append('client raised ' + cr.error)
    else:
        if cr.starts != 1:
            problems.append('firewall started %d times' % cr.starts)
        if cr.handler:
            problems.append('got_routes still installed')
        plan = cr.plan
        if not plan or plan[0] != b'ROUTES\n' or plan[-1] != b'NSLIST\n':
            problems.append('plan not framed by ROUTES/NSLIST: %r' % plan[:3])
        body = plan[1:-1]
        incl = [tuple(x) for x in (FIXED_INCLUDE if incl is None else incl)]
        excl = [tuple(x) for x in (FIXED_EXCLUDE if excl is None else excl)]
        fixed = plan_lines(incl)
        want = [b'2,%d,0,%s,0,0\n' % (w, ip.encode()) for (ip, w) in exp] if (auton and v4) else []
        gap = set(b'2,%d,0,%s,0,0\n' % (w, ip.encode()) for (ip, w) in known_gap)
        auto = body[len(fixed):len(body) - len(excl)]
        if body[:len(fixed)] != fixed or body[len(body) - len(excl):] != \
                [b'%d,%d,1,%s,%d,%d\n' % (f, w, ip.encode(), fp, lp) for (f, ip, w, fp, lp) in excl]:
            problems.append('configured subnets changed')
        want_nogap = [x for x in want if x not in gap]
        # a network the user already includes with all ports is in the plan whether or not it is added again
        covered = set(b'2,%d,0,%s,0,0\n' % (w, ip.encode()) for (f, ip, w, fp, lp) in incl if f == 2 and (fp, lp) == (0, 0))
        if strict:
            def norm(xs):
                return [x for x in xs if x not in covered and x not in gap]
            it2 = iter(want)
            if norm(auto) != norm(want) or not all(any(x == y for y in it2) for x in auto):
                missing = [x for x in norm(want) if x not in auto]
                problems.append('auto nets in plan differ: %d expected, %d present%s'
                                % (len(want), len(auto), ('; missing e.g. %r' % missing[0]) if missing else ''))
        else:
            it = iter(auto)
            if not all(any(x == y for y in it) for x in want_nogap):
                problems.append('an expected network is missing from the plan')
    return problems


def delivery_oracle(ctx, tcase, exp, known_gap, strict, cr, nframes):
    problems = plan_problems(tcase['flags'], exp, known_gap, strict, cr, nframes, tcase.get('incl'), tcase.get('excl'))
    if problems:
        ctx.violation(KEY_DELIV, case=tcase,
                      expected='plan = ROUTES, the user\'s includes unchanged, then every one of the %d advertised networks as 2,<w>,0,<ip>,0,0 '
                               '(whatever the user\'s own subnets are), the user\'s excludes, then NSLIST; '
                               'one fw.start() (server verbosity %d, routing tool %s exiting with status %s, clock while its output is read: %s; client listeners: real MultiListener, %s addresses, '
                               'IPv4 %s, IPv6 %s)'
                               % (len(exp), tcase['verbose'], 'a real child process' if tcase['real'] else 'in memory', tcase.get('exit', 0), tcase.get('clock', 'none'),
                                  {'loop': 'loopback', 'wild': 'wildcard'}[tcase['listen']],
                                  'asked for' if tcase['flags'][0] == '1' else 'not asked for',
                                  'asked for' if tcase['flags'][1] == '1' else 'not asked for'),
                      observed='; '.join(problems), kind='input')


def client_case(ctx, flags, payload, second=False):
    ssnet, client, server, helpers = _mods()
    log = CaseLog('client2' if second else 'client')
    level = next_level()
    ctx.hist('level:%d' % level)
    if second:
        cr = run_client(flags, [SYNC, frame(ssnet, b'')], second_payload=payload, level=level)
        log.add('client2 %s %s' % (flags, hexb(payload)), 'client ' + cr.show())
    else:
        cr = run_client(flags, [SYNC + frame(ssnet, payload)], listen='wild' if flags in ('111', '011') else 'loop',
                        level=level)
        log.add('client %s %s' % (flags, hexb(payload)), 'client ' + cr.show())
    log.nontrivial = True
    ctx.count()
    ctx.hist('client:' + ('raise' if cr.error else 'ok'))
    cr.level = level
    return log, cr


def unit_cases(ctx):
    ssnet, client, server, helpers = _mods()
    rng = ctx.rng
    log = CaseLog('unit')
    log.nontrivial = True

    def real(fn, *args):
        """one call into the real code at the next diagnostics level"""
        old = set_diag(next_level())
        try:
            return fn(*args)
        finally:
            clear_diag(old)

    def ipm(s):
        try:
            r = real(server._ipmatch, s)
        except Exception as e:  # noqa
            return 'raise ' + excname(e)
        return 'none' if r is None else 'ok %d %d' % r
    toks = ['default', '1.2.3.4', '1.2.3.4/24', '10', '10.1', '10.1.2', '10/8', '10.1/16', '10.1.2/24', '10/24', '10.1/3',
            '1.2.3.4/0', '1.2.3.4/99', '1.2.3.4.5', '1.2.3.', '.1.2.3', '1..2', '', '/', '/8', '1.2.3.4/', '1.2.3.4/a', 'a.b.c.d',
            '256.0.0.1', '1.2.3.256', '010.1.1.1', '08.1.1.1', '0377.0.0.1', '0400.0.0.1', '00.00.00.00', '1.2.3.4\n', '1.2.3.4/8\n',
            '1.2.3.4\n\n', '1.2.3.4 ', ' 1.2.3.4', '1.2.3.4/08', '1.2.3.4/00000000000000000000000000000000024',
            '99999999999999999999999', '0', '255.255.255.255/32', '1.2.3.4/' + '1' * 4300, '1.2.3.4/' + '1' * 4301,
            '1.2.3.4/' + '0' * 4301, 'default/0', '::1', '1.2.3.4/2/4', '0x10.1.1.1', '1.2.3.4/-1', '1.2.3.4/+1', '٣.1.1.1'[1:]]
    for _ in range(ctx.scale(300, 30000)):
        k = rng.randrange(1, 6)
        parts = []
        for _j in range(k):
            parts.append(rng.choice([str(rng.randrange(0, 256)), str(rng.randrange(0, 400)), '0' + str(rng.randrange(0, 400)),
                                     str(rng.randrange(0, 10)), '0', '', '255', '256']))
        t = '.'.join(parts)
        if rng.random() < 0.5:
            t += '/' + rng.choice([str(rng.randrange(0, 40)), '', 'x', '0', '32', '33', '08'])
        toks.append(t)
    for t in toks:
        if any(ord(c) > 127 for c in t):
            continue
        log.add('ipmatch ' + hexb(t.encode('latin-1')), ipm(t))
        ctx.hist('unit:ipmatch:' + ipm(t).split()[0])
    ints = ['8', '+8', '-8', '1_6', '_1', '1_', '1__2', '008', ' 8', '8 ', '\t8\n', '', '+', '-', '0_0', '+-8', '0x8', '-0', '8.0', '1e3',
            '\x1c8\x1f', '8\x1c', '1 2', '1_2_3', '1' * 4300, '1' * 4301, '0' * 4301, '-' + '1' * 4300, '1_' * 4299 + '1',
            '1_' * 4300 + '1', '12a', 'a12', '--1', '+_1', '1\x000']
    for _ in range(ctx.scale(300, 20000)):
        n = rng.randrange(0, 7)
        ints.append(''.join(rng.choice('0123456789_+- \t\x1c') for _ in range(n)))
    for s in ints:
        for kind in ('u', 'b'):
            try:
                v = 'ok %d' % (int(s) if kind == 'u' else int(s.encode('latin-1')))
            except ValueError:
                v = 'raise ValueError'
            log.add('int %s %s' % (kind, hexb(s.encode('latin-1'))), v)
            ctx.hist('unit:int:' + v.split()[0])
    masks = [contiguous(n) for n in range(33)] + [rng.getrandbits(32) for _ in range(ctx.scale(100, 2000))] + \
            [1 << i for i in range(32)] + [0x80000001, 0xff00ff00, 0x00ffffff]
    for m in masks:
        log.add('maskbits %d' % m, str(real(server._maskbits, (m, 32))))
    log.add('maskbits N', str(real(server._maskbits, None)))
    fo = 2 ** 1024 - 2 ** 970
    for n, bits in [(1, 0), (1, 31), (1, 32), (3, 40), (-1, 8), (-1, 40), (0, 5), (1, -1), (5, -3), (-1, -1), (1, -1074), (1, -1075),
                    (1, -5000), (1, -(fo - 1)), (1, -fo), (1, -(2 ** 1024)), (7, -(10 ** 400))] + \
                   [(rng.randrange(-5, 2 ** 33), rng.randrange(-40, 41)) for _ in range(ctx.scale(50, 500))]:
        try:
            v = 'ok %d' % real(server._shl, n, bits)
        except OverflowError:
            v = 'raise OverflowError'
        log.add('shl %d %d' % (n, bits), v)
    for _ in range(ctx.scale(40, 400)):
        n = rng.randrange(0, 30)
        b = bytes(rng.choice(b'ab\n\n\r ') for _ in range(n))
        log.add('split ' + hexb(b), 'lines ' + ','.join(str(len(x)) for x in io.BytesIO(b)))
    ctx.count(len(log.ins))
    return log


def gen_cases(ctx):
    rng = ctx.rng
    logs = []
    logs.append(unit_cases(ctx))

    # the two tables of the repository's own tests, then hand-written boundary tables
    t1 = [b'\n', b'Kernel IP routing table\n',
          b'Destination     Gateway         Genmask         Flags   MSS Window  irtt Iface\n',
          b'0.0.0.0         192.168.1.1     0.0.0.0         UG        0 0          0 wlan0\n',
          b'192.168.1.0     0.0.0.0         255.255.255.0   U         0 0          0 wlan0\n']
    for v in (0, 1, 2):
        logs.append(table_case(ctx, 'n', t1, [('omit',), ('omit',), ('omit',), ('omit',), ('route', '192.168.1.0', 24)], '101',
                               verbose=v, real=(v == 2)))
    t2 = [b'\n', b'default via 192.168.1.1 dev wlan0  proto static\n',
          b'192.168.1.0/24 dev wlan0  proto kernel  scope link  src 192.168.1.1\n']
    for v in (0, 1, 2):
        logs.append(table_case(ctx, 'i', t2, [('omit',), ('omit',), ('route', '192.168.1.0', 24)], '101', verbose=v, real=(v == 1)))
    # every listener configuration the methods use: loopback pair, wildcard pair, v4 only, v6 only (real MultiListener)
    for fl in ('111', '101', '011'):
        for li in ('loop', 'wild'):
            logs.append(table_case(ctx, 'i', t2, [('omit',), ('omit',), ('route', '192.168.1.0', 24)], fl, listen=li))
    # the user's own subnets coincide with an advertised route: all ports, one port, a range, as an exclude, twice
    for inc, exc in [([(2, '192.168.1.0', 24, 0, 0)], []), ([(2, '192.168.1.0', 24, 443, 443)], [(2, '127.0.0.1', 32, 0, 0)]),
                     ([(2, '192.168.1.0', 24, 8000, 8100), (2, '10.0.0.0', 8, 0, 0)], []),
                     ([], [(2, '192.168.1.0', 24, 0, 0)]), ([(2, '192.168.1.0', 25, 0, 0)], [(2, '192.168.1.0', 24, 22, 22)]),
                     ([(2, '192.168.1.0', 24, 443, 443), (2, '192.168.1.0', 24, 80, 80)], [])]:
        logs.append(table_case(ctx, 'i', t2, [('omit',), ('omit',), ('route', '192.168.1.0', 24)], '101', plan=(inc, exc)))
    logs.append(table_case(ctx, 'i', [], [], '101', real=True))
    logs.append(table_case(ctx, 'x', t2, [('omit',)] * 3, '101'))
    # every prefix length, with all host bits set, both tools
    for tool in 'in':
        lines, intents = [], []
        for n in range(33):
            a = 0xc6ffffff if n else 0xc6336401
            if tool == 'i':
                lines.append(dotted(a) + b'/%d dev eth0\n' % n)
            else:
                lines.append(dotted(a) + b' 0.0.0.0 ' + dotted(contiguous(n)) + b' U 0 0 0 eth0\n')
            intents.append(('route', dotted(a).decode(), n))
        logs.append(table_case(ctx, tool, lines, intents, '111', verbose=1 if tool == 'i' else 2,
                               listen='wild' if tool == 'i' else 'loop'))
    # the F17 witnesses, one per table so that each is located
    for ln in [b'10.0.0.0/8x dev eth0\n', b'a/b/c\n', b'300.1.1.0/24 dev eth0\n', b'10.0.0.0/8 dev \xe9th0\n', b'\x1c\n',
               b'10.0.0.0/-8 dev eth0\n', b'10.0.0.0/-' + b'9' * 320 + b' dev eth0\n', b'10.0.0.0/' + b'1' * 4301 + b'\n']:
        good = b'172.16.0.0/12 dev eth1\n'
        logs.append(table_case(ctx, 'i', [good, ln, good], [('route', '172.16.0.0', 12), ('omit',), ('route', '172.16.0.0', 12)], '101'))
    for ln in [b'300.1.1.0 0.0.0.0 255.255.255.0 U\n', b'10.0.0.0 0.0.0.0 255.255.256.0 U\n', b'10.0.0.0/' + b'1' * 4301 + b' gw UGS\n']:
        good = b'172.16.0.0 0.0.0.0 255.240.0.0 U 0 0 0 eth1\n'
        logs.append(table_case(ctx, 'n', [good, ln, good], [('route', '172.16.0.0', 12), ('omit',), ('route', '172.16.0.0', 12)], '101'))

    # random tables
    for i in range(ctx.scale(120, 8000)):
        tool = rng.choice('iiinnnb' if i % 50 else 'x')
        n = rng.choice([0, 1, 2, 3, 5, 8, 13, 30, rng.randrange(0, 60)])
        gen = iproute_line if tool != 'n' else netstat_line
        pairs = [gen(rng) for _ in range(n)]
        if tool != 'n':
            pairs = with_nexthops(pairs)
        flags = rng.choice(['101', '101', '101', '111', '011', '001', '100', '110', '000', '010'])
        logs.append(table_case(ctx, tool, [p[0] for p in pairs], [p[1] for p in pairs], flags,
                               verbose=[None, rng.choice([0, 0, 1, 2])][0], real=(i % 8 == 5)))   # draw kept: streams unchanged

    # sizes around the frame limit and far beyond it
    for target in [65535, 65534, 65536, 65535 + 13]:
        lines, exp = sized_table(target)
        logs.append(table_case(ctx, 'i', lines, [('route', ip, w) for ip, w in exp], '101',
                               perline=ctx.thorough, label='sized:%d' % target))
    for n in [5461, 5462] + ([40000] if ctx.thorough else []):
        lines, exp = minimal_table(n)
        logs.append(table_case(ctx, 'i', lines, [('route', ip, w) for ip, w in exp], '101',
                               perline=(n <= 5462), label='minimal:%d' % n, clock='slow-2ms' if n == 5461 else None))
    # the routing tool as a REAL child process writing to a REAL pipe: tables whose text exceeds the pipe buffer
    # (but whose advertisement still fits one frame), so that a server that does not drain the pipe hangs
    for n, v in [(3000, 0), (1200, 1)] + ([(4000, 2), (1000, 0)] if ctx.thorough else []):
        lines, intents = big_table(n)
        logs.append(table_case(ctx, 'i', lines, intents, '101', perline=ctx.thorough, label='realbig:%d' % n,
                               verbose=v, real=True, regen='big:%d' % n))
    if ctx.thorough:
        # a big mixed table that still fits: thousands of lines of every class
        pairs = [iproute_line(rng) for _ in range(6000)]
        pairs = [p for p in pairs if p[1][0] != 'lenient' or rng.random() < 0.3][:4500]
        kept = 0
        out = []
        for p in pairs:
            e = expected_of(p[1])
            if e:
                if kept + len('2,%s,%d\n' % e) > 60000:
                    continue
                kept += len('2,%s,%d\n' % e)
            out.append(p)
        logs.append(table_case(ctx, 'i', [p[0] for p in out], [p[1] for p in out], '101', label='bigmixed'))
        pairs = [netstat_line(rng) for _ in range(3000)]
        logs.append(table_case(ctx, 'n', [p[0] for p in pairs], [p[1] for p in pairs], '111', label='bigmixed'))

    # malformed / unusual ROUTES payloads straight to the client
    pays = [b'', b'\n', b'2,10.0.0.0,8\n', b'2,10.0.0.0,8', b'\n\n2,10.0.0.0,8\n\n2,10.1.0.0,16\n', b' 2,10.0.0.0,8 \n',
            b'10,2001:db8::,32\n', b'2,10.0.0.0,8\n10,fe80::,64\n', b'2,10.0.0.0\n', b'2\n', b'x,10.0.0.0,8\n', b'2,10.0.0.0,8x\n',
            b'2,10.0.0.0,8,9\n', b'2,caf\xc3\xa9,8\n', b'2,,8\n', b',,\n', b'2,10.0.0.0,-8\n', b'+2, 10.0.0.0 ,1_6\n', b'2,a,b,c\n',
            b'2,10.0.0.0,8\r\n2,10.1.0.0,16\r\n', b'3,10.0.0.0,8\n', b'2,10.0.0.0,8\n\x0b', b'\x1c2,10.0.0.0,8\n']
    for pl in pays:
        for flags in ['101', '011', '111', '001', '100']:
            lg, cr = client_case(ctx, flags, pl)
            logs.append(lg)
    lg, cr = client_case(ctx, '101', b'2,10.0.0.0,8\n', second=True)
    logs.append(lg)
    if not cr.error:
        ctx.violation(KEY_CLIENT + ':second-routes-message-accepted', case=dict(stream='client2', flags='101', verbose=cr.level, payload=hexb(b'2,10.0.0.0,8\n')),
                      expected='the firewall is started exactly once; a second ROUTES message is refused',
                      observed=cr.show(), kind='input')
    # every time profile on the repository's own two tables (placed last: the random streams above are unchanged)
    for ck in CLOCKS:
        logs.append(table_case(ctx, 'i', t2, [('omit',), ('omit',), ('route', '192.168.1.0', 24)], '101', clock=ck))
        logs.append(table_case(ctx, 'n', t1, [('omit',), ('omit',), ('omit',), ('omit',), ('route', '192.168.1.0', 24)], '101', clock=ck))
    for st in sorted(set(EXIT_ROTATION)):
        logs.append(table_case(ctx, 'i', t2, [('omit',), ('omit',), ('route', '192.168.1.0', 24)], '101', rc=st))
        logs.append(table_case(ctx, 'n', t1, [('omit',), ('omit',), ('omit',), ('omit',), ('route', '192.168.1.0', 24)], '101', rc=st,
                               real=True))
    return logs


def compare(ctx, logs):
    if not ctx.model_available:
        ctx.notes.append('model driver unavailable: correspondence skipped, oracle only')
        return
    ins = []
    for lg in logs:
        ins.extend(x for x in lg.ins if x is not None)
    outs = common.LeanBatch('C17').run(ins)
    total = sum(len(lg.outs) for lg in logs)
    if len(outs) != total:
        ctx.corr_break('C17', case=None, impl='%d lines' % total, model='%d lines' % len(outs),
                       note='driver output length differs')
        return
    pos = 0
    for lg in logs:
        n = len(lg.outs)
        mo = outs[pos:pos + n]
        pos += n
        if mo != lg.outs:
            i = next(k for k in range(n) if mo[k] != lg.outs[k])
            shown = [x for x in lg.ins[:i + 1] if x is not None]
            if lg.kind != 'unit':
                shown = shown[:1] + shown[-3:]
            else:
                shown = shown[-1:]
            ctx.corr_break(lg.kind, case=[s[:400] for s in shown], impl=lg.outs[i], model=mo[i])
            if len(ctx.corr_breaks) > 20:
                return


def run(ctx):
    _case_counter[0] = 0
    _table_counter[0] = 0
    _level_shift[0] = int(ctx.seed)
    logs = gen_cases(ctx)
    for lg in logs:
        ctx.hist('case:' + lg.kind.split(':')[0])
        ctx.mark([x for x in lg.ins if x is not None], lg.nontrivial)
    seen = set()
    for lg in logs:
        k = lg.kind.split(':')[0]
        if k not in seen and len(lg.ins) > 1:
            seen.add(k)
            ctx.sample(dict(kind=lg.kind, input=[(l or '')[:100] for l in lg.ins[:6]],
                            real_code_output=[l[:120] for l in lg.outs[:6]]), limit=8)
    compare(ctx, logs)


def replay(ctx, rep):
    ssnet, client, server, helpers = _mods()
    case = rep['case']
    st = case.get('stream')
    if st == 'line':
        ln = common.unhex(case['line'])
        out = line_real(case['tool'], ln, int(case.get('verbose') or 0), case.get('clock') or 'none', int(case.get('exit') or 0))
        c2 = common.Ctx('C17', 'quick', 0)
        line_oracle(c2, case['tool'], ln, tuple(case.get('intent') or ['omit']), out, int(case.get('verbose') or 0), case.get('clock') or 'none', int(case.get('exit') or 0))
        return bool(c2.violations), 'list_routes (verbosity %s, clock %s, tool exit status %s) on %r: %s' % (
            case.get('verbose') or 0, case.get('clock') or 'none', case.get('exit') or 0, ln[:80], out)
    if st == 'table-size':
        regen = case.get('regen')
        if regen and regen.startswith('minimal:'):
            lines, _ = minimal_table(int(regen.split(':')[1]))
        elif regen and regen.startswith('sized:'):
            lines, _ = sized_table(int(regen.split(':')[1]))
        else:
            lines = split_lines(common.unhex(case['table']))
        status, wire = run_server(case['tool'], b''.join(lines), verbose=int(case.get('verbose') or 0),
                                  clock=case.get('clock') or 'none', rc=int(case.get('exit') or 0))
        return status[0] != 'sent', 'server.main on %d lines: %s' % (len(lines), ' '.join(status))
    if st == 'table':
        regen = case.get('regen')
        if regen and regen.startswith('big:'):
            lines, intents = big_table(int(regen.split(':')[1]))
            output = b''.join(lines)
            exp = [e for e in (expected_of(it) for it in intents) if e is not None]
        else:
            output = common.unhex(case['table'])
            exp = [tuple(e) for e in (case.get('expect') or [])]
        verbose, real = int(case.get('verbose') or 0), bool(case.get('real'))
        clock = case.get('clock') or 'none'
        rc = int(case.get('exit') or 0)
        status, wire = run_server(case['tool'], output, verbose=verbose, real=real, clock=clock, rc=rc)
        how = 'server.main (verbosity %d, tool %s exiting with status %d, clock %s) on %d bytes of tool output: ' % (
            verbose, 'as a real child process' if real else 'in memory', rc, clock, len(output))
        if status[0] != 'sent':
            return True, how + ' '.join(status)
        nframes = wire.count(struct.pack('!ccHH', b'S', b'S', 0, ssnet.CMD_ROUTES))
        cr = run_client(case['flags'], [wire], listen=case.get('listen') or 'loop', incl=case.get('incl'), excl=case.get('excl'),
                        level=verbose)
        if case.get('expect') is None and not regen:
            return bool(cr.error) or cr.starts != 1, how + 'client: ' + cr.show()
        problems = plan_problems(case['flags'], exp, [tuple(e) for e in (case.get('gap') or [])],
                                 bool(case.get('strict', True)), cr, 1, case.get('incl'), case.get('excl'))
        return bool(problems), how + ('; '.join(problems) if problems else 'plan holds all %d networks' % len(exp))
    if st == 'client2':
        cr = run_client(case['flags'], [SYNC, frame(ssnet, b'')], second_payload=common.unhex(case['payload']),
                        level=int(case.get('verbose') or 0))
        return not cr.error, cr.show()
    return False, 'unknown replay stream %r' % st
