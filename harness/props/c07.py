"""C07 — tunnel messages and the start-up handshake survive any segmentation.

Correspondence: the real `ssnet.Mux` (send / flush / handle) over scripted files and the
real handshake prefix of `client._main`, against `Code/Mux.lean` / `Code/Handshake.lean`.
Oracle (independent of the model): frames delivered == prefix of frames sent, all delivered
when drained; handshake outcome is a function of the byte stream only.
"""
import ast
import errno
import io
import os
import struct
import sys

import common
from common import hexb

RULE = ("cases = op sequences over a real sender Mux and a real receiver Mux joined by a simulated pipe "
        "(send / flush with a write grant or would-block / read of k in-flight bytes), exhaustive cut "
        "patterns of short streams, single/double cuts of longer ones, malformed streams, send() domain "
        "errors, and handshake streams (noise, NULs, sync string, tail) under exhaustive/random "
        "chunkings; a case is non-trivial when a frame crossed a read boundary, an error branch was "
        "taken, or a handshake was decided; distinct = distinct canonical op sequence")
MANIFEST = dict(
    level_text=("Machine-checked Lean 4 theorems over a statement-by-statement model of Mux.send/flush/fill/handle and "
                "of the client's init-string recognition: encode/decode round trip for every channel, command and "
                "payload length; the want/inbuf loop computes the specification parser for every chunk; the frames "
                "delivered depend only on the concatenation of the reads (C07_segmentation, C07_cut_independent); "
                "for every interleaving of sends, partial writes/would-blocks and reads the delivered messages are a "
                "prefix of the sent ones and all are delivered once drained (C07_pipe). The model is tied to the "
                "code on every run by a differential run of the real Mux and real client._main handshake prefix "
                "(exhaustive cut patterns of short streams, random interleavings) plus an oracle on the real code."),
    level_note=("Trusted: Lean kernel; axioms propext/Classical.choice/Quot.sound only; the correspondence harness; "
                "the pipe model (reliable ordered bytes, arbitrary prefixes per read/write); select truthful about "
                "readability. ssh itself is outside. Handshake segmentation independence holds for the repaired "
                "code (fix commit 1571a75; the pre-fix code is the seeded regression F01)."),
    technique="Lean 4 proof (induction + refinement to a spec parser) + differential correspondence with the real Mux",
)
DRIVER_TARGETS = ['SshuttleModel.Code.Mux', 'SshuttleModel.Code.Handshake']
ASSUMPTIONS = [
    "the ssh pipe is a reliable ordered byte stream; a write accepts an arbitrary prefix or would-blocks; "
    "a read returns an arbitrary non-empty prefix of what is in flight",
    "rfile of the client is an unbuffered socket file: read(n) is one recv(n)",
    "select is truthful about readability (Mux.fill never sees None)",
]


# Verbosity is a dimension of every case: decoding must not depend on it.  Each new Pair / handshake run takes the
# next level of this rotation (shifted by the check's seed); violations record the level, replays restore it.
VERBS = [0, 0, 3, 0, 2, 0, 13, 1]
CUR = [0]            # level of the case being run
_rot = [0]


def next_verbose():
    v = VERBS[_rot[0] % len(VERBS)]
    _rot[0] += 1
    CUR[0] = v
    return v


class _Gone:
    def write(self, s):
        raise IOError(errno.EIO, 'scripted: stderr is gone')

    def flush(self):
        raise IOError(errno.EIO, 'scripted: stderr is gone')


class Verb:
    """Run real code at verbosity v % 10 with diagnostics going nowhere (v >= 10: into a stream that is gone)."""

    def __init__(self, v):
        self.v = v

    def __enter__(self):
        import sshuttle.helpers as helpers
        self.h = helpers
        self.saved = (helpers.verbose, sys.stderr)
        helpers.verbose = self.v % 10
        sys.stderr = _Gone() if self.v >= 10 else io.StringIO()

    def __exit__(self, *a):
        self.h.verbose, sys.stderr = self.saved
        return False


def vcase(**k):
    k['verbose'] = CUR[0]
    return k


def _mods():
    import sshuttle.ssnet as ssnet
    import sshuttle.client as client
    import sshuttle.helpers as helpers
    ssnet.set_non_blocking_io = lambda fd: None   # fake files have no real descriptor
    return ssnet, client, helpers


class ScriptedW:
    """wfile whose write() follows the grant given for the next call."""

    def __init__(self):
        self.grant = None
        self.written = b''

    def fileno(self):
        return 1001

    def write(self, b):
        g = self.grant
        if g is None:
            raise BlockingIOError(errno.EAGAIN, 'would block')
        n = min(g, len(b))
        self.written += bytes(b[:n])
        return n


class ScriptedR:
    def __init__(self):
        self.next = None

    def fileno(self):
        return 1000

    def read(self, n):
        kind, data = self.next
        if kind == 'd':
            assert len(data) <= n
            return data
        if kind == 'e':
            return b''
        raise BlockingIOError(errno.EAGAIN, 'would block')


class RecMux(object):
    pass


def make_mux(ssnet):
    r, w = ScriptedR(), ScriptedW()

    class M(ssnet.Mux):
        def __init__(self, rf, wf):
            self.frames = []
            ssnet.Mux.__init__(self, rf, wf)

        def got_packet(self, channel, cmd, data):
            self.frames.append((channel, cmd, bytes(data)))
    m = M(r, w)
    return m, r, w


def show_frames(fs):
    if not fs:
        return '-'
    return ';'.join('%d.%d.%s' % (c, m, hexb(d)) for (c, m, d) in fs)


def lens(outbuf):
    return ','.join(str(len(b)) for b in outbuf)


class Pair:
    """Real sender + real receiver; executes ops, returns (model input line, impl output line)."""

    def __init__(self, ssnet, verbose=None):
        self.ssnet = ssnet
        self.verbose = next_verbose() if verbose is None else verbose
        CUR[0] = self.verbose
        self.a, self.ar, self.aw = make_mux(ssnet)   # sender
        self.b, self.br, self.bw = make_mux(ssnet)   # receiver
        self.sent = [(0, ssnet.CMD_PING, b'chicken')]
        self.delivered = []
        self.dead = False
        self.starved = None      # (inbuf, want) at a moment the receiver's pre_select did not ask to read the tunnel

    def new(self):
        return 'new', 'ok out=%s full=%d' % (lens(self.a.outbuf), self.a.fullness)

    def send(self, chan, cmd, data):
        line = 'send %s %d %s' % ('N' if chan is None else chan, cmd, hexb(data))
        try:
            with Verb(self.verbose):
                self.a.send(chan, cmd, data)
        except AssertionError:
            return line, 'assertLen'
        except struct.error:
            return line, 'structError'
        self.sent.append((chan, cmd, data))
        return line, 'ok out=%s full=%d' % (lens(self.a.outbuf), self.a.fullness)

    def flush(self, grant):
        self.aw.grant = grant
        before = len(self.aw.written)
        with Verb(self.verbose):
            self.a.flush()
        wrote = self.aw.written[before:]
        return 'flush %s' % ('N' if grant is None else grant), 'wire=%s out=%s' % (hexb(wrote), lens(self.a.outbuf))

    def handle(self, kind, data=b''):
        self.br.next = (kind, data)
        n0 = len(self.b.frames)
        line = 'handle %s %s' % (kind, hexb(data))
        tag = 'ok'
        try:
            with Verb(self.verbose):
                self.b.handle()
        except AssertionError:
            tag = 'badMagic'
        except struct.error:
            tag = 'structError'
        except TypeError:
            return line, 'typeError'
        except Exception as e:  # noqa - anything else out of the real decoder ends the receiver: a verdict, not a harness error
            tag = 'raised' + type(e).__name__
        fs = self.b.frames[n0:]
        self.delivered.extend(fs)
        if tag == 'ok' and self.b.ok and self.starved is None:
            # the event loop reads the tunnel only if the Mux asks for it: it must always ask while it is alive,
            # whatever is buffered (a partial frame can only be completed by reading more)
            r, w, x = [], [], []
            self.b.pre_select(r, w, x)
            if self.b.rfile not in r:
                self.starved = (len(self.b.inbuf), self.b.want)
        if tag != 'ok':
            self.dead = True
            # Python left `want` as it was when the assert fired; the model reports the same
            return line, '%s frames=%s want=%d inbuf=%d' % (tag, show_frames(fs), self.b.want, len(self.b.inbuf))
        return line, 'ok frames=%s want=%d inbuf=%d alive=%d' % (
            show_frames(fs), self.b.want, len(self.b.inbuf), 1 if self.b.ok else 0)


def rand_payload(rng, big_ok):
    r = rng.random()
    if r < 0.25:
        n = rng.choice([0, 1, 7, 8, 9])
    elif r < 0.5:
        n = rng.randrange(0, 40)
    elif r < 0.7:
        n = rng.choice([2047, 2048, 2049]) if big_ok else rng.randrange(0, 64)
    elif r < 0.75 and big_ok:
        n = rng.choice([65534, 65535])
    else:
        n = rng.randrange(0, 300)
    kind = rng.random()
    if kind < 0.2:
        return bytes(n)
    if kind < 0.4:
        return b'S' * n            # payload that looks like frame magic
    return bytes(rng.getrandbits(8) for _ in range(n))


def rand_frame(rng, ssnet, big_ok):
    cmds = [v for k, v in vars(ssnet).items() if k.startswith('CMD_')]
    chan = rng.choice([0, 1, 255, 256, 65535, rng.randrange(0, 65536)])
    cmd = rng.choice(cmds + [0, 1, 0x41ff, 0x420f, 65535])
    return chan, cmd, rand_payload(rng, big_ok)


def encode(frame):
    c, m, d = frame
    return struct.pack('!ccHHH', b'S', b'S', c, m, len(d)) + d


class CaseLog:
    def __init__(self, kind):
        self.kind = kind
        self.ins = []
        self.outs = []
        self.nontrivial = False

    def add(self, pair):
        self.ins.append(pair[0])
        self.outs.append(pair[1])


def pipe_case(ctx, ssnet, rng, nops, big_ok):
    """Random interleaving of send / flush / recv on a real pair, with the prefix oracle."""
    p = Pair(ssnet)
    log = CaseLog('pipe')
    log.add(p.new())
    wire = b''
    for _ in range(nops):
        r = rng.random()
        if r < 0.3:
            log.add(p.send(*rand_frame(rng, ssnet, big_ok)))
        elif r < 0.6:
            g = rng.choice([None, 0, 1, 7, 8, 9, 2048, 1 << 20, rng.randrange(0, 64)])
            w0 = len(p.aw.written)
            log.add(p.flush(g))
            wire += p.aw.written[w0:]
        else:
            if wire and not p.dead:
                k = rng.choice([1, 2, 7, 8, 9, len(wire), rng.randrange(1, len(wire) + 1)])
                k = min(k, len(wire), 1 << 15)
                chunk, wire = wire[:k], wire[k:]
                log.add(p.handle('d', chunk))
                if p.b.want and p.b.inbuf:
                    log.nontrivial = True
        oracle_prefix(ctx, p, log, final=False)
    # drain
    guard = 0
    while (p.a.outbuf or wire) and not p.dead and guard < 10000:
        guard += 1
        if p.a.outbuf:
            w0 = len(p.aw.written)
            log.add(p.flush(1 << 20))
            wire += p.aw.written[w0:]
        if wire:
            k = min(len(wire), 1 << 15)
            chunk, wire = wire[:k], wire[k:]
            log.add(p.handle('d', chunk))
    oracle_prefix(ctx, p, log, final=True)
    return log


def oracle_prefix(ctx, p, log, final):
    if p.starved is not None and final:
        ctx.violation('C07:loop:mux-stops-reading-with-a-partial-frame-buffered',
                      case=vcase(stream='mux', ops=list(log.ins)),
                      expected='pre_select asks for the tunnel read file while the Mux is alive',
                      observed='not asked with %d bytes buffered (want=%d)' % p.starved, kind='ops')
    sent, deliv = p.sent, p.delivered
    ok = (not p.dead) and deliv == sent[:len(deliv)] and (not final or len(deliv) == len(sent))
    if not ok:
        ctx.violation('C07:pipe:delivered-not-prefix-of-sent' if not final else 'C07:pipe:not-all-delivered',
                      case=vcase(stream='mux', ops=list(log.ins)),
                      expected='frames delivered are a prefix of frames sent (equal once drained), receiver alive',
                      observed=dict(sent=[(c, m, hexb(d)[:40]) for c, m, d in sent][-6:],
                                    delivered=[(c, m, hexb(d)[:40]) for c, m, d in deliv][-6:],
                                    receiver_failed=p.dead),
                      kind='ops')


def cuts_case(ctx, ssnet, stream, cuts, frames):
    """Feed `stream` to a fresh real receiver cut at the given positions."""
    p = Pair(ssnet)
    log = CaseLog('cuts')
    log.add(p.new())
    pos = 0
    for c in list(cuts) + [len(stream)]:
        if c > pos:
            log.add(p.handle('d', stream[pos:c]))
            pos = c
    if frames is not None:
        if p.dead or p.delivered != frames or p.b.inbuf or p.b.want:
            ctx.violation('C07:cuts:decoded-differs-from-sent',
                          case=vcase(stream='mux-cuts', ops=list(log.ins), frames=show_frames(frames)),
                          expected=show_frames(frames), observed=dict(delivered=show_frames(p.delivered),
                                                                     inbuf=len(p.b.inbuf), want=p.b.want,
                                                                     failed=p.dead), kind='input')
    log.nontrivial = len(cuts) > 0
    return log


def big_frame_case(ctx, ssnet, payload_len, reads):
    """One frame larger than the read size arrives in several reads: the receiver must keep asking for the tunnel to
    be read while the partial frame is buffered, and must decode it (and the frame after it) in the end."""
    frames = [(5, ssnet.CMD_TCP_DATA, bytes([i % 251 for i in range(payload_len)])), (6, ssnet.CMD_TCP_EOF, b'')]
    stream = b''.join(encode(f) for f in frames)
    p = Pair(ssnet)
    log = CaseLog('big-frame')
    log.add(p.new())
    pos = 0
    k = 0
    while pos < len(stream) and not p.dead:
        n = reads[k % len(reads)]
        k += 1
        log.add(p.handle('d', stream[pos:pos + n]))
        pos += n
    if p.starved is not None:
        ctx.violation('C07:loop:mux-stops-reading-with-a-partial-frame-buffered',
                      case=vcase(stream='big-frame', payload_len=payload_len, reads=list(reads)),
                      expected='pre_select asks for the tunnel read file while the Mux is alive',
                      observed='not asked with %d bytes buffered (want=%d)' % p.starved, kind='input')
    elif p.dead or p.delivered != frames:
        ctx.violation('C07:cuts:decoded-differs-from-sent',
                      case=vcase(stream='big-frame', payload_len=payload_len, reads=list(reads)),
                      expected=show_frames(frames)[:80], observed=dict(delivered=len(p.delivered), failed=p.dead), kind='input')
    log.nontrivial = True
    return log


def garbage_case(ssnet, rng):
    p = Pair(ssnet)
    log = CaseLog('garbage')
    log.add(p.new())
    good = b''.join(encode(rand_frame(rng, ssnet, False)) for _ in range(rng.randrange(0, 3)))
    bad = bytearray(good + encode(rand_frame(rng, ssnet, False)))
    if bad:
        i = rng.randrange(0, len(bad))
        bad[i] ^= rng.choice([1, 0x20, 0xff])
    stream = bytes(bad) + bytes(rng.getrandbits(8) for _ in range(rng.randrange(0, 12)))
    pos = 0
    while pos < len(stream) and not p.dead:
        k = rng.randrange(1, 12)
        log.add(p.handle('d', stream[pos:pos + k]))
        pos += k
    if rng.random() < 0.3 and not p.dead:
        log.add(p.handle('e'))
    if rng.random() < 0.1 and not p.dead:
        log.add(p.handle('n'))
    log.nontrivial = True
    return log


def bulk_case(ctx, ssnet, nframes, then_eof):
    """Many small frames arriving in ONE read: all of them must be decoded by that handle() call (nothing
    else will wake the receiver up if the peer then goes quiet)."""
    frames = [(i % 65536, ssnet.CMD_TCP_DATA if i % 3 else ssnet.CMD_TCP_EOF, bytes([i % 256]) * (i % 3)) for i in range(nframes)]
    stream = b''.join(encode(f) for f in frames)
    p = Pair(ssnet)
    log = CaseLog('bulk')
    log.add(p.new())
    log.add(p.handle('d', stream))
    if then_eof and not p.dead:
        log.add(p.handle('e'))
    if p.dead or p.delivered != frames:
        ctx.violation('C07:bulk:one-read-decodes-fewer-messages',
                      case=vcase(stream='mux-cuts', ops=list(log.ins), frames=show_frames(frames)),
                      expected='%d frames from one read of %d bytes' % (nframes, len(stream)),
                      observed='%d frames delivered, failed=%s' % (len(p.delivered), p.dead), kind='input')
    log.nontrivial = True
    return log


def backlog_case(ctx, ssnet, nframes, payload_len, grant):
    """A backlog at the sender: `nframes` frames queued before the pipe takes anything, then flushed with at most
    `grant` bytes per write; the receiver reads up to 32 KiB at a time.  Whatever batch size, byte cap or per-wake-up
    limit either side works with, the messages decoded are the messages sent."""
    frames = [(1 + i % 65535, ssnet.CMD_TCP_DATA, bytes([(i * 7 + j) % 251 for j in range(min(payload_len, 251))]) *
               (payload_len // 251 + 1)) for i in range(nframes)]
    frames = [(c, m, d[:payload_len]) for (c, m, d) in frames]
    p = Pair(ssnet)
    log = CaseLog('backlog')
    log.add(p.new())
    for f in frames:
        log.add(p.send(*f))
    wire = b''
    guard = 0
    while p.a.outbuf and guard < 200000:
        guard += 1
        w0 = len(p.aw.written)
        log.add(p.flush(grant))
        wire += p.aw.written[w0:]
    for k in range(0, len(wire), 32768):
        if p.dead:
            break
        log.add(p.handle('d', wire[k:k + 32768]))
    want = [(0, ssnet.CMD_PING, b'chicken')] + frames if p.delivered and p.delivered[0][1] == ssnet.CMD_PING else frames
    if p.dead or p.delivered != want:
        ctx.violation('C07:backlog:decoded-differs-from-sent',
                      case=vcase(stream='backlog', nframes=nframes, payload_len=payload_len, grant=grant),
                      expected='%d messages, as sent' % len(want),
                      observed='%d messages decoded, receiver_failed=%s, %d bytes on the wire' % (len(p.delivered), p.dead, len(wire)),
                      kind='input')
    log.nontrivial = True
    return log


def ping_during_partial_write(ctx, ssnet, rng, grant, payload_len):
    """A PING is handled (the real got_packet queues the PONG) while a partially written frame is at the head
    of the sender's queue: the byte stream on the wire must still decode to the frames sent, in order."""
    r, w = ScriptedR(), ScriptedW()
    a = ssnet.Mux(r, w)                    # real got_packet on the sending side
    b, br, bw = make_mux(ssnet)
    data = bytes(rng.getrandbits(8) for _ in range(payload_len))
    sent = [(0, ssnet.CMD_PING, b'chicken'), (7, ssnet.CMD_TCP_DATA, data)]
    a.send(7, ssnet.CMD_TCP_DATA, data)
    w.grant = 15                            # the initial PING goes out whole
    a.flush()
    w.grant = grant                         # ... the DATA frame only partly
    a.flush()
    r.next = ('d', encode((0, ssnet.CMD_PING, b'rttest')))
    a.handle()                              # -> got_packet(PING) -> send(PONG)
    sent.append((0, ssnet.CMD_PONG, b'rttest'))
    guard = 0
    while a.outbuf and guard < 1000:
        guard += 1
        w.grant = rng.choice([1, 7, 64, 1 << 20])
        a.flush()
    ok = True
    why = ''
    try:
        pos = 0
        wire = w.written
        while pos < len(wire):
            k = rng.choice([1, 8, 9, 100, len(wire)])
            br.next = ('d', wire[pos:pos + k])
            b.handle()
            pos += k
    except Exception as e:  # noqa
        ok = False
        why = repr(e)
    if ok and b.frames != sent:
        ok = False
        why = 'decoded %s' % show_frames(b.frames)[:200]
    log = CaseLog('ping-mid-frame')
    log.nontrivial = True
    log.ins.append('new')
    log.outs.append('ok out=15 full=7')
    if not ok:
        ctx.violation('C07:partial-write:control-frame-spliced-into-data-frame',
                      case=vcase(stream='ping-mid-frame', grant=grant, payload_len=payload_len),
                      expected=show_frames(sent)[:200], observed=why, kind='ops')
    return log


def send_domain_case(ssnet):
    p = Pair(ssnet)
    log = CaseLog('send-domain')
    log.add(p.new())
    for chan, cmd, n in [(None, ssnet.CMD_DNS_REQ, 3), (65536, ssnet.CMD_TCP_DATA, 0), (65535, 65536, 0),
                         (1, ssnet.CMD_TCP_DATA, 65536), (None, ssnet.CMD_TCP_DATA, 70000),
                         (0, 0, 65535), (65535, 65535, 0)]:
        log.add(p.send(chan, cmd, bytes(n)))
    log.nontrivial = True
    return log


# ------------------------------------------------------------------ handshake

class _Stop(Exception):
    pass


class RawReader:
    """Unbuffered socket file: read(n) returns at most the next segment."""

    def __init__(self, chunks):
        self.chunks = [bytes(c) for c in chunks if c]

    def read(self, n=-1):
        if not self.chunks:
            return b''
        c = self.chunks[0]
        out, rest = c[:n], c[n:]
        if rest:
            self.chunks[0] = rest
        else:
            self.chunks.pop(0)
        return out

    def fileno(self):
        return 1000


class FakeProc:
    pid = 4242

    def __init__(self):
        self.polls = 0

    def poll(self):
        self.polls += 1
        if self.polls > 1:
            raise _Stop()
        return None


class FakeListener:
    v4 = object()
    v6 = None

    def add_handler(self, *a, **k):
        pass


class FakeFw:
    method = None
    auto_nets = []


def run_handshake(chunks):
    """Drive the real `client._main` up to the end of the handshake."""
    ssnet, client, helpers = _mods()
    from sshuttle import ssh
    reader = RawReader(chunks)
    proc = FakeProc()
    old_connect = ssh.connect
    old_stderr = sys.stderr
    old_verbose = helpers.verbose
    ssh.connect = lambda *a, **k: (proc, reader, ScriptedW())
    sys.stderr = _Gone() if CUR[0] >= 10 else io.StringIO()
    helpers.verbose = CUR[0] % 10
    try:
        try:
            client._main(FakeListener(), None, FakeFw(), None, 'host', None, True, 32768,
                         None, None, False, False, False, None, False, None)
        except _Stop:
            return 'ok', b''.join(reader.chunks)
        except helpers.Fatal as e:
            msg = str(e)
            if 'expected server init string' in msg:
                got = msg.split('; got ', 1)[1]
                return 'fatal', ast.literal_eval(got)
            return 'other', msg
        except Exception as e:  # noqa - anything else out of the real handshake code is a verdict, not a harness error
            return 'other', 'raised %s: %s' % (type(e).__name__, str(e)[:120])
    finally:
        ssh.connect = old_connect
        sys.stderr = old_stderr
        helpers.verbose = old_verbose
    return 'other', 'returned'


def hs_expected(stream, sync=b'SSHUTTLE0001'):
    """The property, on the byte stream only."""
    i = stream.find(b'\0')
    if i < 0:
        return 'fatal', b''
    j = stream.find(b'\0', i + 1)
    if j < 0:
        return 'fatal', b''
    got = stream[j + 1:j + 1 + len(sync)]
    return ('ok', stream[j + 1 + len(sync):]) if got == sync else ('fatal', got)


def hs_case(ctx, chunks, keep_level=False):
    log = CaseLog('handshake')
    stream = b''.join(chunks)
    if not keep_level:
        next_verbose()
    kind, val = run_handshake(chunks)
    log.ins.append('hs ' + ' '.join(hexb(c) for c in chunks if c) if any(chunks) else 'hs')
    if kind == 'ok':
        log.outs.append('ok rest=%s' % hexb(val))
    elif kind == 'fatal':
        log.outs.append('fatal got=%s' % hexb(val))
    else:
        log.outs.append('other %s' % val)
    exp = hs_expected(stream)
    if (kind, val) != exp:
        ctx.violation('C07:handshake:outcome-depends-on-segmentation',
                      case=vcase(stream='handshake', chunks=[hexb(c) for c in chunks]),
                      expected='%s %s (decided by the bytes alone)' % (exp[0], hexb(exp[1])),
                      observed='%s %s' % (kind, hexb(val) if isinstance(val, bytes) else val),
                      kind='input')
    log.nontrivial = len([c for c in chunks if c]) > 1
    return log


def all_cuts(n):
    for mask in range(1 << (n - 1)):
        yield [i + 1 for i in range(n - 1) if mask >> i & 1]


def chunk_by(stream, cuts):
    out = []
    pos = 0
    for c in list(cuts) + [len(stream)]:
        out.append(stream[pos:c])
        pos = c
    return out


def transport_shim_case(ctx, ssnet, helpers, grant, payload_lens, only=None):
    """The repository's own byte transport between Mux and ssh on platforms without select() on pipes
    (`helpers.SocketRWShim`: a socketpair and two pump threads, used by ssh.connect and server.main on win32).  The
    pipe theorems assume the transport hands on exactly the bytes written, in order, whatever the sizes of its reads
    and writes; here the real shim is held to that: encoded frames go in through its socket side, a raw writer that
    takes at most `grant` bytes per call collects what comes out, and a second real Mux decodes it."""
    import threading
    frames = [(1 + i, ssnet.CMD_TCP_DATA, bytes([(i * 13 + j) % 251 for j in range(min(n, 251))]) * (n // 251 + 1))
              for i, n in enumerate(payload_lens)]
    frames = [(c, m, d[:n]) for (c, m, d), n in zip(frames, payload_lens)]
    stream = b''.join(encode(f) for f in frames)
    out = bytearray()
    done = threading.Event()

    class RawW:
        def write(self, b):
            k = min(len(b), grant)
            out.extend(bytes(b[:k]))
            return k

        def flush(self):
            pass

    class NoR:
        def read(self, n):
            done.wait(20)
            return b''
    old_stderr = sys.stderr
    sys.stderr = io.StringIO()
    try:
        shim = helpers.SocketRWShim(NoR(), RawW())
        rf, wf = shim.makefiles()
        wf.write(stream)
        wf.flush()
        import socket as _socket
        shim._s2.shutdown(_socket.SHUT_WR)          # end of stream towards the writer: the pump drains and stops
        import time as _time
        t0 = _time.time()
        last = -1
        while _time.time() - t0 < 20:
            if len(out) >= len(stream):
                break
            if len(out) == last and _time.time() - t0 > 2:
                break                                # nothing more is coming
            last = len(out)
            _time.sleep(0.05)
        done.set()
        try:
            rf.close()
            wf.close()
            shim._s2.close()
        except OSError:
            pass
    finally:
        sys.stderr = old_stderr
    got = bytes(out)
    p = Pair(ssnet)
    p.new()
    for k in range(0, len(got), 16384):
        if p.dead:
            break
        p.handle('d', got[k:k + 16384])
    if got != stream or p.dead or p.delivered != frames:
        ctx.violation('C07:transport:shim-does-not-hand-on-the-bytes-written',
                      case=vcase(stream='transport-shim', grant=grant, payload_lens=list(payload_lens)),
                      expected='%d bytes / %d messages out of the shim, as written' % (len(stream), len(frames)),
                      observed='%d bytes out (%s), %d messages decoded' % (
                          len(got), 'a prefix' if stream.startswith(got) else 'not even a prefix', len(p.delivered)),
                      kind='input')


def gen_cases(ctx):
    ssnet, client, helpers = _mods()
    rng = ctx.rng
    logs = []
    logs.append(send_domain_case(ssnet))
    for n, eof in ((129, False), (400, True), (1000, False), (3000, True)):
        logs.append(bulk_case(ctx, ssnet, n, eof))
    for plen, reads in ((40000, (32768,)), (40000, (20000, 20008)), (65535, (32768,)), (65535, (1000, 32768)),
                        (32761, (32768,)), (32760, (32767, 1))):
        logs.append(big_frame_case(ctx, ssnet, plen, reads))
    for nfr, plen, grant in ((33, 2048, 1 << 20), (70, 2048, 65536), (300, 1, 1 << 20), (1200, 0, 4096), (40, 65535, 1 << 20)):
        logs.append(backlog_case(ctx, ssnet, nfr, plen, grant))
    for grant in (1, 7, 8, 9, 30):
        for plen in (0, 1, 100, 2048):
            logs.append(ping_during_partial_write(ctx, ssnet, rng, grant, plen))
    # exhaustive cut patterns of short streams
    f1 = (258, ssnet.CMD_TCP_DATA, b'\x53\x53\x00\x01')           # payload looks like magic
    s1 = encode(f1)                                               # 12 bytes
    for cuts in all_cuts(len(s1)):
        logs.append(cuts_case(ctx, ssnet, s1, cuts, [f1]))
    f2 = [(1, ssnet.CMD_TCP_EOF, b''), (65535, ssnet.CMD_TCP_DATA, b'')]
    s2 = b''.join(encode(f) for f in f2)                          # 16 bytes, two empty payloads
    pats = list(all_cuts(len(s2)))
    if not ctx.thorough:
        pats = rng.sample(pats, 3000)
    for cuts in pats:
        logs.append(cuts_case(ctx, ssnet, s2, cuts, f2))
    # single and double cuts of a longer stream
    for _ in range(ctx.scale(2, 12)):
        fs = [rand_frame(rng, ssnet, False) for _ in range(rng.randrange(2, 6))]
        st = b''.join(encode(f) for f in fs)[:300]
        fs_dec = []
        pos = 0
        for f in fs:
            if pos + 8 + len(f[2]) > len(st):
                break                      # the first frame that does not fit ends the stream
            fs_dec.append(f)
            pos += 8 + len(f[2])
        st = st[:pos]
        n = len(st)
        for i in range(1, n):
            logs.append(cuts_case(ctx, ssnet, st, [i], fs_dec))
        pairs = [(i, j) for i in range(1, n) for j in range(i + 1, n)]
        for i, j in (pairs if ctx.thorough else rng.sample(pairs, min(len(pairs), 400))):
            logs.append(cuts_case(ctx, ssnet, st, [i, j], fs_dec))
    # random pipe interleavings
    for i in range(ctx.scale(150, 3000)):
        logs.append(pipe_case(ctx, ssnet, rng, rng.randrange(5, 60), big_ok=(i % 25 == 0)))
    for _ in range(ctx.scale(150, 2000)):
        logs.append(garbage_case(ssnet, rng))
    # handshake
    sync = b'\0\0SSHUTTLE0001'
    pats = list(all_cuts(len(sync)))
    if not ctx.thorough:
        pats = [[6]] + rng.sample(pats, 1500)
    for cuts in pats:
        logs.append(hs_case(ctx, chunk_by(sync, cuts)))
    for _ in range(ctx.scale(400, 6000)):
        noise1 = bytes(rng.randrange(1, 256) for _ in range(rng.choice([0, 0, 1, 5, 40])))
        noise2 = bytes(rng.randrange(1, 256) for _ in range(rng.choice([0, 0, 0, 1, 3])))
        body = rng.choice([b'SSHUTTLE0001'] * 6 + [b'SSHUTTLE0002', b'SSHUTTLE000', b'', b'SSHU',
                                                   b'sshuttle0001', b'\0SSHUTTLE0001'])
        tail = bytes(rng.getrandbits(8) for _ in range(rng.choice([0, 0, 1, 8, 30])))
        if len(body) < 12:
            tail = b''
        stream = rng.choice([noise1 + b'\0' + noise2 + b'\0' + body + tail] * 8 +
                            [noise1, noise1 + b'\0' + noise2, b''])
        n = len(stream)
        ncuts = rng.choice([0, 1, 2, 3, n // 2, n])
        cuts = sorted(set(rng.randrange(1, n) for _ in range(ncuts))) if n > 1 else []
        logs.append(hs_case(ctx, chunk_by(stream, cuts)))
    return logs


def compare(ctx, logs):
    if not ctx.model_available:
        ctx.notes.append('model driver unavailable: correspondence skipped, oracle only')
        return
    ins = []
    for lg in logs:
        ins.extend(lg.ins)
    outs = common.LeanBatch('C07').run(ins)
    if len(outs) != len(ins):
        ctx.corr_break('C07', case=None, impl='%d lines' % len(ins), model='%d lines' % len(outs),
                       note='driver output length differs')
        return
    pos = 0
    for lg in logs:
        n = len(lg.ins)
        mo = outs[pos:pos + n]
        pos += n
        if mo != lg.outs:
            i = next(k for k in range(n) if mo[k] != lg.outs[k])
            ctx.corr_break(lg.kind, case=lg.ins[:i + 1], impl=lg.outs[i], model=mo[i])
            if len(ctx.corr_breaks) > 20:
                return


def run(ctx):
    _rot[0] = int(ctx.seed) % len(VERBS)
    logs = gen_cases(ctx)
    for lg in logs:
        ctx.count()
        ctx.hist(lg.kind)
        ctx.mark(lg.ins, lg.nontrivial)
    for kind in ('pipe', 'cuts', 'garbage', 'handshake', 'send-domain', 'bulk', 'backlog', 'ping-mid-frame'):
        for lg in logs:
            if lg.kind == kind:
                ctx.sample(dict(kind=kind, input=[l[:120] for l in lg.ins[:8]], real_code_output=[l[:120] for l in lg.outs[:8]]))
                break
    compare(ctx, logs)
    ssnet, client, helpers = _mods()
    for grant, lens_ in ((4096, (0, 1, 2048, 65535)), (1, (0, 5, 40)), (100000, (2048,) * 20), (16383, (16384, 16385, 3))):
        transport_shim_case(ctx, ssnet, helpers, grant, lens_)
        ctx.count()
        ctx.hist('transport-shim')
        ctx.mark(('transport-shim', grant), True)


def replay(ctx, rep):
    ssnet, client, helpers = _mods()
    case = rep['case']
    _rot[0] = VERBS.index(case.get('verbose', 0)) if case.get('verbose', 0) in VERBS else 0   # directed cases re-run at the recorded level
    if case.get('stream') == 'ping-mid-frame':
        import random
        c2 = type(ctx)(ctx.prop_id, 'quick', 0)
        ping_during_partial_write(c2, ssnet, random.Random(0), case['grant'], case['payload_len'])
        return bool(c2.violations), (c2.violations[0]['observed'] if c2.violations else 'stream decodes to the frames sent')
    if case.get('stream') == 'transport-shim':
        c2 = type(ctx)(ctx.prop_id, 'quick', 0)
        transport_shim_case(c2, ssnet, helpers, case['grant'], tuple(case['payload_lens']))
        return bool(c2.violations), (str(c2.violations[0]['observed']) if c2.violations else 'the shim hands on the bytes written')
    if case.get('stream') == 'backlog':
        c2 = type(ctx)(ctx.prop_id, 'quick', 0)
        backlog_case(c2, ssnet, case['nframes'], case['payload_len'], case['grant'])
        return bool(c2.violations), (str(c2.violations[0]['observed']) if c2.violations else 'the messages decoded are the messages sent')
    if case.get('stream') == 'big-frame':
        c2 = type(ctx)(ctx.prop_id, 'quick', 0)
        big_frame_case(c2, ssnet, case['payload_len'], tuple(case['reads']))
        return bool(c2.violations), (str(c2.violations[0]['observed']) if c2.violations else 'the frame is read and decoded')
    if case.get('stream') == 'handshake':
        chunks = [common.unhex(c) for c in case['chunks']]
        CUR[0] = case.get('verbose', 0)
        kind, val = run_handshake(chunks)
        exp = hs_expected(b''.join(chunks))
        return (kind, val) != exp, 'real code: %s %r; bytes alone say: %s %r' % (kind, val, exp[0], exp[1])
    # mux op list
    p = Pair(ssnet, verbose=case.get('verbose', 0))
    for line in case['ops']:
        w = line.split()
        if w[0] == 'send':
            p.send(None if w[1] == 'N' else int(w[1]), int(w[2]), common.unhex(w[3]))
        elif w[0] == 'flush':
            p.flush(None if w[1] == 'N' else int(w[1]))
        elif w[0] == 'handle':
            p.handle(w[1], common.unhex(w[2]))
    if case.get('stream') == 'mux-cuts':
        bad = p.dead or show_frames(p.delivered) != case['frames']
        return bad, 'delivered %s' % show_frames(p.delivered)[:200]
    bad = p.dead or p.delivered != p.sent[:len(p.delivered)]
    return bad, 'delivered %d of %d sent, receiver_failed=%s' % (len(p.delivered), len(p.sent), p.dead)
