"""C09 — latency control bounds queued stream data and never wedges the tunnel.

Engine: the tunnel simulator of C01 with check_fullness rounds.  Oracle on the real run, from
the frames actually queued by the real Mux objects: between the moment an end becomes too_full
and the moment its PONG is processed no TCP_DATA frame is queued by that end; at most one
'rttest' PING is outstanding per end; one Proxy.callback queues at most the 2048-byte cut of
stream payload; after a fair drain (PONGs delayed arbitrarily in between) no end is too_full
and every byte is delivered; with latency control off too_full never becomes true.  Also:
the server starts with every buffer size the option parser accepts (0 included).
"""
import io
import os
import struct
import sys

import tunnel_gen as tg
import tunnel_sim as ts
from tunnel_sim import Io

RULE = ("scenario = bulk transfers in one or both directions on 1..4 flows with buffer sizes {0,1,5,6,7,100,2047,2048,"
        "2049,32768,10^6}, check_fullness after random callbacks, PING/PONG delivery delayed by the scheduler, latency "
        "control on or off; per step the frames newly queued by each real Mux are inspected; non-trivial = an end "
        "became too_full at least once (on) / transferred > buffer size (off); distinct = distinct step script")
DRIVER_TARGETS = ['SshuttleModel.Code.Tunnel']
DRIVERS = ['Tunnel']
ASSUMPTIONS = [
    "as C01; with a buffer size below the 6-byte 'rttest' payload the two ends keep exchanging PING/PONG (each PONG is "
    "itself over budget): that is chatter, not a wedge, and quiescence is judged on flows and non-control frames",
]
MANIFEST = dict(
    level_text=("Lean 4 theorems over the Mux latency model inside the tunnel world: while too_full, MuxWrapper.uwrite "
                "takes nothing and a Proxy.callback queues no TCP_DATA frame and never changes too_full (C09_gate_uwrite, "
                "C09_gate); check_fullness queues exactly one rttest PING when it pauses and nothing while paused "
                "(C09_ping_once); a callback adds at most the 2048-byte cut to fullness (C09_callback_bound, the "
                "per-callback overshoot constant), any n callbacks between two check_fullness calls at most n x 2048, so one pass "
                "of runonce (at most four callbacks per handler: one per entry of its socks list) exceeds the budget by at most "
                "4 x 2048 bytes per active connection (C09_callbacks_overshoot, C09_pass_overshoot); a PING is answered by a PONG whatever the receiver's own state and a "
                "PONG lifts the pause (C09_ping_answered); for EVERY schedule a paused end has its PING or the answering "
                "PONG still in flight (C09_answered), so a drained tunnel is never paused (C09_drained_not_full); with "
                "check_fullness never called too_full stays false in every reachable state (C09_off). Replayed against "
                "the real Mux objects; gate, ping-once, bound, resume and server start-up with every buffer size are "
                "checked on the real code."),
    level_note=("Trusted: as C01. Actual latency and the OS socket buffer in front of ssh are outside. That the server's loop "
                "returns to select (no handler blocks on a descriptor select did not report: host-watch bursts around the read "
                "size, then a PING, through the real server.main wiring) is decided on the real code only, not by a theorem; that a pass "
                "handles every frame that has arrived, and that a PING among them has its PONG queued by the end of that pass, "
                "are theorems over the model of the pass (C09_pass_handles_every_arrived_frame, C09_ping_answered_in_the_pass, "
                "Props/C09_Frames.lean) and are checked on the real runonce / Mux.handle. Defect found and "
                "repaired: server.main raised UnboundLocalError for --latency-buffer-size 0 (see known_findings/C09.json)."),
    technique="Lean 4 proof (invariants of the latency state machine over all schedules) + differential replay + wire-log oracle",
)


def frames_of(mux, n0):
    out = []
    for p in mux.outbuf[n0:]:
        (_a, _b, chan, cmd, n) = struct.unpack('!ccHHH', p[:8])
        out.append((chan, cmd, n, p[8:]))
    return out


class Watch:
    """Observes the real Mux objects around every step."""

    def __init__(self, sc, latency):
        self.sc = sc
        self.latency = latency
        self.pings = {'c': 0, 's': 0}      # outstanding rttest PINGs per end
        self.was_full = {'c': False, 's': False}
        self.episodes = 0

    def before(self):
        t = self.sc.t
        self.n0 = {'c': len(t.cmux.outbuf), 's': len(t.smux.outbuf)}
        self.full0 = {'c': t.cmux.too_full, 's': t.smux.too_full}
        self.fullness0 = {'c': t.cmux.fullness, 's': t.smux.fullness}

    def after(self, ctx, st):
        t, ss = self.sc.t, self.sc.t.ssnet
        cut = 2048
        for end, mux in (('c', t.cmux), ('s', t.smux)):
            # frames queued by this step (a deliver pops from the *other* end's queue, never from this one,
            # except that the queue we popped from shrank by one at the head)
            n0 = self.n0[end]
            if st[0] == 'deliver' and ((st[1] == 's' and end == 'c') or (st[1] == 'c' and end == 's')):
                n0 = max(n0 - 1, 0)
            if st[0] == 'round' and ((st[1] == 's' and end == 'c') or (st[1] == 'c' and end == 's')):
                n0 = 0
                continue      # this end's queue only shrank (its frames were delivered to the peer)
            new = frames_of(mux, n0)
            data = [f for f in new if f[1] == ss.CMD_TCP_DATA]
            # (inside a real round the PONG may arrive and lift the pause before data is queued: judge a round only if
            # the end is still paused afterwards)
            if self.full0[end] and data and (st[0] != 'round' or mux.too_full):
                tg.report(ctx, self.sc, 'C09:gate:stream-data-queued-while-too-full', 0, 'step %r' % (st,),
                          'no TCP_DATA queued between the rttest PING and its PONG',
                          [(c, n) for c, _m, n, _d in data])
                return False
            rt = [f for f in new if f[1] == ss.CMD_PING and f[3] == b'rttest']
            if rt:
                if self.full0[end]:
                    tg.report(ctx, self.sc, 'C09:ping:second-rttest-while-too-full', 0, 'step %r' % (st,),
                              'one rttest per too_full episode', len(rt))
                    return False
                self.episodes += 1
            if st[0] == 'cb' and st[1] == end:
                grown = mux.fullness - self.fullness0[end]
                if grown > cut:
                    tg.report(ctx, self.sc, 'C09:bound:callback-queued-more-than-cut', st[2], 'step %r' % (st,),
                              '<= %d bytes per callback' % cut, grown)
                    return False
            if not self.latency and mux.too_full:
                tg.report(ctx, self.sc, 'C09:off:too-full-with-latency-control-off', 0, 'step %r' % (st,),
                          'too_full stays False', True)
                return False
        return True


def scenario(ctx, rng, o):
    sc = tg.Scenario(rng, o)
    w = Watch(sc, o.latency)
    real_do = sc.do

    def do(st):
        if sc.stop:
            return
        w.before()
        real_do(st)
        if not sc.stop:
            if not w.after(ctx, st):
                sc.stop = True
    sc.do = do
    try:
        t = sc.t
        for _ in range(o.nflows):
            sc.do(('accept',))
        sc.do(('deliver', 's', 'ok'))
        for _ in range(o.nflows):
            sc.do(('deliver', 's', 'ok'))
        total = {}
        for i in range(len(t.flows)):
            for side in (('app', 'dst') if o.both else ('app',)):
                n = rng.choice([3000, 9000, 20000]) if not o.big else (120000 if ctx.tier == 'thorough' else 50000)
                sc.env_write(i, side, tg.payload(rng, n, i * 2 + (side == 'dst')))
        for _ in range(o.steps):
            if sc.stop:
                break
            r = rng.random()
            nf = len(t.flows)
            if nf and r < 0.5:
                sc.do(('cb', rng.choice(['c', 's']), rng.randrange(nf),
                       Io('ok', rng.choice(['d2048', 'd65536', 'd700']), rng.choice(['s65536', 's1000', 'a']), False)))
            elif r < 0.7 and o.latency:
                sc.do(('full', rng.choice(['c', 's'])))
            elif r < 0.88:
                sc.do(('deliver', rng.choice(['c', 's']), 'ok'))
            elif r < 0.94 and o.foreign:
                # datagram / control payload of another flow kind counts towards fullness too
                end = rng.choice(['c', 's'])
                ss = t.ssnet
                cmd = rng.choice([ss.CMD_UDP_DATA, ss.CMD_DNS_RESPONSE if end == 's' else ss.CMD_DNS_REQ])
                sc.do(('foreign', end, 40000 + rng.randrange(50), cmd, tg.payload(rng, rng.choice([10, 600, 1500, 4000]), 77)))
            else:
                sc.do(('idle', rng.choice(['c', 's'])))
            tg.oracle_prefix(ctx, sc, 'C09', 'bulk phase')
        if not sc.stop:
            for i in range(len(t.flows)):
                sc.do(('ae', i))
                sc.do(('de', i))
            q = sc.drain(max_rounds=1500)
            if not sc.stop:
                tg.oracle_complete(ctx, sc, 'C09', q)
                if q and o.bufsize >= 7 and (t.cmux.too_full or t.smux.too_full):
                    tg.report(ctx, sc, 'C09:wedge:too-full-at-quiescence', 0, 'quiescence', 'not too_full',
                              dict(c=t.cmux.too_full, s=t.smux.too_full))
        tg.oracle_alive(ctx, sc, 'C09', 'run')
        return sc.s.ins, sc.s.outs, (w.episodes > 0) if o.latency else True
    finally:
        sc.close()


def pong_then_foreign(ctx, rng, bufsize, extra):
    """The PONG that lifts a pause is followed, before the next check_fullness, by more than the budget of
    payload of another flow kind (a UDP/DNS reply, a host list): the end must ask again and must not stay paused."""
    o = tg.Opts(nflows=1, steps=0, latency=True, bufsize=bufsize)
    sc = tg.Scenario(rng, o)
    w = Watch(sc, True)
    real_do = sc.do

    def do(st):
        if sc.stop:
            return
        w.before()
        real_do(st)
        if not sc.stop and not w.after(ctx, st):
            sc.stop = True
    sc.do = do
    try:
        t = sc.t
        full = Io('ok', 'd65536', 's65536', False)
        sc.do(('accept',))
        sc.do(('deliver', 's', 'ok'))
        sc.do(('deliver', 's', 'ok'))
        sc.env_write(0, 'app', tg.payload(rng, 6 * bufsize + 3000, 3))
        sc.do(('cb', 'c', 0, full))
        sc.do(('full', 'c'))                               # over budget: PING, paused
        while t.cmux.outbuf and not sc.stop:
            sc.do(('deliver', 's', 'ok'))                  # DATA and the PING reach the server; PONG queued
        while t.smux.outbuf and not sc.stop:
            sc.do(('deliver', 'c', 'ok'))                  # PONG reaches the client
        sc.do(('foreign', 'c', 40001, t.ssnet.CMD_UDP_DATA, tg.payload(rng, extra, 9)))
        sc.do(('full', 'c'))
        sc.do(('ae', 0))
        sc.do(('de', 0))
        q = sc.drain(max_rounds=400)
        if not sc.stop:
            tg.oracle_complete(ctx, sc, 'C09', q)
            if q and (t.cmux.too_full or t.smux.too_full):
                tg.report(ctx, sc, 'C09:wedge:too-full-at-quiescence', 0, 'quiescence', 'not too_full',
                          dict(c=t.cmux.too_full, s=t.smux.too_full))
        tg.oracle_alive(ctx, sc, 'C09', 'run')
        return sc.s.ins, sc.s.outs
    finally:
        sc.close()


def queued_payload_bound(ctx, rng, bufsize, peer_takes=False):
    """check_fullness after every callback and no acknowledgement ever arriving (the peer is slow): the stream payload
    queued by this end since the last PONG must stay within the budget plus one frame cut per callback, and the
    rttest PING must have been requested as soon as the budget was exceeded.  With `peer_takes` the local pipe
    takes every frame at once (this end's queue is empty whenever check_fullness runs) — what is in flight is
    still unacknowledged, so the same bound holds; the count is kept here, from the frames as they are queued."""
    o = tg.Opts(nflows=2, steps=0, latency=True, bufsize=bufsize)
    sc = tg.Scenario(rng, o)
    try:
        t = sc.t
        ss = t.ssnet
        full = Io('ok', 'd65536', 's65536', False)
        for _ in range(2):
            sc.do(('accept',))
        for _ in range(3):
            sc.do(('deliver', 's', 'ok'))
        if sc.stop or len(t.flows) < 2:
            return sc.s.ins, sc.s.outs
        for i in range(2):
            sc.env_write(i, 'app', tg.payload(rng, 12 * 2048, 5 + i))
        queued, pings = 0, 0
        for k in range(16):
            if sc.stop:
                break
            n0 = len(t.cmux.outbuf)
            sc.do(('cb', 'c', k % 2, full))
            new = frames_of(t.cmux, n0)
            if peer_takes:
                while t.cmux.outbuf and not sc.stop:
                    sc.do(('deliver', 's', 'ok'))      # the frames leave; the answer (if any) stays at the server
                n0 = 0
            else:
                n0 += len(new)
            sc.do(('full', 'c'))
            new += frames_of(t.cmux, n0)
            queued += sum(n for (_c, cmd, n, _d) in new if cmd == ss.CMD_TCP_DATA)
            pings += len([f for f in new if f[1] == ss.CMD_PING and f[3] == b'rttest'])
            if queued > bufsize + 2048 * 2:
                tg.report(ctx, sc, 'C09:bound:queued-stream-payload-exceeds-budget', 0, 'callback %d' % k,
                          '<= %d bytes queued while no PONG arrives' % (bufsize + 4096), queued)
                break
            if queued > bufsize and not pings:
                tg.report(ctx, sc, 'C09:ping:budget-exceeded-but-no-rttest-requested', 0, 'callback %d' % k,
                          'an rttest PING once more than %d bytes are queued' % bufsize, 'none (%d bytes queued)' % queued)
                break
        tg.oracle_alive(ctx, sc, 'C09', 'run')
        return sc.s.ins, sc.s.outs
    finally:
        sc.close()


def server_start(ctx):
    """The server must start for every buffer size the option parser can hand it."""
    for size in (0, 1, 32768):
        ctx.count()
        ctx.hist('server-start')
        ctx.mark(('server-start', size), True)
        try:
            t = ts.RealTunnel(bufsize=size)
            t.close()
        except Exception as e:  # noqa
            ctx.violation('C09:server-main:buffer-size-%s:exception-%s' % (size, type(e).__name__),
                          case=dict(kind='server-start', bufsize=size),
                          expected='server.main starts and announces itself for every --latency-buffer-size',
                          observed=repr(e))


def loop_wiring(ctx, only=None):
    """'With latency control enabled … asks the peer for an acknowledgement; with latency control disabled no pauses
    are introduced' is decided by how the two MAIN LOOPS call check_fullness, not by Mux alone: the real server.main
    and the real client._main are run for one iteration in which the budget they were CONFIGURED with has just been
    exceeded (select reports nothing, so the real runonce makes an idle pass); after that iteration the end must be
    paused with one rttest PING queued if and only if it was started with latency control on — wherever the call to
    check_fullness lives (in the loop, in runonce, behind whichever flag)."""
    import sshuttle.server as server
    import sshuttle.client as client
    import sshuttle.ssnet as ssnet
    import sshuttle.helpers as helpers
    from sshuttle import ssh as ssh_mod
    from props import c07

    class Halt(Exception):
        pass

    def one(end, lc, size):
        state = {}
        real_runonce = ssnet.runonce
        real_select = ssnet.select
        saved = dict(buf=ssnet.LATENCY_BUFFER_SIZE, nbio=ssnet.set_non_blocking_io, stderr=sys.stderr, stdout=sys.stdout,
                     verbose=helpers.verbose, io=server.io, connect=ssh_mod.connect)

        class NoSelect:
            def select(self, r, w, x, *a):
                return [], [], []

            def __getattr__(self, n):
                return getattr(real_select, n)

        def wrapped(handlers, mux, *a, **k):
            if 'mux' in state:
                raise Halt()
            state['mux'] = mux
            mux.too_full = False
            del mux.outbuf[:]
            mux.fullness = size + 1            # this pass queued one byte more than the configured budget
            return real_runonce(handlers, mux, *a, **k)

        class FakeIoMod:
            @staticmethod
            def FileIO(fd, mode='r'):
                return ts.DummyFile(902 + fd)
        ssnet.set_non_blocking_io = lambda fd: None
        ssnet.select = NoSelect()
        ssnet.runonce = wrapped
        sys.stderr = io.StringIO()
        sys.stdout = io.StringIO()
        helpers.verbose = 0
        err = None
        try:
            try:
                if end == 'server':
                    server.io = FakeIoMod
                    server.main(lc, size, False, None, False)
                else:
                    stream = b'\0\0SSHUTTLE0001'
                    proc = c07.FakeProc()
                    proc.poll = lambda: None
                    ssh_mod.connect = lambda *a, **k: (proc, c07.RawReader([stream]), c07.ScriptedW())
                    # cmdline.main is what sets the budget on the client side (cmdline.py: ssnet.LATENCY_BUFFER_SIZE = …)
                    ssnet.LATENCY_BUFFER_SIZE = size
                    client._main(c07.FakeListener(), None, c07.FakeFw(), None, 'host', None, lc, size,
                                 None, None, False, False, False, None, False, None)
            except Halt:
                pass
            except Exception as e:  # noqa
                err = '%s: %s' % (type(e).__name__, str(e)[:120])
        finally:
            ssnet.runonce = real_runonce
            ssnet.select = real_select
            ssnet.LATENCY_BUFFER_SIZE = saved['buf']
            ssnet.set_non_blocking_io = saved['nbio']
            sys.stderr, sys.stdout = saved['stderr'], saved['stdout']
            helpers.verbose = saved['verbose']
            server.io = saved['io']
            ssh_mod.connect = saved['connect']
        mux = state.get('mux')
        if mux is None:
            return 'the loop was never entered (%s)' % err
        pings = [f for f in frames_of(mux, 0) if f[1] == ssnet.CMD_PING and f[3] == b'rttest']
        if err:
            return 'the loop ended with %s' % err
        if lc and (not mux.too_full or len(pings) != 1):
            return 'latency control ON, %d bytes queued against a budget of %d: too_full=%s, rttest PINGs=%d' % (
                size + 1, size, mux.too_full, len(pings))
        if not lc and (mux.too_full or pings):
            return 'latency control OFF: too_full=%s, rttest PINGs=%d' % (mux.too_full, len(pings))
        return None

    for end in ('server', 'client'):
        for lc in (True, False):
            for size in (2048, 32768, 100000):
                if only is not None and only != [end, lc, size]:
                    continue
                ctx.count()
                ctx.hist('loop-wiring')
                ctx.mark(('loop-wiring', end, lc, size), True)
                bad = one(end, lc, size)
                if bad:
                    ctx.violation('C09:wiring:%s-loop-%s' % (end, 'does-not-check-fullness' if lc else 'pauses-with-latency-control-off'),
                                  case=dict(kind='loop-wiring', end=end, latency_control=lc, size=size),
                                  expected='after an iteration that exceeded the configured budget: paused with one rttest PING '
                                           'iff latency control is on', observed=bad)


def server_loop_keeps_answering(ctx, only=None):
    """'Every such request is eventually answered' needs the server's loop to come back to select: a handler that
    blocks (reads again from a descriptor select did not report) stops every PONG.  Real server.main wiring, real
    ssnet.runonce; the host-watch child is a scripted socket whose recv() with nothing pending is the blocking call
    it would be on a real socket.  Bursts of host-watch output around the 4096-byte read size, then a PING."""
    import struct
    import sshuttle.server as server
    import sshuttle.ssnet as ssnet

    class Blocked(BaseException):
        pass

    class HwSock:
        def __init__(self):
            self.data = b''

        def recv(self, n):
            if not self.data:
                raise Blocked()
            out, self.data = self.data[:n], self.data[n:]
            return out

        def fileno(self):
            return 4242

    def frame(chan, cmd, data):
        return struct.pack('!ccHHH', b'S', b'S', chan, cmd, len(data)) + data

    for size in (1, 100, 4095, 4096, 4097, 8192, 12288):
        if only is not None and only != size:
            continue
        ctx.count()
        ctx.hist('directed:hostwatch-burst')
        ctx.mark(('hostwatch-burst', size), True)
        t = ts.RealTunnel(bufsize=32768)
        saved = server.start_hostwatch
        hws = HwSock()
        what = None
        try:
            server.start_hostwatch = lambda seed, auto: (4243, hws)
            t.smux.got_host_req = t.real_got_host_req

            def one_pass(frames):
                t.smux.rfile.data = b''.join(frames)
                t.ready = (([t.smux.rfile] if frames else []) + ([hws] if hws.data else []), [t.smux.wfile], [])
                try:
                    ssnet.runonce(t.shandlers, t.smux)
                finally:
                    t.smux.rfile.data = b''
                    t.ready = ([], [], [])
            try:
                one_pass(list(t.cmux.outbuf) + [frame(0, ssnet.CMD_HOST_REQ, b'')])
                line = b'host-%d,192.0.2.7\n'
                body = b''
                k = 0
                while len(body) + 40 < size:
                    body += line % k
                    k += 1
                pad = size - len(body)
                body += (b'h' * max(pad - 11, 0) + b',192.0.2.8\n')[-pad:] if pad > 0 else b''
                hws.data = body[:size].ljust(size, b'x')
                for _ in range(12):
                    if not hws.data:
                        break
                    one_pass([])
                n0 = len(t.smux.outbuf)
                one_pass([frame(0, ssnet.CMD_PING, b'rttest')])
                pongs = [p for p in t.smux.outbuf[n0:] if struct.unpack('!ccHHH', p[:8])[3] == ssnet.CMD_PONG and p[8:] == b'rttest']
                if not pongs:
                    what = 'no PONG queued for the PING that followed the burst'
            except Blocked:
                what = 'a handler called recv() on the host-watch socket with nothing pending: the loop blocks there and answers no PING'
            except Exception as e:  # noqa
                what = 'server loop raised %s: %s' % (type(e).__name__, e)
        finally:
            server.start_hostwatch = saved
            t.close()
        if what:
            ctx.violation('C09:server-loop:ping-not-answered-after-hostwatch-burst',
                          case=dict(kind='hostwatch-burst', size=size),
                          expected='the PING that follows %d bytes of host-watch output is answered' % size, observed=what)
            break


def ping_behind_a_failing_frame(ctx, only=None):
    """'Every such request is eventually answered', at the frame level: the peer's rttest PING arrives in the same read
    as, and right behind, a frame whose handling fails at the operating-system boundary of ONE flow (a UDP datagram
    whose sendto() is refused).  Whatever happens to that datagram, every complete frame that has arrived is handled in
    that pass — the PING among them: a PING left in the input buffer is answered only when the peer sends more, and the
    peer, paused, sends nothing.  Real server.main wiring, real ssnet.runonce and Mux.handle; only the datagram socket
    is scripted."""
    import errno as _errno
    import sshuttle.server as server
    import sshuttle.ssnet as ssnet

    def frame(chan, cmd, data):
        return struct.pack('!ccHHH', b'S', b'S', chan, cmd, len(data)) + data

    cases = [(e, before, after) for e in (_errno.EACCES, _errno.ENETUNREACH, _errno.EINVAL, _errno.EMSGSIZE, _errno.EPERM)
             for before, after in ((0, 0), (2, 1))]
    for (eno, before, after) in cases:
        if only is not None and only != [eno, before, after]:
            continue
        ctx.count()
        ctx.hist('directed:ping-behind-failing-frame')
        ctx.mark(('ping-behind-failing-frame', eno, before, after), True)
        t = ts.RealTunnel(bufsize=32768)
        saved_socket = server.socket
        what = None

        class RefusingUdp:
            def __init__(self, *a):
                pass

            def sendto(self, data, dst):
                raise OSError(eno, 'scripted: ' + os.strerror(eno))

            def fileno(self):
                return 4711

            def close(self):
                pass

            def setsockopt(self, *a):
                pass

            def bind(self, *a):
                pass

        class SockMod:
            def __getattr__(self, n):
                return getattr(saved_socket, n)

            def socket(self, family, kind=saved_socket.SOCK_STREAM, *a):
                if kind == saved_socket.SOCK_DGRAM:
                    return RefusingUdp()
                return saved_socket.socket(family, kind, *a)
        try:
            server.socket = SockMod()
            t.smux.got_udp_open = t.real_got_udp_open

            def one_pass(frames):
                t.smux.rfile.data = b''.join(frames)
                t.ready = (([t.smux.rfile] if frames else []), [t.smux.wfile], [])
                try:
                    ssnet.runonce(t.shandlers, t.smux)
                finally:
                    t.smux.rfile.data = b''
                    t.ready = ([], [], [])
            try:
                one_pass(list(t.cmux.outbuf))
                del t.cmux.outbuf[:]
                n0 = len(t.smux.outbuf)
                burst = [frame(7, ssnet.CMD_UDP_OPEN, b'2')]
                burst += [frame(7, ssnet.CMD_UDP_DATA, b'198.51.100.9,9,ok-%d' % i) for i in range(before)]
                burst += [frame(7, ssnet.CMD_UDP_DATA, b'255.255.255.255,9,refused')]
                burst += [frame(0, ssnet.CMD_PING, b'rttest')]
                burst += [frame(7, ssnet.CMD_UDP_DATA, b'198.51.100.9,9,later-%d' % i) for i in range(after)]
                one_pass(burst)
                one_pass([])            # an idle pass: the peer, paused, sends nothing more
                pongs = [p for p in t.smux.outbuf[n0:]
                         if struct.unpack('!ccHHH', p[:8])[3] == ssnet.CMD_PONG and p[8:] == b'rttest']
                if len(pongs) != 1:
                    what = ('%d PONG(s) for the rttest PING that arrived behind a datagram whose sendto() failed with %s; '
                            '%d byte(s) of complete frames left unhandled in the input buffer'
                            % (len(pongs), _errno.errorcode.get(eno, eno), len(t.smux.inbuf)))
            except Exception as e:  # noqa
                what = 'server loop raised %s: %s' % (type(e).__name__, e)
        finally:
            server.socket = saved_socket
            t.close()
        if what:
            ctx.violation('C09:server-loop:ping-behind-a-failing-frame-not-answered',
                          case=dict(kind='ping-behind-failing-frame', errno=eno, before=before, after=after),
                          expected='the rttest PING is answered in the pass in which it arrived', observed=what)
            break


def pause_lifted_over_short_writes(ctx, only=None):
    """The pause and its acknowledgement one layer down, on the ssh pipe itself: end A, over its budget, queues the
    rttest PING behind its data; both pipes take only part of what they are offered (a pipe that is nearly full, a
    frame larger than what the pipe takes at once), with the cut falling inside the data, inside the PING, inside the
    PONG.  Whatever the cuts, B decodes A's frames intact, answers the PING, and A's pause is lifted.  Real Mux.send /
    check_fullness / flush / handle / got_packet on both ends; only the two pipes are scripted."""
    from props import c07
    import random
    ssnet, _client, _helpers = c07._mods()
    plans = [('tiny', [5]), ('one', [1]), ('hdr', [8]), ('hdr+1', [9]), ('odd', [2047, 3, 11]), ('mixed', [1500, 7, 64, 1, 4096]),
             ('big-then-5', [1 << 20, 5]), ('5-then-big', [5, 1 << 20])]
    for budget in (2048, 5000):
        for name, grants in plans:
            if only is not None and only != [budget, name]:
                continue
            ctx.count()
            ctx.hist('directed:pause-over-short-writes')
            ctx.mark(('pause-over-short-writes', budget, name), True)
            saved = ssnet.LATENCY_BUFFER_SIZE
            what = None
            try:
                ssnet.LATENCY_BUFFER_SIZE = budget
                ar, aw = c07.ScriptedR(), c07.ScriptedW()
                br, bw = c07.ScriptedR(), c07.ScriptedW()
                a, b = ssnet.Mux(ar, aw), ssnet.Mux(br, bw)
                got = []
                b.channels[7] = lambda cmd, data: got.append(bytes(data))
                rnd = random.Random(budget * 131 + len(name))
                payload = [bytes(rnd.randrange(256) for _ in range(2048)) for _ in range(budget // 2048 + 2)]
                for chunk in payload:
                    a.send(7, ssnet.CMD_TCP_DATA, chunk)
                a.check_fullness()
                if not a.too_full:
                    what = 'harness: the sender is not over its budget'
                apos = bpos = 0
                k = 0
                for _ in range(20000):
                    if what or not (a.outbuf or b.outbuf or apos < len(aw.written) or bpos < len(bw.written)):
                        break
                    for (m, w) in ((a, aw), (b, bw)):
                        if m.outbuf:
                            w.grant = grants[k % len(grants)]
                            k += 1
                            m.flush()
                    if apos < len(aw.written):
                        n = min(len(aw.written) - apos, budget)      # one read of the tunnel takes at most the budget
                        br.next = ('d', aw.written[apos:apos + n])
                        apos += n
                        b.handle()
                    if bpos < len(bw.written):
                        n = min(len(bw.written) - bpos, budget)
                        ar.next = ('d', bw.written[bpos:bpos + n])
                        bpos += n
                        a.handle()
                if what is None and b''.join(got) != b''.join(payload):
                    what = 'the peer decoded %d of %d payload bytes (or other bytes)' % (len(b''.join(got)), len(b''.join(payload)))
                if what is None and a.too_full:
                    what = ('both pipes drained, the sender is still paused: its rttest PING was never acknowledged '
                            '(peer decoded %d payload bytes)' % len(b''.join(got)))
            except Exception as e:  # noqa
                what = 'raised %s: %s' % (type(e).__name__, str(e)[:160])
            finally:
                ssnet.LATENCY_BUFFER_SIZE = saved
            if what:
                ctx.violation('C09:wire:pause-not-lifted-over-short-writes',
                              case=dict(kind='pause-over-short-writes', budget=budget, plan=name),
                              expected='the peer gets the frames intact, answers the rttest PING, the pause is lifted '
                                       '(pipe grants per write: %r, cyclically)' % (grants,), observed=what)
                return


def run(ctx):
    rng = ctx.rng
    tg.set_verbosity_seed(ctx.seed)
    server_start(ctx)
    pause_lifted_over_short_writes(ctx)
    loop_wiring(ctx)
    server_loop_keeps_answering(ctx)
    ping_behind_a_failing_frame(ctx)
    all_in, all_out = [], []
    for tag, fn in ([('bound-%d' % b, (lambda b=b: queued_payload_bound(ctx, rng, b))) for b in (2048, 5000)] +
                    [('bound-taken-%d' % b, (lambda b=b: queued_payload_bound(ctx, rng, b, True))) for b in (2048, 5000)] +
                    [('burst-%d' % n, (lambda n=n, b=b: tg.burst_in_one_read(ctx, rng, 'C09', n, bufsize=b, latency=True)))
                     for n, b in ((120, 300), (1200, 3500))]):
        ins, outs = fn()
        all_in.append(ins)
        all_out.append(outs)
        ctx.count()
        ctx.mark(('directed', tag), True)
        ctx.hist('directed:' + tag.split('-')[0])
    for bufsize, extra in ((512, 1200), (100, 101), (2048, 4000)):
        ins, outs = pong_then_foreign(ctx, rng, bufsize, extra)
        all_in.append(ins)
        all_out.append(outs)
        ctx.count()
        ctx.mark(('pong-then-foreign', bufsize), True)
        ctx.hist('directed:pong-then-foreign')
    # every verbosity with latency control on and off, over budget: what the rotations bring together only by the luck of
    # their phases is here by construction (a debug line that evaluates check_fullness() pauses a tunnel that must not pause)
    for verbose in (0, 1, 2, 3, 13):
        for lat in (False, True):
            o = tg.Opts(nflows=1, steps=40, latency=lat, bufsize=2048, both=True, verbose=verbose, platform=0, clock=0)
            ins, outs, nontrivial = scenario(ctx, rng, o)
            all_in.append(ins)
            all_out.append(outs)
            ctx.count()
            ctx.mark(('verbosity-x-latency', verbose, lat), True)
            ctx.hist('directed:verbosity-x-latency')
    n = ctx.scale(36, 1200)
    for k in range(n):
        o = tg.Opts(nflows=rng.choice([1, 2, 3, 4]), steps=rng.randrange(30, 120), latency=(k % 4 != 0),
                    bufsize=rng.choice([1, 5, 6, 7, 100, 2047, 2048, 2049, 32768, 1000000]),
                    big=(k % 17 == 0), both=rng.random() < 0.5, foreign=(k % 2 == 1))
        ins, outs, nontrivial = scenario(ctx, rng, o)
        all_in.append(ins)
        all_out.append(outs)
        ctx.count()
        ctx.mark(tuple(ins), nontrivial)
        ctx.hist('latency-on' if o.latency else 'latency-off')
        ctx.hist('buf=%d' % o.bufsize)
        if k < 2:
            ctx.sample(dict(bufsize=o.bufsize, latency=o.latency, script=ins[:10]))
        if len(ctx.violations) > 3:
            break
    tg.compare(ctx, all_in, all_out, 'C09')


def replay_bound(case):
    """Re-run the recorded steps on the real code and count, from the frames as the client queues them, the stream
    payload queued since the last PONG reached it; judged after every check_fullness."""
    cfg = case['script'][0].split()
    bufsize = int(cfg[2])
    s = ts_script(case)
    try:
        t, ss = s.t, s.t.ssnet
        queued, pings = 0, 0
        for st in tg.decode_steps(case['steps']):
            n0 = len(t.cmux.outbuf)
            pong = (st[0] == 'deliver' and st[1] == 'c' and t.smux.outbuf and
                    struct.unpack('!ccHHH', t.smux.outbuf[0][:8])[3] == ss.CMD_PONG)
            if not s.do(st):
                break
            if pong:
                queued, pings = 0, 0
            if not (st[0] in ('deliver', 'round') and st[1] == 's'):
                new = frames_of(t.cmux, n0)
                queued += sum(n for (_c, cmd, n, _d) in new if cmd == ss.CMD_TCP_DATA)
                pings += len([f for f in new if f[1] == ss.CMD_PING and f[3] == b'rttest'])
            if st[0] == 'full' and st[1] == 'c':
                if queued > bufsize + 4096:
                    return True, '%d bytes of stream payload queued with no PONG (budget %d)' % (queued, bufsize)
                if queued > bufsize and not pings:
                    return True, 'no rttest PING with %d bytes queued (budget %d)' % (queued, bufsize)
        return False, 'the queued payload stays within the budget and the PING is requested'
    finally:
        s.close()


def ts_script(case):
    import tunnel_sim
    cfg = case['script'][0].split()
    return tunnel_sim.Script(int(cfg[1]), int(cfg[2]), int(cfg[3]), [int(x) for x in cfg[4:]])


def replay(ctx, rep):
    case = rep['case']
    if case.get('kind') == 'server-start':
        c2 = type(ctx)(ctx.prop_id, 'quick', 0)
        server_start(c2)
        hit = [v for v in c2.violations if v['key'] == rep['key']]
        return bool(hit), (hit[0]['observed'] if hit else 'server starts')
    if case.get('kind') == 'loop-wiring':
        c2 = type(ctx)(ctx.prop_id, 'quick', 0)
        loop_wiring(c2, only=[case['end'], case['latency_control'], case['size']])
        return bool(c2.violations), (str(c2.violations[0]['observed']) if c2.violations else 'the loop checks fullness iff latency control is on')
    if case.get('kind') == 'hostwatch-burst':
        c2 = type(ctx)(ctx.prop_id, 'quick', 0)
        server_loop_keeps_answering(c2, only=case['size'])
        hit = [v for v in c2.violations if v['key'] == rep['key']]
        return bool(hit), (hit[0]['observed'] if hit else 'the PING after the burst is answered')
    if case.get('kind') == 'pause-over-short-writes':
        c2 = type(ctx)(ctx.prop_id, 'quick', 0)
        pause_lifted_over_short_writes(c2, only=[case['budget'], case['plan']])
        hit = [v for v in c2.violations if v['key'] == rep['key']]
        return bool(hit), (hit[0]['observed'] if hit else 'frames intact, PING answered, pause lifted')
    if case.get('kind') == 'ping-behind-failing-frame':
        c2 = type(ctx)(ctx.prop_id, 'quick', 0)
        ping_behind_a_failing_frame(c2, only=[case['errno'], case['before'], case['after']])
        hit = [v for v in c2.violations if v['key'] == rep['key']]
        return bool(hit), (hit[0]['observed'] if hit else 'the PING behind the failing datagram is answered in the same pass')
    if rep['key'].startswith(('C09:bound:queued', 'C09:ping:budget')):
        return replay_bound(case)
    if ':work:' in rep.get('key', ''):
        return tg.replay_work(case)
    s, wrote = tg.replay_script(case)
    try:
        common_verdict = tg.replay_common(s)
        if common_verdict:
            return common_verdict
        t = s.t
        if t.died:
            return True, 'process died: %s' % t.died
        return False, 'recorded schedule replays without death (gate/bound are judged step by step in a full run)'
    finally:
        s.close()
