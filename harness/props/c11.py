"""C11 — forwarded UDP keeps datagram boundaries, payload and addressing.

Correspondence: the real client (`MultiListener.add_handler` -> `onaccept_udp`, `udp_done`,
`expire_connections`, tproxy `recv_udp`/`send_udp`, a real `Mux`) and the real `server.main`
loop (`udp_open`, `udp_req`, `UdpProxy`, the udphandlers sweep) on fake datagram sockets and a
scripted clock (harness/dgram_engine.py) against the Lean code model.
Oracle: the engine's record of captured datagrams, associations and remote replies versus the
`sendto` calls the fake server sockets and the client's transparent sender sockets received.
"""
import dgram_engine as E

RULE = ("cases = scenarios over the real client and server ends (tproxy method): UDP datagram captured from 9 IPv4/IPv6 "
        "sources (IPv6 as 4-tuples) to 7 destinations with payloads empty/1/512/4096/4097/all-commas/'1.2.3.4,53,'-"
        "prefixed/random, interleaved DNS captures and other accepts, clock advance around the 30 s horizon, server "
        "round reading n frames (sendto errors scripted), replies from several remote hosts or a recvfrom error on a "
        "chosen server socket, frame delivered to the client, injected frames, ids occupied by other flows; corpus for "
        "expiry at 30 s -1/0/+1 tick, refresh of an overdue association, recv and sendto errors; every tenth random "
        "scenario uses MAX_CHANNEL in {2,3,4,6}; non-trivial = at least two distinct oracle events; "
        "distinct = distinct (cfg, step list)")
MANIFEST = dict(
    level_text=("Machine-checked Lean 4 theorems over a statement-by-statement model of onaccept_udp/udp_done/"
                "expire_connections, udp_open/udp_req/UdpProxy and the header codec: 'ip,port,'+payload splits back "
                "to exactly (ip, port, payload) for every payload (C11_hdr_roundtrip); one UDP_DATA frame and one "
                "sendto with identical payload and the original destination per captured datagram, one frame and one "
                "local datagram per remote reply (C11_one_to_one); one id hence one server socket per source, distinct "
                "sources distinct ids (C11_one_socket_per_source); exact expiry semantics incl. CLOSE/OPEN ordering "
                "(C11_expiry). Tied to the code on every run by a differential run of the real code on fake sockets "
                "plus an implementation-level oracle."),
    level_note=("Trusted: Lean kernel; three standard axioms; harness fakes; tunnel as FIFO of frames (C07). Expiry is "
                "lazy (runs inside accept events): an overdue association that sees traffic before any sweep is "
                "refreshed, not reopened. Id reuse within one server round / with frames in flight breaks the server "
                "or misdelivers for small MAX_CHANNEL (known finding). Server sendto() errors are modelled as 'any errno: logged, the association and its socket stay' (srvGot's UDP_DATA branch records the outcome and changes nothing else); the corpus drives errnos inside and outside NET_ERRS followed by more traffic on the same association (next loop pass and same batch) and replies. IP_TRANSPARENT bind is the kernel's."),
    technique="Lean 4 proof (codec round trip, invariants by induction over step lists) + differential correspondence",
)
DRIVER_TARGETS = ['SshuttleModel.Code.DgramSys', 'SshuttleModel.Gen.C10', 'SshuttleModel.Gen.C11']
EXTRA_TARGETS = DRIVER_TARGETS
ASSUMPTIONS = [
    "a UDP-capable method (tproxy) is in use; the tunnel delivers frames reliably and in order (C07)",
    "one ready descriptor per server round; the clock is quantised to 1/1024 s",
    "printed addresses contain no comma; ports are below 65536",
    "no id is reassigned while frames of its previous owner are in flight or before the server's sweep has run",
]


def run(ctx):
    E.run_property(ctx, 'C11', 'udp')


def replay(ctx, rep):
    return E.replay_case('C11', rep)
