"""C11 — forwarded UDP keeps datagram boundaries, payload and addressing.

Correspondence: the real client (`MultiListener.add_handler` -> `onaccept_udp`, `udp_done`,
`expire_connections`, tproxy `recv_udp`/`send_udp`, a real `Mux`) and the real `server.main`
loop (`udp_open`, `udp_req`, `UdpProxy`, the udphandlers sweep) on fake datagram sockets and a
scripted clock (harness/dgram_engine.py) against the Lean code model.
Oracle: the engine's record of captured datagrams, associations and remote replies versus the
`sendto` calls the fake server sockets and the client's transparent sender sockets received.
"""
import dgram_engine as E

RULE = ("cases = scenarios over the real client and server ends (tproxy method): UDP datagram captured from 9 IPv4/IPv6 "
        "sources (IPv6 as 4-tuples) to 7 destinations with payloads empty/1/512/4096/4097/all-commas/'1.2.3.4,53,'-"
        "prefixed/random, interleaved DNS captures and other accepts, clock advance around the 30 s horizon, server "
        "round reading n frames (sendto errors scripted), replies from several remote hosts or a recvfrom error on a "
        "chosen server socket, frame delivered to the client, injected frames, ids occupied by other flows; corpus for "
        "expiry at 30 s -1/0/+1 tick, refresh of an overdue association, recv and sendto errors; every tenth random "
        "scenario uses MAX_CHANNEL in {2,3,4,6}; non-trivial = at least two distinct oracle events; "
        "distinct = distinct (cfg, step list); every case runs the real code at a verbosity taken from the rotation "
        "[0,0,3,0,2,0,13,1] shifted by the seed (13 = -vvv with a stderr whose write fails with EIO), stored in the "
        "replay's cfg as v=N; the oracle does not depend on it; directed 0- and 1-byte datagrams in both directions; the listener's .family is rotated too (today's "
        "socket constant / the pre-3.11 enum whose str() is 'AddressFamily.AF_INET' / a plain int, fam= in the cfg); "
        "histories at scale: 1, 5, 64, 65, 128, 129, 300 (thorough: 1000) concurrently outstanding queries / "
        "associations, all idle past the deadline or with a busy prefix kept alive, then accepts and late replies "
        "(tables shown as count/sum digests on both sides above 48 entries)")
MANIFEST = dict(
    level_text=("Machine-checked Lean 4 theorems (core only) over a statement-by-statement model of onaccept_udp/udp_done/"
                "expire_connections, udp_open/udp_req/UdpProxy, the server round + sweep and the header codec, for ALL scripts: "
                "(C11_hdr_roundtrip) 'ip,port,'+payload splits back to exactly (ip, port, payload) for every payload; "
                "(C11_one_association_per_source) for every sequence of client events with arbitrary clock readings and incoming "
                "frames, a source whose association has not reached its deadline keeps the SAME id, so all its datagrams in "
                "between are queued on it without a new UDP_OPEN; (C11_batch_one_socket / C11_send_error_keeps_association) on the "
                "server every datagram of an id leaves through the id's one socket, exactly one sendto per frame with identical "
                "payload and original destination, and a failing sendto of ANY errno changes nothing but the log — handler, "
                "socket, id map and channels stay; one frame and one local datagram from the replying host per remote reply "
                "(C11_one_to_one_*); (C11_expiry, C11_close_both_ends) the client's lazy sweep removes exactly the overdue "
                "associations with one UDP_CLOSE each and, after that frame is processed and the round's sweep has run, neither "
                "side holds the id; (C11_one_clock + pin of every clock read) deadlines are written and compared in one clock "
                "domain. Tied to the code on every run by a differential run of the real code on fake sockets plus an "
                "implementation-level oracle."),
    level_note=("Trusted: Lean kernel; three standard axioms; harness fakes; tunnel as FIFO of frames (C07). Expiry is lazy (runs "
                "inside accept events): an overdue association that sees traffic before any sweep is refreshed, not reopened "
                "(C11_refresh_before_sweep). 'Distinct sources get distinct ids' is proved for every reachable client state "
                "(C11_one_socket_per_source, C11_table_ids_distinct: the table invariant ClientTables is preserved by every "
                "client event, Props/C11_ClientTables.lean); the oracle checks the same conclusion on the real objects. Id reuse "
                "within one server round / with frames in flight breaks the server or misdelivers for small MAX_CHANNEL (known "
                "finding F19; C11_close_both_ends states the precondition). Server sendto() errors are modelled as 'any errno: "
                "logged, the association and its socket stay'; the corpus drives errnos inside and outside NET_ERRS followed by "
                "more traffic on the same association. Which clock a read uses is a pin on the source (Gen.C11.CLOCK_READS). "
                "IP_TRANSPARENT bind is the kernel's."),
    technique="Lean 4 proof (codec round trip, invariants by induction over step lists and frame batches) + differential correspondence",
)
DRIVER_TARGETS = ['SshuttleModel.Code.DgramSys', 'SshuttleModel.Gen.C10', 'SshuttleModel.Gen.C11']
EXTRA_TARGETS = DRIVER_TARGETS
ASSUMPTIONS = [
    "the listener's recvmsg() fake cuts control messages to the offered buffer (MSG_CTRUNC) and the payload to the "
    "receive size (MSG_TRUNC) as Linux does; it is compared with real loopback sockets on every run",
    "a UDP-capable method (tproxy) is in use; the tunnel delivers frames reliably and in order (C07)",
    "one ready descriptor per server round; the clock is quantised to 1/1024 s",
    "printed addresses contain no comma; ports are below 65536",
    "no id is reassigned while frames of its previous owner are in flight or before the server's sweep has run",
]


def run(ctx):
    E.run_property(ctx, 'C11', 'udp')


def replay(ctx, rep):
    return E.replay_case('C11', rep)
