"""C02 — end-of-stream follows all data; half-close works; finished flows are torn down.

Same engine as C01 (real tunnel classes on scripted sockets, replayed on `Code/Tunnel.lean`).
Generator emphasis: close orders (either side first, both at once, before the connect
completes, with data buffered at every hop), half-close with traffic continuing the other way.
Oracles on the real run: no shutdown towards an endpoint before every byte written before the
close; no data after the shutdown; after a fair drain every finished flow is torn down on both
ends (handlers dropped, ids free, sockets shut) and nothing is stuck in a buffer.
"""
import tunnel_gen as tg
from tunnel_sim import Io

RULE = ("scenario = 1..3 flows; scripted close orders (app first / dst first / both / before connect completes / "
        "with data queued at each hop) followed by random steps and a fair drain driven by pre_select; a second "
        "drain after closing everything; non-trivial = a half-close with data still flowing the other way, a close "
        "before connect completion or a close with >1 chunk buffered occurred; distinct = distinct step script")
DRIVER_TARGETS = ['SshuttleModel.Code.Tunnel']
DRIVERS = ['Tunnel']
ASSUMPTIONS = [
    "as C01; 'fair' = every readiness that pre_select asks for and that holds is eventually granted",
    "object lifetime (who closes the fd) is CPython refcounting: the harness only checks that handlers leave the list",
]
MANIFEST = dict(
    level_text=("Lean 4 theorems over the same tunnel model as C01, for every reachable state of every schedule: no DATA frame "
                "of a flow is queued behind its EOF frame (C02_eof_frame_last); an end sends EOF only when it has stopped "
                "reading, its buffer is empty and it can never frame another byte (C02_eof_sender_done); once the receiving "
                "end has processed the EOF and not yet shut the endpoint socket, no DATA is in flight and everything read "
                "from the peer endpoint is EXACTLY what was delivered plus what that end still buffers (C02_eof_after_data_up/"
                "_down, no loss), and the end-of-stream path shuts the socket only when that buffer is empty "
                "(C02_eof_shutdown_complete), so end-of-stream reaches an endpoint after every byte sent before the close; an "
                "end discards buffered bytes only on STOP_SENDING, which is sent only after the sender shut its own socket "
                "(C02_no_discard_before_shutdown, C02_stop_only_after_shutdown); the closed direction leaves the other direction's accounting intact "
                "(C02_half_close); a handler with ok=False has shut its socket (C02_dead_handler_shut), a dropped handler "
                "left no socket un-shut (C02_dropped_handler_shut), and - with no hypothesis on the schedule - ok=False "
                "means all four shut flags set, buffers empty and the id unregistered, i.e. reusable (C02_finished_frees_id); "
                "no reachable quiet state is stuck: when nothing is pending (queues drained, buffers empty, nothing to read, "
                "every flag propagated - Quiet, proved equivalent to the executable test quietB) every open endpoint has "
                "received exactly what the tunnel read from its peer, every closed endpoint's close has reached the other "
                "endpoint's socket, and if both closed both handlers are completely shut and unregistered, i.e. the id is free "
                "(C02_quiet_complete); and no wake-up is lost at the level of one handler: what it registers for with the "
                "select loop (wants = Proxy.pre_select, compared with the real pre_select on every replayed step) is exactly what "
                "its callback then does - asked-for tunnel writability puts at least one more frame on the tunnel "
                "(C02_wakeup_send), asked-for readability with bytes or a close pending consumes a byte or records the "
                "end-of-stream (C02_wakeup_read), asked-for socket writability delivers a byte or, the socket being shut, drops "
                "the buffer so that the handler stops asking (C02_wakeup_deliver), and a handler that registers for nothing is "
                "not connecting, holds nothing for its socket and has stopped reading or waits for a paused tunnel "
                "(C02_nothing_wanted_nothing_possible); after every callback nothing is left for pre_select to propagate, so a handler whose "
                "two writers are shut with nothing buffered was marked finished by that very callback and is dropped at the next "
                "pass of the loop (C02_finished_noticed_in_callback - true only since the repair bcee896 of the defect this "
                "check found: such a handler used to stay registered until unrelated tunnel traffic), and at the level of the select loop: "
                "after a pass in which the tunnel was readable (every handler of that end gets its callback, with any per-socket "
                "behaviour) no handler with both writers shut and empty buffers is still marked alive "
                "(C02_pass_notices_finished); every end-of-stream that can be passed on has been passed on when a callback returns "
                "(C02_eof_passed_on_in_callback), so a handler that has just had its callback and registers nothing with select, the "
                "tunnel not being paused, is quiet - no wake-up is lost between a callback and the next select "
                "(C02_idle_handler_is_quiet, C02_pass_leaves_nothing_unasked), and conversely a handler that has had its callback and is "
                "not quiet registers a descriptor that is ready and its callback then changes the state "
                "(C02_unquiet_handler_is_woken); and the property's last sentence as a theorem: in every reachable alive world, if none of the "
                "loop's own moves changes it - delivering the next frame in either direction, a callback of any handler on either "
                "end with every socket ready - then the world is Quiet (C02_no_stuck_state, from callback_fixpoint: a handler on "
                "which a fully-ready callback is the identity is not connecting, has both buffers empty, nothing to read and every "
                "shut flag passed on), hence complete (C02_stuck_is_complete). The real loop's rest states are checked against exactly "
                "that hypothesis on every run: at quiescence every listed handler gets one fully-ready callback and nothing may change. "
                "BOUNDED WORK is a theorem too: a weighted count of what is still to do (bytes unread at an endpoint 8, buffered for "
                "the tunnel 6, in a frame 3, buffered for a socket 2; chunks, frames, flags still to be set, handlers still "
                "registered) never increases along the loop's own moves and strictly decreases on every move that changes anything - "
                "a callback of any handler with any socket behaviour and any fault, pre_select, a frame delivery in either "
                "direction, dropping finished handlers (loop_step_dec, from callback_dec proved stage by stage) - so from ANY world a "
                "sequence of loop moves that each change something is at most worldMu(w) long (C02_bounded_work, "
                "C02_measure_monotone); together (C02_maximal_run_completes): from any reachable world, every run of effective loop "
                "moves continued until no move changes anything is at most worldMu long and ends in a Quiet, i.e. complete, world "
                "(C02_maximal_run_delivers spells the conclusion out: every open endpoint has received exactly what was read from its "
                "peer, every close has reached the other endpoint's socket). "
                "The model is replayed against the real classes on every run with close-order scenarios; teardown within "
                "bounded work and absence of stuck states are ALSO checked on the real code by the real-loop drain oracle (real ssnet.runonce "
                "passes with the environment's actual readiness)."),
    level_note=("Trusted: as C01. Liveness is proved over the model as: no stuck state (C02_no_stuck_state), per-handler progress "
                "(C02_wakeup_*, C02_unquiet_handler_is_woken), bounded work (C02_bounded_work: every effective move of the loop "
                "uses up some of a finite measure), and the scheduler itself: Code/Loop.lean models one ssnet.runonce pass with "
                "the model choosing which handler gets how many callbacks from what the handlers asked for and what select "
                "reports; a pass is a schedule of loop moves for ANY select answer (C02_round_is_run); a pass in the "
                "environment as it is that does not lower the measure leaves its end quiet "
                "(C02_pass_without_progress_is_quiet); every handler has had its callback between passes "
                "(C02_noticed_between_passes); hence C02_loop_history_completes: after any history of the loop's own alphabet, "
                "once a pass at each end no longer lowers the measure (at most worldMu effective passes, "
                "C02_effective_passes_bounded) the world is Quiet and complete. Outside the theorems: the operating system's "
                "select answering truthfully, and the tie of World.round to the real ssnet.runonce, which is this check's "
                "correspondence: every real pass (the drain's and the generator's) is one `round` line the model executes on "
                "its own, and the state after the pass and the number of callbacks made are compared; the real loop is also "
                "held to the theorems pass by pass (measure never up, down if anything changed, an idle pass leaves its end "
                "quiet) and its rest states to Quiet; no finished handler is listed when a pass reaches select "
                "(C02_no_finished_handler_at_select, Props/C02_Select.lean; checked on the real runonce at its call of select)."),
    technique="Lean 4 proof (invariants over all schedules, progress, termination measure) + differential replay + real-loop drain oracle on the real classes",
)


def scripted_prefix(sc, rng, kind):
    """A deterministic opening that puts data at every hop, then closes in the chosen order."""
    t = sc.t
    sc.do(('accept',))
    if sc.stop or not t.flows:
        return
    i = 0
    up = tg.payload(rng, rng.choice([1, 2048, 2049, 5000]), 1)
    down = tg.payload(rng, rng.choice([1, 2048, 4097, 10000]), 2)
    if kind == 'close-before-connect':
        sc.env_write(i, 'app', up)
        sc.do(('cb', 'c', i, Io('ok', 'd65536', 'a', False)))
        sc.do(('ae', i))
        sc.do(('cb', 'c', i, Io('ok', 'd1', 'a', False)))
        sc.do(('deliver', 's', 'ok'))              # PING
        sc.do(('deliver', 's', 'e115:0'))          # CONNECT: in progress
        sc.nontrivial.add('close-before-connect')
        return
    sc.do(('deliver', 's', 'ok'))
    sc.do(('deliver', 's', 'ok'))
    sc.env_write(i, 'app', up)
    sc.env_write(i, 'dst', down)
    sc.do(('cb', 'c', i, Io('ok', 'd65536', 'a', False)))
    sc.do(('cb', 's', i, Io('ok', 'd65536', 'a', False)))
    if kind == 'app-first':
        sc.do(('ae', i))
        sc.nontrivial.add('half-close')
    elif kind == 'dst-first':
        sc.do(('de', i))
        sc.nontrivial.add('half-close')
    elif kind == 'both':
        sc.do(('ae', i))
        sc.do(('de', i))
    elif kind == 'half-close-then-reply':
        sc.do(('ae', i))
        sc.do(('cb', 'c', i, Io('ok', 'd1', 'a', False)))
        sc.env_write(i, 'dst', tg.payload(rng, 10000, 3))
        sc.do(('cb', 's', i, Io('ok', 'd65536', 'a', False)))
        sc.do(('cb', 's', i, Io('ok', 'd65536', 'a', False)))
        sc.do(('de', i))
        sc.nontrivial.add('half-close')
        sc.nontrivial.add('multi-chunk-at-close')


def scenario(ctx, rng, o, kind):
    sc = tg.Scenario(rng, o)
    try:
        scripted_prefix(sc, rng, kind)
        for _ in range(o.steps):
            sc.random_step()
            if sc.stop:
                break
            if not tg.oracle_eof_order(ctx, sc, 'C02', 'random phase'):
                break
        if not sc.stop:
            q = sc.drain(on_round=lambda s: tg.oracle_eof_order(ctx, s, 'C02', 'drain'))
            for i in range(len(sc.t.flows)):
                sc.do(('ae', i))
                sc.do(('de', i))
            q = sc.drain(on_round=lambda s: tg.oracle_eof_order(ctx, s, 'C02', 'final drain'))
            if not sc.stop:
                if not q:
                    tg.report(ctx, sc, 'C02:liveness:no-quiescence-within-bound', 0, 'drain', 'quiescent', 'still changing')
                else:
                    tg.oracle_eof_order(ctx, sc, 'C02', 'end')
                    tg.oracle_teardown(ctx, sc, 'C02')
                    tg.oracle_no_pending(ctx, sc, 'C02')
                    tg.oracle_quiet(ctx, sc, 'C02')
        tg.oracle_alive(ctx, sc, 'C02', 'run')
        return sc.s.ins, sc.s.outs, bool(sc.nontrivial)
    finally:
        sc.close()


def reuse_scenario(ctx, rng, maxchan):
    """Finished flows make their identifier reusable: with MAX_CHANNEL = maxchan, maxchan + 2 flows that each
    run to completion one after the other must all be accepted."""
    o = tg.Opts(nflows=maxchan + 2, steps=0, maxchan=maxchan, chani=0)
    sc = tg.Scenario(rng, o)
    try:
        for k in range(maxchan + 2):
            n0 = len(sc.t.flows)
            sc.do(('accept',))
            if sc.stop:
                break
            if len(sc.t.flows) == n0:
                tg.report(ctx, sc, 'C02:teardown:identifier-not-reusable', k, 'accept %d with MAX_CHANNEL=%d' % (k, maxchan),
                          'a finished flow frees its id for the next connection', 'connection discarded: no free id')
                break
            i = len(sc.t.flows) - 1
            sc.env_write(i, 'app', tg.payload(rng, 10, i))
            sc.env_write(i, 'dst', tg.payload(rng, 3000, i + 50))
            sc.drain()
            sc.do(('ae', i))
            sc.do(('de', i))
            q = sc.drain()
            tg.oracle_eof_order(ctx, sc, 'C02', 'sequential flow %d' % k)
            if q and not sc.stop:
                tg.oracle_teardown(ctx, sc, 'C02')
        tg.oracle_alive(ctx, sc, 'C02', 'run')
        return sc.s.ins, sc.s.outs
    finally:
        sc.close()


def run(ctx):
    rng = ctx.rng
    tg.set_verbosity_seed(ctx.seed)
    all_in, all_out = [], []
    for maxchan in (1, 2, 3):
        ins, outs = reuse_scenario(ctx, rng, maxchan)
        all_in.append(ins)
        all_out.append(outs)
        ctx.count()
        ctx.mark(('reuse', maxchan), True)
        ctx.hist('kind=id-reuse')
    for maxchan in (1, 2):
        ins, outs = tg.reap_after_reuse(ctx, rng, 'C02', maxchan)
        all_in.append(ins)
        all_out.append(outs)
        ctx.count()
        ctx.mark(('reap-after-reuse', maxchan), True)
        ctx.hist('kind=reap-after-reuse')
    for tag, fn in ([('burst-%d' % n, (lambda n=n: tg.burst_in_one_read(ctx, rng, 'C02', n))) for n in (40, 130, 1200)] +
                    [('burst-halfclose-%d' % n, (lambda n=n: tg.burst_in_one_read(ctx, rng, 'C02', n, dst_closes=False)))
                     for n in (3, 40)] +
                    [('failure-%s-%s' % (w_, f_), (lambda w_=w_, f_=f_: tg.failure_tears_down(ctx, rng, 'C02', w_, f_)))
                     for w_ in ('app', 'dst') for f_ in ('recv', 'send')] +
                    [('closed-app-streaming-dst', lambda: tg.closed_app_streaming_dst(ctx, rng, 'C02'))] +
                    [('stop-after-eof-%s' % w_, (lambda w_=w_: tg.stop_after_eof(ctx, rng, 'C02', w_))) for w_ in ('dst', 'app')] +
                    [('close-before-connect-hangs-%d' % n, (lambda n=n: tg.close_before_connect_hangs(ctx, rng, 'C02', n))) for n in (0,)] +
                    [('eof-meets-connect-%d' % n, (lambda n=n: tg.eof_meets_connect(ctx, rng, 'C02', n))) for n in (1, 3000)] +
                    [('connect-with-followers-%d-%d' % (n, k), (lambda n=n, k=k: tg.connect_with_followers(ctx, rng, 'C02', n, k)))
                     for n, k in ((0, 1), (300, 1), (0, 3), (5000, 2))] +
                    [('finish-in-one-pass-%d-%s' % (n, e_), (lambda n=n, e_=e_: tg.flows_finish_in_one_pass(ctx, rng, 'C02', n, e_)))
                     for n, e_ in ((2, 'c'), (2, 's'), (3, 'c'), (5, 's'))]):
        ins, outs = fn()
        all_in.append(ins)
        all_out.append(outs)
        ctx.count()
        ctx.mark(('directed', tag), True)
        ctx.hist('kind=directed:' + tag.split('-')[0])
    for which in ('dst', 'app'):
        ins, outs = tg.reader_closed_keeps_sending(ctx, rng, 'C02', which)
        all_in.append(ins)
        all_out.append(outs)
        ctx.count()
        ctx.mark(('reader-closed', which), True)
        ctx.hist('kind=reader-closed-keeps-sending')
    kinds = ['app-first', 'dst-first', 'both', 'close-before-connect', 'half-close-then-reply', 'none']
    n = ctx.scale(60, 1500)
    for k in range(n):
        kind = kinds[k % len(kinds)]
        o = tg.Opts(nflows=rng.choice([1, 1, 2, 3]), steps=rng.randrange(5, 50), closes=True,
                    latency=rng.random() < 0.3, bufsize=rng.choice([100, 2048, 32768]), epipe=(k % 3 == 1))
        ins, outs, nontrivial = scenario(ctx, rng, o, kind)
        all_in.append(ins)
        all_out.append(outs)
        ctx.count()
        ctx.mark(tuple(ins), nontrivial)
        ctx.hist('kind=' + kind)
        if k < 2:
            ctx.sample(dict(kind=kind, script=ins[:14], real_code_state=outs[-1][:300]))
        if len(ctx.violations) > 3:
            break
    tg.compare(ctx, all_in, all_out, 'C02')


def replay(ctx, rep):
    if 'closed-before-connect' in rep.get('key', ''):
        cfgv = rep.get('case', {}).get('cfg') or []
        c2 = type(ctx)(ctx.prop_id, 'quick', 0)
        with tg.pinned(cfgv):
            tg.close_before_connect_hangs(c2, c2.rng, 'C02', 0)
        hit = [v for v in c2.violations if v['key'] == rep.get('key')]
        return bool(hit), (str(hit[0]['observed']) if hit else 'the flow is torn down on both ends and the application is told')
    if ':reuse:' in rep.get('key', ''):
        c2 = type(ctx)(ctx.prop_id, 'quick', 0)
        with tg.pinned(rep.get('case', {}).get('cfg')):
            for maxchan in (1, 2):
                tg.reap_after_reuse(c2, c2.rng, 'C02', maxchan)
        hit = [v for v in c2.violations if v['key'] == rep.get('key')]
        return bool(hit), (str(hit[0]['observed']) if hit else 'the new flow keeps its identifier and its bytes')
    if ':work:' in rep.get('key', ''):
        return tg.replay_work(rep['case'])
    s, wrote = tg.replay_script(rep['case'])
    try:
        common_verdict = tg.replay_common(s)
        if common_verdict:
            return common_verdict
        if 'flow-not-torn-down' in rep.get('key', ''):
            return tg.replay_torn_down(s, rep['case'])
        if 'teardown' in rep.get('key', '') or 'stuck' in rep.get('key', ''):
            tg.continue_fairly(s, rep['case'].get('script', []))
        class Sc:
            pass
        sc = Sc()
        sc.t, sc.s = s.t, s
        sc.faulty, sc.wrote = set(), wrote
        sc.refused = set(tuple(x) for x in rep.get('case', {}).get('refused', []))
        sc.written = lambda i, side: wrote.get((i, side), b'')
        c2 = type(ctx)(ctx.prop_id, 'quick', 0)
        tg.oracle_eof_order(c2, sc, 'C02', 'replay')
        if 'teardown' in rep.get('key', '') or 'stuck' in rep.get('key', ''):
            tg.oracle_teardown(c2, sc, 'C02')
            tg.oracle_no_pending(c2, sc, 'C02')
        if s.t.died:
            return True, 'process died: %s' % s.t.died
        if c2.violations:
            return True, '%s: %s' % (c2.violations[0]['key'], c2.violations[0]['observed'])
        return False, 'recorded schedule ends without an EOF-order / teardown violation'
    finally:
        s.close()
